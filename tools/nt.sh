#!/bin/bash
# usage: tools/nt.sh [names…]  — run all rules on the cached facts of the independent neutral refactorings (.scratch/nt/*), print alarms
cd /verif
one(){ d=$1; out=$(./check ALL --facts .scratch/nt/$d --no-evidence 2>&1 | grep -vE "^KNOWN-FINDING|^VIOLATION" | grep -E "\|" | cut -c1-${W:-250} | sort -u)
  if [ -z "$out" ]; then echo "== $d silent"; else echo "== $d"; echo "$out"; fi; }
export -f one; export W
printf '%s\n' ${@:-$(ls .scratch/nt)} | xargs -P ${J:-12} -I{} bash -c 'one {}' | grep -v "conda.cli"
