#!/usr/bin/env python3
"""tools/seed_table.py — regenerate the table rows of DESIGN.md §9 from seeded/*/meta.json (prints markdown rows)"""
import json, glob, os
rows = []
for m in sorted(glob.glob('/verif/seeded/*/meta.json')):
    d = json.load(open(m))
    esc = lambda s: str(s).replace('|', '\\|').replace('\n', ' ')
    rows.append('| `%s` | %s | %s | %s |' % (d['id'], ', '.join(d['property_broken']), esc(d['needs_to_manifest']), esc(d['caught_by'])))
print('\n'.join(rows))
