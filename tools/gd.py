#!/usr/bin/env python3
"""tools/gd.py <facts dir> <fn id substr> [pred substr] — print the guards of a function (dev aid)"""
import sys, os
sys.path.insert(0, '/verif/rules'); sys.path.insert(0, '/verif')
import mirlib, guards
prog = mirlib.Program(os.path.join(sys.argv[1], 'mir.json'))
W = int(os.environ.get('W', 300))
for f in prog.fns.values():
    if sys.argv[2] in f.id:
        for g in guards.guards_of(f):
            s = mirlib.show(g.pred)
            if len(sys.argv) < 4 or sys.argv[3] in s:
                print(f.id, g.kind, g.where(), '::', s[:W])
