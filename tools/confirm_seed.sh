#!/bin/bash
# usage: tools/confirm_seed.sh C09 m1   — confirms a seeded change in its scratch worktree, then runs the checks against it
ID=$1; M=$2
W=/tmp/wt/$ID; S=${SEEDBASE:-/tmp/seed}/$ID/$M
export CARGO_TARGET_DIR=$W/target CARGO_NET_OFFLINE=true
cd $W || exit 9
git checkout -q -- . ; git clean -fdq -e target
git apply --check $S/patch.diff || { echo "APPLY-FAIL"; exit 3; }
# clean tree: demo must pass
( bash $S/demo.sh $W >$S/demo_clean.log 2>&1 ); C=$?
git apply $S/patch.diff
cargo build --offline --examples >$S/build.log 2>&1; B=$?
T=$(cargo test --offline 2>&1 | grep -E "^test result" | tr '\n' ' ')
( bash $S/demo.sh $W >$S/demo_patched.log 2>&1 ); D=$?
git checkout -q -- . ; git clean -fdq -e target
echo "seed $ID/$M: build=$B demo_clean_exit=$C demo_patched_exit=$D tests: $T"
cd /verif && tools/try_patch.sh $S/patch.diff
