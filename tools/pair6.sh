#!/bin/bash
# usage: tools/pair6.sh [Cxxmn…] — round-6 pairs: the honest refactoring (.scratch/nt/H6-*) must be silent, the same refactoring with its slip
# (.scratch/s6/*) must be reported under its own property.  Prints one line per pair.
cd /verif
mkdir -p .scratch/s6
for d in /tmp/seed6/C*/m*; do n=$(echo $d | sed 's#/tmp/seed6/\(C..\)/\(m.\)#\1\2#'); [ -f .scratch/s6/$n/mir.json ] || echo $n; done | xargs -r -P 8 -I{} bash -c 'c=$(echo {} | cut -c1-3); m=$(echo {} | cut -c4-5); tools/facts_for.sh /tmp/seed6/$c/$m/patch.diff .scratch/s6/{} >/dev/null 2>&1'
one(){ n=$1; own=$(echo $n | cut -c1-3)
  h=$(./check ALL --facts .scratch/nt/H6-$n --no-evidence 2>&1 | grep -E "^VIOLATION" | sed 's/.*property=\(C..\).*/\1/' | tr '\n' ' ')
  s=$(./check ALL --facts .scratch/s6/$n --no-evidence 2>&1 | grep -E "^VIOLATION" | sed 's/.*property=\(C..\).*/\1/' | tr '\n' ' ')
  hs="SILENT"; [ -n "$h" ] && hs="ALARM($h)"
  ss="MISSED"; echo " $s" | grep -q " $own" && ss="own"; [ "$ss" = MISSED ] && [ -n "$s" ] && ss="other($s)"
  echo "$n honest=$hs seeded=$ss"; }
export -f one
printf '%s\n' ${@:-$(ls /tmp/seed6 | while read c; do echo ${c}m1; echo ${c}m2; done)} | xargs -P ${J:-12} -I{} bash -c 'one {}' | grep -v conda.cli | sort
