#!/usr/bin/env python3
"""tools/sd_all.py — after tools/sd.sh > /tmp/sd_out.txt: every property a seed lists in meta.json (primary and secondary) must fire"""
import json, re, glob, sys
fired = {}
for l in open(sys.argv[1] if len(sys.argv) > 1 else '/tmp/sd_out.txt'):
    m = re.match(r'^(\S+) (detected|MISSED:.*?) \((?:fired: )?([^)]*)\)', l)
    if m:
        fired[m.group(1)] = set(m.group(3).split())
bad = []
for mf in sorted(glob.glob('/verif/seeded/*/meta.json')):
    d = json.load(open(mf))
    need = set(d['property_broken']) | set(d.get('also_detected_under', []))
    miss = need - fired.get(d['id'], set())
    if miss:
        bad.append((d['id'], sorted(miss), sorted(fired.get(d['id'], []))))
for b in bad:
    print(b)
print('%d seeds with an undetected listed property, %d seeds evaluated' % (len(bad), len(fired)))
