#!/usr/bin/env python3
"""tools/ob.py <facts dir> <key substring>… — print the obligations whose key contains a substring (dev aid)"""
import sys, os
sys.path.insert(0, '/verif/rules'); sys.path.insert(0, '/verif')
import registry
d = sys.argv[1]
mir = os.path.join(d, 'mir.json'); syn = os.path.join(d, 'syn.json')
ctx = registry.run_all(mir, syn if os.path.exists(syn) else None, '/repo', 'quick', registry.ALL_PROPS)
for o in ctx.obs:
    if any(k in o.key for k in sys.argv[2:]):
        print('OK ' if o.ok else 'BAD', ','.join(o.props), o.rule, o.key, '::', str(o.what)[:int(os.environ.get('W', 600))])
