#!/usr/bin/env python3
"""tools/regen_ctors.py — regenerate spec/ctors.json (what each called plain constructor of the pinned tree builds) from
.scratch/mir.json.  Run only on the pinned tree; review the diff."""
import sys, json
sys.path.insert(0, '/verif/rules')
from mirlib import Program
import r_access
P = Program('/verif/.scratch/mir.json')
c = r_access.plain_constructors(P)
json.dump({'note': 'value built by each plain constructor that non-test code of the pinned tree calls, in terms of its parameters a1..aN (reviewed by reading the source)',
           'ctors': c}, open('/verif/spec/ctors.json', 'w'), indent=1, sort_keys=True)
print(len(c))
