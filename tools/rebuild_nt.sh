#!/bin/bash
# rebuild the cached facts of the independent neutral refactorings (after a change of the fact format)
cd /verif
n=0
for d in $(ls .scratch/nt); do
  case $d in X-rename) p=/tmp/neutral/rename.diff;; *) p=/tmp/neutral/${d%%-*}/${d#*-}.diff;; esac
  [ -f "$p" ] || { echo "no patch for $d"; continue; }
  tools/facts_for.sh $p .scratch/nt/$d >/dev/null 2>&1 &
  n=$((n+1)); if [ $((n % 12)) == 0 ]; then wait; fi
done
wait
