#!/usr/bin/env python3
"""mkpatch.py <out.diff> <file> <old> <new> [<file> <old> <new> …] — unified diff of /repo with textual replacements (each must match once)"""
import sys, difflib
out = sys.argv[1]
args = sys.argv[2:]
chunks = []
by = {}
for i in range(0, len(args), 3):
    f, old, new = args[i:i+3]
    src = by.get(f) or open('/repo/' + f).read()
    assert src.count(old) == 1, (f, old, src.count(old))
    by[f] = src.replace(old, new)
for f, new in by.items():
    a = open('/repo/' + f).read().splitlines(True)
    b = new.splitlines(True)
    chunks.append(''.join(difflib.unified_diff(a, b, 'a/' + f, 'b/' + f)))
open(out, 'w').write(''.join(chunks))
