#!/bin/bash
# usage: tools/sd.sh [--rebuild] [ids…] — run the rules on cached facts of the seeded corpus (.scratch/sd/<id>), print per seed whether
# each property it breaks is detected
cd /verif
if [ "$1" == "--rebuild" ]; then shift; rm -rf .scratch/sd; fi
ids=${@:-$(ls seeded)}
n=0
for id in $ids; do
  if [ ! -f .scratch/sd/$id/mir.json ]; then
    tools/facts_for.sh seeded/$id/patch.diff .scratch/sd/$id >/dev/null 2>&1 &
    n=$((n+1)); if [ $((n % 12)) == 0 ]; then wait; fi
  fi
done
wait
one() {
  id=$1
  props=${id:0:3}   # the property the seed was written against; other properties listed in meta.json are secondary
  if [ ! -f .scratch/sd/$id/mir.json ]; then echo "$id NO-FACTS"; return; fi
  out=$(./check ALL --facts .scratch/sd/$id --no-evidence 2>&1 | grep "^VIOLATION" | sed 's/VIOLATION property=\(C[0-9]*\).*/\1/' | sort -u | tr '\n' ' ')
  miss=""
  for p in $props; do case " $out " in *" $p "*) ;; *) miss="$miss $p";; esac; done
  if [ -z "$miss" ]; then echo "$id detected ($out)"; else echo "$id MISSED:$miss (fired: $out)"; fi
}
export -f one
printf "%s\n" $ids | xargs -P 12 -I{} bash -c 'one {}' | sort
