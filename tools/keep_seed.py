#!/usr/bin/env python3
"""keep_seed.py <Cxx> <mN> <new-id> <breaks> <needs> <caught-by> — store a confirmed seeded change under /verif/seeded/<new-id>/"""
import sys, os, shutil, json, subprocess
cid, m, nid, breaks, needs, caught = sys.argv[1:7]
src = '%s/%s/%s' % (os.environ.get('SEEDBASE', '/tmp/seed'), cid, m)
dst = '/verif/seeded/%s' % nid
if os.path.exists(dst):
    shutil.rmtree(dst)
os.makedirs(dst)
for n in os.listdir(src):
    p = os.path.join(src, n)
    if n.endswith('.log'):
        continue
    if os.path.isdir(p):
        shutil.copytree(p, os.path.join(dst, n))
    else:
        shutil.copy(p, os.path.join(dst, n))
logs = {}
for n in ('demo_clean.log', 'demo_patched.log'):
    p = os.path.join(src, n)
    if os.path.exists(p):
        logs[n] = open(p, errors='replace').read()[-600:]
meta = {
    'id': nid, 'property_broken': breaks.split(','), 'author': 'independent sub-agent given only the property text and a scratch worktree',
    'needs_to_manifest': needs,
    'confirmed_by_me': 'in scratch worktree /tmp/wt/%s: patch applies to the pinned tree; cargo build --offline --examples ok; cargo test --offline: 62 passed; demo.sh exits 0 on the clean tree and non-zero with the patch (tools/confirm_seed.sh %s %s)' % (cid, cid, m),
    'checks_run': 'tools/try_patch.sh seeded/%s/patch.diff (applies the patch to a scratch copy of /repo and runs ./check ALL against it)' % nid,
    'caught_by': caught,
    'demo_logs': logs,
}
json.dump(meta, open(os.path.join(dst, 'meta.json'), 'w'), indent=1)
print('kept', dst)
