#!/usr/bin/env python3
"""tools/regen_grammar_ref.py — regenerate spec/grammar_ref.json from the facts of the pinned tree (.scratch/mir.json).
Run only when the *format* of the extracted paths changes; the diff against the committed file must then be explained by that
format change alone (it prints the productions whose paths differ after normalising helper-call arguments)."""
import sys, json, re
sys.path.insert(0, '/verif/rules')
from mirlib import Program
import r_parser
P = Program('/verif/.scratch/mir.json')
g = r_parser.extract(P)
old = json.load(open('/verif/spec/grammar_ref.json'))
norm = lambda p: re.sub(r'(call\([^()]*?),[^,()]*\)', r'\1,)', p)
for k in sorted(set(g) | set(old['productions'])):
    a = sorted(set(norm(p) for p in g.get(k, [])))
    b = sorted(set(norm(p) for p in old['productions'].get(k, [])))
    if a != b:
        print('DIFFERS beyond call arguments:', k, len(a), len(b))
old['productions'] = g
json.dump(old, open('/verif/spec/grammar_ref.json', 'w'), indent=0)
print('productions', len(g), 'paths', sum(len(v) for v in g.values()))
