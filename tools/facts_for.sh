#!/bin/bash
# usage: tools/facts_for.sh <patch.diff> <out dir>   — MIR facts of /repo + patch (scratch copy removed afterwards); for rule development
P=$(realpath "$1"); O=$(realpath -m "$2"); mkdir -p "$O"
D=$(mktemp -d /tmp/pxscratch.XXXXXX)
trap 'rm -rf "$D"' EXIT
rsync -a --exclude target --exclude .git /repo/ "$D/"
( cd "$D" && git init -q . 2>/dev/null && ( git apply --whitespace=nowarn "$P" 2>/dev/null || patch -p1 -s -F3 --no-backup-if-mismatch < "$P" ) ) || { echo "PATCH-DOES-NOT-APPLY"; exit 3; }
/verif/run_pxmir.sh "$D" "$O/mir.json" >/dev/null 2>&1 || echo "pxmir failed"
ls -la "$O/mir.json"
