#!/bin/bash
# usage: tools/try_patch.sh <patch.diff> [props…]   — applies the patch to a scratch copy of /repo (outside /repo and /verif),
# runs the checks against the copy (no evidence written), prints violated properties, removes the copy.
P=$(realpath "$1"); shift
D=$(mktemp -d /tmp/pxscratch.XXXXXX)
trap 'rm -rf "$D"' EXIT
rsync -a --exclude target --exclude .git /repo/ "$D/"
( cd "$D" && git init -q . 2>/dev/null && ( git apply --whitespace=nowarn "$P" 2>/dev/null || patch -p1 -s -F3 --no-backup-if-mismatch < "$P" ) ) || { echo "PATCH-DOES-NOT-APPLY"; exit 3; }
cd /verif
OUT=$(./check ALL --repo "$D" --no-evidence 2>&1)
echo "$OUT" | grep -E "^VIOLATION|cannot build facts|crashed" | sort -u
echo "$OUT" | grep -vE "^KNOWN-FINDING|^VIOLATION" | grep -E "\|" | head -${MAXLINES:-12}
