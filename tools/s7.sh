#!/bin/bash
# tools/s7.sh [CxxmN…] — which properties the checks report for the round-7 seeds (facts in .scratch/${SDIR:-s7})
cd /verif
L=${@:-$(ls .scratch/${SDIR:-s7})}
for x in $L; do
  own=${x:0:3}
  got=$(./check ALL --facts .scratch/${SDIR:-s7}/$x --no-evidence 2>&1 | grep "^VIOLATION" | sed 's/.*property=\(C[0-9]*\).*/\1/' | sort -u | tr '\n' ' ')
  if echo " $got" | grep -q " $own "; then st=own; elif [ -n "$got" ]; then st=other; else st=MISSED; fi
  echo "$x $st :: $got"
done
