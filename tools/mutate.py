#!/usr/bin/env python3
"""tools/mutate.py [--files f1,f2] [--max N] [--workers K] [--seed S] — mutation analysis OF THE CHECKER (development aid, never part of a verdict).

Small mechanical changes are made to the non-test source of /repo (one per mutant: a comparison operator, a boolean connective,
a constant, a dropped `!`, a dropped statement, `continue` ⇄ `break`, `Some(x)` → `None`, a dropped adapter).  Each mutant that still
builds AND passes the 62 tests ("survives the test suite") is handed to the checks (`./check ALL --repo <copy>`).  The interesting
ones are the survivors the checks do NOT report: each is either an equivalent / harmless mutant or a hole in a rule.  They are
listed for triage by hand; nothing is decided automatically.

Every worker has its own scratch copy of /repo and its own target directory under /tmp/pxmut.*, removed at the end."""
import sys, os, re, random, subprocess, shutil, json, tempfile, time
from concurrent.futures import ThreadPoolExecutor

REPO = '/repo'
FILES = ['src/semantic/type_definition/mod.rs', 'src/semantic/type_definition/vftable.rs', 'src/semantic/function.rs', 'src/semantic/enum_definition.rs',
         'src/semantic/semantic_state.rs', 'src/semantic/type_registry.rs', 'src/semantic/module.rs', 'src/semantic/types.rs', 'src/grammar.rs',
         'src/backends/rust.rs', 'src/parser/mod.rs', 'src/util.rs', 'src/lib.rs']


def code_lines(path):
    """(index, line) of lines outside #[cfg(test)] modules, comments, attribute and string-only lines"""
    out = []
    src = open(path).read().split('\n')
    in_test = False
    depth_at = None
    depth = 0
    for i, l in enumerate(src):
        st = l.strip()
        if re.match(r'#\[cfg\(test\)\]', st):
            in_test = True
            depth_at = None
        if in_test:
            if depth_at is None and '{' in l:
                depth_at = depth
            depth += l.count('{') - l.count('}')
            if depth_at is not None and depth <= depth_at:
                in_test = False
            continue
        depth += l.count('{') - l.count('}')
        if not st or st.startswith('//') or st.startswith('#[') or st.startswith('use ') or st.startswith('"') or st.startswith('///'):
            continue
        out.append((i, l))
    return src, out


def strip_strings(l):
    return re.sub(r'"(\\.|[^"\\])*"', lambda m: '"' + ' ' * (len(m.group(0)) - 2) + '"', l)


OPS = [
    (r' < ', [' <= ', ' > ']), (r' <= ', [' < ']), (r' > ', [' >= ', ' < ']), (r' >= ', [' > ']), (r' == ', [' != ']), (r' != ', [' == ']),
    (r' && ', [' || ']), (r' \|\| ', [' && ']), (r' \+ 1\b', [' + 0', ' + 2']), (r' - 1\b', [' - 0']), (r'\b0\b', ['1']), (r'\b1\b', ['0', '2']),
    (r'\btrue\b', ['false']), (r'\bfalse\b', ['true']), (r'\bcontinue;', ['break;']), (r'\.rev\(\)', ['']), (r'\.skip\(1\)', ['']),
    (r'\.is_some\(\)', ['.is_none()']), (r'\.is_none\(\)', ['.is_some()']), (r'\.is_empty\(\)', ['.len() == 1']), (r'\bmax\(', ['min(']),
    (r'\.first\(\)', ['.last()']), (r'\.last\(\)', ['.first()']), (r'\bThiscall\b', ['System']), (r'\bPrivate\b', ['Public']), (r'\bConstPointer\b', ['MutPointer']),
    (r'\bConstSelf\b', ['MutSelf']), (r' % ', [' / ']), (r' \* ', [' + ']), (r'\.clone\(\)\);$', None),
]


OPS_EXTRA = True
OPS_SHADOW = True
OPS_PROV = True
OPS_STATE = True
SIBLINGS = [('copyable', 'cloneable'), ('cloneable', 'defaultable'), ('size', 'alignment'), ('prologue', 'epilogue'), ('target_size', 'size'),
            ('singleton', 'align'), ('base_name', 'original_name'), ('size', 'region_size'), ('last_address', 'size'), ('visibility', 'Visibility::Private'),
            ('doc', 'None'), ('idx', 'index'), ('associated_functions', 'vftable_functions'), ('base_vfunc', 'derived_vfunc'), ('scope_types', 'scope_modules'),
            ('resolved', 'unresolved'), ('Resolved', 'Unresolved'), ('Defined', 'Extern'), ('Predefined', 'Extern'), ('Thiscall', 'Cdecl'), ('Stdcall', 'Fastcall'),
            ('MutSelf', 'ConstSelf'), ('name', 'field_name'), ('path', 'resolvee_path'), ('offset', 'size'), ('required_alignment', 'alignment')]


def mutants_of(rel):
    path = os.path.join(REPO, rel)
    src, lines = code_lines(path)
    out = []
    for i, l in lines:
        ls = strip_strings(l)
        # operator / constant replacements (one occurrence at a time)
        for rx, reps in OPS:
            if reps is None:
                continue
            for m in re.finditer(rx, ls):
                for r in reps:
                    nl = l[:m.start()] + r + l[m.end():]
                    if nl != l:
                        out.append((rel, i, l, nl, '%s -> %s' % (m.group(0).strip() or m.group(0), r.strip() or '(dropped)')))
        # dropped negation
        for m in re.finditer(r'(?<![=!<>])!(?=[a-zA-Z_(])', ls):
            if re.search(r'\w!\(', ls[max(0, m.start() - 1):m.start() + 2]) or re.search(r'[a-zA-Z_]$', ls[:m.start()]):
                continue      # a macro call
            out.append((rel, i, l, l[:m.start()] + l[m.end():], 'dropped `!`'))
        # dropped statement: a call statement or an assignment on one line
        st = l.strip()
        if re.match(r'^[a-zA-Z_][\w\.]*(\(.*\)|\.[a-z_]+\(.*\));$', st) and not st.startswith(('return', 'let ', 'anyhow::bail', 'bail')):
            out.append((rel, i, l, l[:len(l) - len(l.lstrip())] + '();', 'dropped statement'))
        if re.match(r'^[a-zA-Z_][\w\.]* (\+|-)?= .*;$', st):
            out.append((rel, i, l, l[:len(l) - len(l.lstrip())] + '();', 'dropped assignment'))
        # `if c {` -> `if true {` / `if false {`   (also `} else if c {`)
        m = re.match(r'^(\s*(?:\} else )?if )(?!let )(.+)( \{)$', l)
        if m and 'if let' not in l:
            out.append((rel, i, l, m.group(1) + 'true' + m.group(3), 'condition -> true'))
            out.append((rel, i, l, m.group(1) + 'false' + m.group(3), 'condition -> false'))
        # a short identifier-like string literal (attribute / keyword names) gets a different spelling
        for m in re.finditer(r'"([a-z_]{2,20})"', l):
            if 'format!' in l or 'bail!' in l or 'context(' in l or 'expect(' in l or 'panic!' in l:
                continue
            out.append((rel, i, l, l[:m.start(1)] + m.group(1) + '_x' + l[m.end(1):], 'literal "%s" -> "%s_x"' % (m.group(1), m.group(1))))
        # `.iter()` loses its first element / is reversed
        for m in re.finditer(r'\.iter\(\)', ls):
            out.append((rel, i, l, l[:m.end()] + '.skip(1)' + l[m.end():], '.iter() -> .iter().skip(1)'))
        # `x += y` -> `x -= y` ; `x = y` kept
        m = re.search(r' \+= ', ls)
        if m:
            out.append((rel, i, l, l[:m.start()] + ' -= ' + l[m.end():], '+= -> -='))
        # inside quote! templates: an interpolation dropped, pointer / reference kinds swapped, `pub` dropped
        if re.search(r'#[a-z_]+', ls) and not st.startswith('#['):
            for m in re.finditer(r'#[a-z_]+\b', ls):
                out.append((rel, i, l, l[:m.start()] + l[m.end():], 'template: dropped %s' % m.group(0)))
        for a_, b_ in ((r'\*const ', '*mut '), (r'\*mut ', '*const '), (r'& mut ', '& '), (r'&mut self', '&self'), (r'\bpub ', '')):
            for m in re.finditer(a_, ls):
                if 'fn ' in ls and a_ == r'\bpub ' and 'quote' not in ls and '#' not in ls:
                    continue
                out.append((rel, i, l, l[:m.start()] + b_ + l[m.end():], 'template: %s -> %s' % (m.group(0).strip(), b_.strip() or '(dropped)')))
        # a value tampered with right after it was bound (the type decides which of these compile)
        m = re.match(r'^(\s*)let (?:mut )?([a-z_][a-z0-9_]*)(?:: [^=]+)? = .*;$', l)
        if m and OPS_SHADOW:
            ind, nm = m.group(1), m.group(2)
            for rhs, what in (('%s + 1' % nm, '+1'), ('!%s' % nm, 'negated'), ('None', 'None'), ('Default::default()', 'default')):
                out.append((rel, i, l, l + '\n' + ind + 'let %s = %s;' % (nm, rhs), 'shadow: %s = %s' % (nm, what)))
        # negated condition
        m = re.match(r'^(\s*(?:\} else )?if )(?!let )(.+)( \{)$', l)
        if m and 'if let' not in l and OPS_EXTRA:
            out.append((rel, i, l, m.group(1) + '!(' + m.group(2) + ')' + m.group(3), 'condition negated'))
        # a whole adapter line of an iterator chain dropped
        if OPS_EXTRA and re.match(r'^\s*\.(filter|rev|skip|take|chain|filter_map|take_while|skip_while|enumerate|copied|cloned)\(.*\)$', l):
            out.append((rel, i, l, '', 'adapter line dropped: ' + st[:30]))
        # the first two arguments of a call swapped (single-line call with simple arguments)
        if OPS_EXTRA:
            for m in re.finditer(r'\b([a-z_][\w:]*)\(([\w&\*\.]+), ([\w&\*\.]+)([,)])', ls):
                if m.group(2) != m.group(3):
                    out.append((rel, i, l, l[:m.start(2)] + m.group(3) + ', ' + m.group(2) + l[m.end(3):], 'arguments swapped in %s(..)' % m.group(1)))
        # the bodies of two consecutive single-line match arms swapped
        if OPS_EXTRA and i + 1 < len(src):
            m1 = re.match(r'^(\s*)(\S.*?) => (.+),$', l)
            m2 = re.match(r'^(\s*)(\S.*?) => (.+),$', src[i + 1])
            if m1 and m2 and m1.group(1) == m2.group(1) and m1.group(3) != m2.group(3) and '{' not in m1.group(3) and '{' not in m2.group(3):
                out.append((rel, i, l, '%s%s => %s,' % (m1.group(1), m1.group(2), m2.group(3)), 'match arm takes the body of the next arm'))
        # a sibling identifier used instead (same type, different meaning)
        for a_, b_ in SIBLINGS:
            for x_, y_ in ((a_, b_), (b_, a_)):
                for m in re.finditer(r'(?<![\w.:])%s\b(?!\()' % re.escape(x_), ls):
                    out.append((rel, i, l, l[:m.start()] + y_ + l[m.end():], 'sibling: %s -> %s' % (x_, y_)))
                for m in re.finditer(r'(?<=\.)%s\b(?!\()' % re.escape(x_), ls):
                    out.append((rel, i, l, l[:m.start()] + y_ + l[m.end():], 'sibling field: .%s -> .%s' % (x_, y_)))
        # provenance of values (run 8): a struct-literal field defaulted, `.clone()` replaced by a default, a value passed through
        # a "harmless" step (`.min(..)`, `.max(..)`, `.rev()`, `.take(1)`, `.trim()`), `?`-less early `return Ok(..)`
        if OPS_PROV:
            m = re.match(r'^(\s+)([a-z_][a-z0-9_]*),$', l)
            if m:
                out.append((rel, i, l, '%s%s: Default::default(),' % (m.group(1), m.group(2)), 'field %s defaulted' % m.group(2)))
            m = re.match(r'^(\s+)([a-z_][a-z0-9_]*): (.+),$', l)
            if m and 'Default::default()' not in l and '=>' not in l and not l.strip().startswith(('fn ', 'pub ')):
                out.append((rel, i, l, '%s%s: Default::default(),' % (m.group(1), m.group(2)), 'field %s defaulted' % m.group(2)))
                if re.match(r'^[\w\.\(\)&\*]+$', m.group(3)):
                    for step, what in (('.max(1)', 'max(1)'), ('.min(8)', 'min(8)'), ('.into_iter().rev().collect()', 'reversed'), ('.into_iter().take(1).collect()', 'take(1)')):
                        out.append((rel, i, l, '%s%s: %s%s,' % (m.group(1), m.group(2), m.group(3), step), 'field %s through %s' % (m.group(2), what)))
            for m in re.finditer(r'\b[a-z_][\w\.]*\.clone\(\)', ls):
                out.append((rel, i, l, l[:m.start()] + 'Default::default()' + l[m.end():], 'clone -> default'))
            for m in re.finditer(r'\.as_str\(\)', ls):
                out.append((rel, i, l, l[:m.end()] + '.trim_end_matches(char::is_numeric)' + l[m.end():], 'as_str() trimmed'))
            for m in re.finditer(r'\.(collect::<Vec<_>>\(\)|collect\(\))', ls):
                out.append((rel, i, l, l[:m.start()] + '.take(1)' + l[m.start():], 'take(1) before collect'))
            for m in re.finditer(r'\b(\w+)\.to_vec\(\)', ls):
                out.append((rel, i, l, l[:m.start()] + m.group(1) + '[..1.min(' + m.group(1) + '.len())].to_vec()' + l[m.end():], 'to_vec truncated'))
            m = re.match(r'^(\s*)let (?:mut )?([a-z_][a-z0-9_]*) = (.*)\?;$', l)
            if m:
                out.append((rel, i, l, '%slet %s = match %s { Ok(v) => v, Err(_) => return Ok(Default::default()) };' % (m.group(1), m.group(2), m.group(3)), 'error turned into Ok(default)'))
        # state (run 9): a per-iteration local hoisted out of its loop (it then survives from one trip to the next); one conjunct /
        # disjunct of a condition dropped
        if OPS_STATE:
            m = re.match(r'^(\s*)(for .* in .*|while .*|loop) \{$', l)
            if m:
                ind = m.group(1)
                for j in range(i + 1, min(i + 12, len(src))):
                    lj = src[j]
                    if not lj.strip():
                        continue
                    mj = re.match(r'^' + ind + r'    let (mut )?([a-z_][a-z0-9_]*)(: [^=]+)? = (.*);$', lj)
                    if not mj:
                        break
                    out.append((rel, i, l, ind + lj.strip().replace('let ', 'let mut ', 1).replace('let mut mut ', 'let mut ') + '\n' + l, 'hoist@%d: `%s` moved out of its loop' % (j, mj.group(2))))
            m = re.match(r'^(\s*(?:\} else )?if )(?!let )(.+)( \{)$', l)
            if m and 'if let' not in l:
                cond = m.group(2)
                for op in (' && ', ' || '):
                    parts = cond.split(op)
                    if len(parts) >= 2 and all(p.count('(') == p.count(')') for p in parts):
                        for k in range(len(parts)):
                            rest = op.join(parts[:k] + parts[k + 1:])
                            out.append((rel, i, l, m.group(1) + rest + m.group(3), 'dropped %s `%s`' % ('conjunct' if op == ' && ' else 'disjunct', parts[k][:30])))
        # Some(x) -> None in a return position
        m = re.match(r'^(\s*)(return )?Some\((.*)\)(;?)$', l)
        if m and 'Ok(' not in l:
            out.append((rel, i, l, '%s%sNone%s' % (m.group(1), m.group(2) or '', m.group(4)), 'Some(..) -> None'))
    return out


def run(cmd, cwd=None, env=None, timeout=900):
    try:
        p = subprocess.run(cmd, cwd=cwd, env=env, shell=True, capture_output=True, text=True, timeout=timeout)
        return p.returncode, p.stdout + p.stderr
    except subprocess.TimeoutExpired:
        return 124, 'timeout'


def worker(wid, queue, results, base):
    d = os.path.join(base, 'w%d' % wid)
    run('rsync -a --exclude target --exclude .git %s/ %s/' % (REPO, d))
    env = dict(os.environ, CARGO_TARGET_DIR=os.path.join(base, 't%d' % wid), CARGO_NET_OFFLINE='true')
    run('cargo test --offline --no-run', cwd=d, env=env)
    while True:
        try:
            mu = queue.pop()
        except IndexError:
            return
        rel, i, old, new, what = mu
        p = os.path.join(d, rel)
        src = open(p).read().split('\n')
        if src[i] != old:
            continue
        src2 = list(src)
        src2[i] = new
        mh = re.match(r'^hoist@(\d+):', what)
        if mh:
            src2[int(mh.group(1))] = ''
        open(p, 'w').write('\n'.join(src2))
        rec = dict(file=rel, line=i + 1, what=what, old=old.strip(), new=new.strip())
        rc, out = run('cargo test --offline 2>&1 | tail -30', cwd=d, env=env, timeout=600)
        if 'test result: ok' not in out or 'FAILED' in out or 'error' in out.split('test result')[0][-2000:] and 'error[' in out:
            rec['status'] = 'killed-by-tests' if 'test result' in out else 'does-not-build'
        else:
            rc, out = run('./check ALL --repo %s --no-evidence 2>&1' % d, cwd='/verif', timeout=900)
            viol = sorted(set(re.findall(r'^VIOLATION property=(C\d\d)', out, re.M)))
            if 'cannot build facts' in out:
                rec['status'] = 'does-not-build'
            elif viol:
                rec['status'] = 'reported'
                rec['props'] = viol
                keys = []
                for l in out.splitlines():
                    mm = re.search(r'\s(R-[A-Z]+\|\S+)', l)
                    if mm and not l.startswith(('KNOWN', 'VIOL')) and mm.group(1) not in keys:
                        keys.append(mm.group(1))
                rec['rules'] = keys[:4]
            else:
                rec['status'] = 'SURVIVES-UNREPORTED'
        open(p, 'w').write('\n'.join(src))
        results.append(rec)
        print('%-22s %s:%d  %s   | %s' % (rec['status'], rel, i + 1, what, rec['new'][:90]), flush=True)


def main():
    args = sys.argv[1:]
    opt = lambda k, dflt: (args[args.index(k) + 1] if k in args else dflt)
    files = opt('--files', ','.join(FILES)).split(',')
    mx = int(opt('--max', '200'))
    workers = int(opt('--workers', '12'))
    random.seed(int(opt('--seed', '1')))
    allm = []
    for f in files:
        allm += mutants_of(f)
    only = opt('--only', None)
    if only:
        allm = [m for m in allm if re.search(only, m[4])]
    prev = opt('--skip-done', None)
    if prev and os.path.exists(prev):
        done = {(r['file'], r['line'], r['new']) for r in json.load(open(prev))}
        allm = [m for m in allm if (m[0], m[1] + 1, m[3].strip()) not in done]
    random.shuffle(allm)
    # at most 2 mutants per source line
    per = {}
    sel = []
    for m in allm:
        k = (m[0], m[1])
        if per.get(k, 0) >= int(opt('--per-line', '2')):
            continue
        per[k] = per.get(k, 0) + 1
        sel.append(m)
        if len(sel) >= mx:
            break
    print('%d candidate mutants, %d selected' % (len(allm), len(sel)), flush=True)
    base = tempfile.mkdtemp(prefix='pxmut.', dir='/tmp')
    results = []
    try:
        with ThreadPoolExecutor(max_workers=workers) as ex:
            futs = [ex.submit(worker, w, sel, results, base) for w in range(workers)]
            for f in futs:
                f.result()
    finally:
        shutil.rmtree(base, ignore_errors=True)
    out = opt('--out', '/tmp/mutation_results.json')
    json.dump(results, open(out, 'w'), indent=1)
    by = {}
    for r in results:
        by[r['status']] = by.get(r['status'], 0) + 1
    print('SUMMARY', by)


if __name__ == '__main__':
    main()
