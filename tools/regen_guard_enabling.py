#!/usr/bin/env python3
"""tools/regen_guard_enabling.py — regenerate spec/guard_enabling.json from the facts of the pinned tree (.scratch/mir.json)."""
import sys, json
sys.path.insert(0, '/verif/rules')
from mirlib import Program
import r_enable
P = Program('/verif/.scratch/mir.json')
t, n = r_enable.state_queries(P)
json.dump({'note': 'per function of the semantic layer on the pinned tree: the registry / map / set queries that occur in the enabling conditions of its rejections (reviewed: name-clash tests only)',
           'functions': t}, open('/verif/spec/guard_enabling.json', 'w'), indent=1, sort_keys=True)
print(len(t), n, {k: v for k, v in t.items() if v})
