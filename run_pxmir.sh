#!/bin/bash
# usage: run_pxmir.sh <repo_dir> <out.json> [extra cargo args]
set -e
REPO=$1; OUT=$2; shift 2
mkdir -p /verif/.scratch
T=$(mktemp -d /verif/.scratch/tgt.XXXXXX)
trap 'rm -rf "$T"' EXIT
rm -f "$OUT"
cd "$REPO"
LD_LIBRARY_PATH=$(rustc +nightly --print sysroot)/lib \
RUSTFLAGS="-Zmir-opt-level=0 -Awarnings -Cdebug-assertions=off -Coverflow-checks=on" \
RUSTC_WORKSPACE_WRAPPER=/verif/engines/pxmir/target/release/pxmir \
PXMIR_OUT="$OUT" CARGO_NET_OFFLINE=true CARGO_TARGET_DIR=$T \
cargo +nightly check --offline --lib "$@" >"$T/log" 2>&1 || { cat "$T/log" | tail -40; exit 2; }
test -s "$OUT" || { echo "pxmir: fact file missing"; exit 2; }
