"""r_parser — C18: the language accepted by the recursive-descent parser and the AST it builds, extracted from
MIR as per-function sets of event paths (peek / consume / group / terminated-list / constructor), compared with
the reviewed reference grammar (spec/grammar_ref.json); constructor coverage; peek/parse agreement.
Also C08-D5 / C12: integer literals go through base10_parse with `?`."""
import re, json, os, sys
from mirlib import *
from guards import *
from r_panic import nf

VERIF = os.path.dirname(os.path.dirname(os.path.abspath(__file__)))
REF = os.path.join(VERIF, 'spec', 'grammar_ref.json')


def tok_name(t):
    t = re.sub(r"<'\w+>", '', t)
    t = t.replace('syn::token::', "T!").replace('parser::kw::', 'kw:').replace('grammar::', 'N:').replace('syn::', 'syn:')
    return t


def parser_fns(P):
    # functions of the parser module, including Parse impls of types that are local to a parser function (`<parser::..::T as Parse>::parse`)
    return [f for f in P.fns.values() if (f.id.startswith('parser::') or f.id.startswith('<parser::')) and not f.raw.get('derived') and 'kw::' not in f.id]


def buffer_of(f, e, groups):
    """which token buffer an expression denotes: 'in' (the function's ParseStream) or 'g<k>'"""
    e = strip(e)
    for k, ge in enumerate(groups):
        if any(x == ge for x in walk(e)):
            return 'g%d' % k
    if any(isinstance(x, tuple) and x[0] == 'arg' for x in walk(e)):
        return 'in'
    if any(isinstance(x, tuple) and x[0] == 'upvar' for x in walk(e)):
        return 'in'
    return '?'


def mode_key(a):
    """a constant argument that selects a mode of a helper (`parse_many(input, true)`, `parse_many(input, Style::Inner)`)"""
    a = strip(a)
    if a[0] == 'int':
        return ('true' if a[1] else 'false') if (len(a) > 2 and a[2] == 'bool') else str(a[1])
    if a[0] == 'agg' and not a[2] and '::' in a[1]:
        return a[1].split('::')[-1]
    if a[0] == 'const' and re.match(r'^[\w:]+$', str(a[1])) and '::' in str(a[1]) and not str(a[1]).endswith(']'):
        return str(a[1]).split('::')[-1]
    return None


def specialise(g):
    """helpers with a mode parameter: a call with a constant mode stands for the helper's paths under that mode.  The call event
    carries a digest of those paths instead of the constant, and the helper's own entry loses the mode tests — so that the
    representation of the mode (bool, enum) does not matter while a swapped mode does."""
    import hashlib
    modal = {}
    for name, paths in g.items():
        ms = set(re.findall(r'mode\((\d+),([^()]*)\)', ' '.join(paths)))
        if ms:
            modal[name] = paths
    strip_modes = lambda p_: re.sub(r' +', ' ', re.sub(r'mode\(\d+,[^()]*\) ?', '', p_)).strip()

    def digest(h, consts):
        sel = []
        known = dict(c.split('=', 1) for c in consts.split(',') if '=' in c)
        for p_ in modal[h]:
            okp = True
            for i_, lab in re.findall(r'mode\((\d+),([^()]*)\)', p_):
                if i_ in known and known[i_] not in lab.split('|'):
                    okp = False
            if okp:
                # (names of the functions it calls do not enter the digest: they are compared through their own entries)
                sel.append(re.sub(r'(call|terminated)\(([^,()]*),[^,()]*(?:<[^()]*>[^,()]*)*', r'\1(\2,*', strip_modes(p_)))
        return '@' + hashlib.sha1('\n'.join(sorted(set(sel))).encode()).hexdigest()[:10]
    out = {}
    for name, paths in g.items():
        np_ = []
        for p_ in paths:
            def rep(m):
                h, consts = m.group(2), m.group(3)
                if h in modal and consts:
                    return 'call(%s,%s,%s)' % (m.group(1), h, digest(h, consts))
                return m.group(0)
            q_ = re.sub(r'call\(([^,()]*),([^,()]*(?:<[^()]*>[^,()]*)*),([^()]*)\)', rep, p_)
            # the same call inside a constructed value: helper(2=false)
            for h in modal:
                sh = short(h)
                q_ = re.sub(re.escape(sh) + r'\((\d+=[\w|]+(?:,\d+=[\w|]+)*)\)', lambda m, h=h, sh=sh: '%s(%s)' % (sh, digest(h, m.group(1))), q_)
            np_.append(q_)
        out[name] = sorted(set(strip_modes(p_) for p_ in np_)) if name in modal else sorted(set(np_))
    return out


def target_of(f, e):
    """`→field` when the collection pushed into is a local that the function returns as that field of its result (two lists of
    the same element type are different targets), `→result` when it is the result itself, `` for parameters, `→local` otherwise"""
    e = strip(e)
    if e[0] in ('arg', 'upvar'):
        return ''
    if e[0] != 'var':
        return ''
    if not hasattr(f, '_ret_fields'):
        rf = {}
        for x in f.exits():
            for y in walk(x['expr']):
                if isinstance(y, tuple) and y and y[0] == 'agg' and not y[1].endswith(('Result::Ok', 'Option::Some', 'Result::Err')):
                    for fl, v in y[2]:
                        v0 = strip(v)
                        if v0[0] == 'var':
                            rf.setdefault(v0[1], set()).add(fl)
            x0 = strip(x['expr'])
            while x0[0] == 'agg' and x0[1].endswith(('Result::Ok', 'Option::Some')) and x0[2]:
                x0 = strip(x0[2][0][1])
            if x0[0] == 'var':
                rf.setdefault(x0[1], set()).add('result')
        f._ret_fields = rf
    fs = f._ret_fields.get(e[1])
    if fs == {'result'}:
        return ''           # accumulate-and-return: the list is what the function builds
    return '→' + '/'.join(sorted(fs)) if fs else '→local'


def events_of_block(P, f, bi, groups):
    t = f.term(bi)
    if t['k'] != 'Call' or not t.get('callee'):
        return []
    c = t['callee']
    p = c.get('rpath') or c['path']
    gp = c['path']
    args = [f.expr_of_operand(a) for a in t['args']]
    ga = c.get('gargs') or []
    if re.search(r'syn::parse::ParseBuffer::<.*>::parse$|syn::parse::ParseBuffer::parse$', gp):
        tys = [g_ for g_ in ga if not g_.startswith("'")]
        ty_ = tys[-1] if tys else '?'
        m_ = re.match(r'^std::option::Option<(.*)>$', ty_)
        if m_:
            # `input.parse::<Option<Token![x]>>()` is `if input.peek(Token![x]) { Some(input.parse()?) } else { None }`
            return [('optparse', buffer_of(f, args[0], groups), tok_name(m_.group(1)))]
        return [('parse', buffer_of(f, args[0], groups), tok_name(ty_))]
    if re.search(r'ParseBuffer(::<.*>)?::(peek|peek2|peek3)$', gp) or re.search(r'Lookahead1(::<.*>)?::peek$', gp):
        which = gp.split('::')[-1]
        tk = args[1] if len(args) > 1 else None
        nm = '?'
        if tk is not None:
            if tk[0] == 'fnref':
                nm = tok_name(tk[1])
            elif tk[0] in ('arg', 'upvar'):
                nm = 'param'
            else:
                nm = tok_name(show(tk))
        src = args[0]
        return [('peek' if which == 'peek' else which, buffer_of(f, src, groups), nm)]
    if re.search(r'ParseBuffer(::<.*>)?::is_empty$', gp):
        return [('is_empty', buffer_of(f, args[0], groups))]
    if re.search(r'ParseBuffer(::<.*>)?::parse_terminated$', gp):
        elem = args[1][1] if len(args) > 1 and args[1][0] == 'fnref' else show(args[1]) if len(args) > 1 else '?'
        sep = ' '.join(ga) + ' ' + (show(args[2]) if len(args) > 2 else '')
        m_ = re.findall(r'syn::token::(\w+)', sep)
        sep = 'T!' + m_[-1] if m_ else '?'
        return [('terminated', buffer_of(f, args[0], groups), tok_name(short_fn(elem)), tok_name(sep))]
    if re.search(r'Punctuated(::<.*>)?::(parse_separated_nonempty|parse_terminated)\w*$', gp):
        return [('punctuated:' + gp.split('::')[-1], buffer_of(f, args[0], groups), tok_name(' '.join(ga)))]
    m = re.search(r'syn::__private::parse_(braces|brackets|parens)$', gp)
    if m:
        return [('group', buffer_of(f, args[0], groups), m.group(1))]
    if re.search(r'ParseBuffer(::<.*>)?::error$|Lookahead1(::<.*>)?::error$', gp):
        # which buffer the error is positioned at (an error built from the outer stream after a group was consumed points
        # behind the group, not at the offending token)
        return [('error', buffer_of(f, args[0], groups))]
    if re.search(r'ParseBuffer(::<.*>)?::lookahead1$|ParseBuffer(::<.*>)?::fork$|ParseBuffer(::<.*>)?::(call|step|cursor)$', gp):
        which = gp.split('::')[-1]
        return [] if which == 'lookahead1' else [(which, buffer_of(f, args[0], groups))]
    if p in P.fns and p.startswith('parser::') and 'kw::' not in p:
        consts = ['%d=%s' % (i_ + 1, mode_key(a)) for i_, a in enumerate(args) if mode_key(a) is not None]
        bufs = [buffer_of(f, a, groups) for a in args if buffer_of(f, a, groups) != '?'][:1]
        tga = [tok_name(g_) for g_ in ga if not g_.startswith("'")]
        return [('call', bufs[0] if bufs else '?', cidn(p) + ('<%s>' % ';'.join(tga) if tga else ''), ','.join(consts))]
    if re.search(r'Vec::<T, A>::push$', p) and len(args) == 2:
        ty = re.sub(r"'\w+ ?", '', t['args'][0].get('place', {}).get('ty', '')).replace('&mut ', '').replace('grammar::', '').replace('std::vec::', '')
        return [('push', ty + target_of(f, args[0]), cons(args[1], f))]
    if re.search(r'Extend<.*>>::extend$|Vec::<T, A>::(append|extend_from_slice|insert)$', p) and len(args) >= 2 and not (
            p.endswith('::extend') and is_call(strip(args[1]), 'Iterator::map') and strip(strip(args[1])[2][1])[0] == 'closure'):
        # one collection poured into another: where the elements end up (and in which order) is part of what is built
        ty = re.sub(r"'\w+ ?", '', t['args'][0].get('place', {}).get('ty', '')).replace('&mut ', '').replace('grammar::', '').replace('std::vec::', '')
        return [('pour:' + p.split('::')[-1], ty + target_of(f, args[0]), cons(args[1], f))]
    if re.search(r'Extend<.*>>::extend$', p) and len(args) == 2:
        # `v.extend(xs.into_iter().map(|x| build(x)))` is the loop `for x in xs { v.push(build(x)) }` when the closure only
        # builds a value (no token events of its own): a push of what the closure returns, for each element
        it = strip(args[1])
        if it[0] == 'call' and it[3] == 'std::iter::Iterator::map' and strip(it[2][1])[0] == 'closure':
            cf = P.fns.get(strip(it[2][1])[1])
            if cf is not None and all(not events_of_block(P, cf, b_, []) for b_ in cf.normal_blocks()):
                elem = 'Some!0(next(%s))' % cons(it[2][0], f)
                alts = sorted({cons(x['expr'], cf).replace('arg2', elem) for x in cf.exits() if x['kind'] not in ('panic', 'diverge')})
                rty = re.sub(r"'\w+ ?", '', cf.raw.get('output') or '').replace('grammar::', '').replace('std::vec::', '').replace('std::option::', '')
                ty = re.sub(r"'\w+ ?", '', t['args'][0].get('place', {}).get('ty', '')).replace('&mut ', '').replace('grammar::', '').replace('std::vec::', '')
                m_ = re.match(r'^Vec<(.*)>$', ty)
                rty = rty or (m_.group(1) if m_ else '')
                CONSUMED.add(cidn(cf.id))
                return [('extend-push', ty + target_of(f, args[0]), 'var:%s[%s]' % (rty[:40], '|'.join(alts)[:200]))]
    if re.search(r'AddAssign<.*>>::add_assign$|String::push_str$|String::push$', p) and len(args) == 2:
        return [('append', cons(args[1], f))]
    if p.startswith('grammar::') and re.search(r'::(push|join|insert)$', p):
        return [('call-grammar', short(p), ','.join(cons(a, f) for a in args[1:]))]
    if re.search(r'LitInt::base10_parse$', gp):
        return [('base10_parse', tok_name(ga[0]) if ga else '?')]
    if re.search(r'LitStr::value$', gp):
        return [('lit_value',)]
    if re.search(r'str>::trim$|str::<impl str>::trim$', p):
        return [('trim',)]
    if re.search(r'syn::Error::new', gp):
        return [('error-wrap',)]
    return []


def cons(e, f, d=0):
    """name-free rendering of a constructed value: constructors with their fields, sub-parses by what they parse"""
    if not isinstance(e, tuple) or d > 14:
        return '…'
    C = lambda x: cons(x, f, d + 1)
    e = strip(e)
    k = e[0]
    if k == 'agg' and e[1] == 'grammar::Ident' and len(e[2]) == 1:
        # `Ident(s)` written as a tuple-struct literal is `s.into()` / `Ident::from(s)`: the identifier with that text
        return C(e[2][0][1])
    if k == 'agg':
        nm = e[1].replace('std::result::Result::', '').replace('std::option::Option::', '').replace('grammar::', '')
        if nm.startswith('parser::'):
            # a type private to the parser: its own name (and variant), wherever in the module it is declared
            nm = 'parser::' + '::'.join(re.sub(r'<[^<>]*>', '', nm).split('::')[-2:])
        return '%s{%s}' % (nm, ','.join('%s:%s' % (fl, C(v)) for fl, v in e[2]))
    if k == 'try':
        return C(e[1])
    if k == 'payload':
        return '%s!%s(%s)' % (e[2], e[3], C(e[1]))
    if k == 'call':
        p = e[1]
        full = e[4] if len(e) > 4 else ''
        if re.search(r'ParseBuffer(::<.*>)?::parse$', e[3]):
            tys = re.findall(r'::parse::<(.*)>$', full)
            return 'parse<%s>' % tok_name(tys[0] if tys else '?')
        if re.search(r'ParseBuffer(::<.*>)?::parse_terminated$', e[3]):
            return 'terminated(%s)' % tok_name(short(e[2][1][1]) if len(e[2]) > 1 and e[2][1][0] == 'fnref' else '?')
        if p.startswith('parser::'):
            def is_buf(a):
                a = strip(a)
                if a[0] in ('arg', 'var'):
                    return 'ParseBuffer' in f.local_ty(a[1]) or 'ParseStream' in f.local_ty(a[1])
                return a[0] == 'upvar' or (a[0] == 'call' and ('ParseBuffer' in a[4] or re.search(r'parse_(braces|brackets|parens)$', a[3]) is not None)) or \
                    (a[0] == 'field' and is_buf(a[1])) or (a[0] == 'payload' and is_buf(a[1]))
            return '%s(%s)' % (short(cidn(p)), ','.join(('%d=%s' % (i_ + 1, mode_key(a)) if mode_key(a) is not None else C(a)) for i_, a in enumerate(e[2]) if not is_buf(a)))
        if re.search(r'Iterator::collect|FromIterator::from_iter|Vec::from_iter|convert::Into::into|convert::From::from|IntoIterator::into_iter', e[3]):
            return C(e[2][0]) if e[2] else '?'
        if re.search(r'grammar::Ident::as_str$', p) and len(e[2]) == 1:
            # `ident.as_str()` handed to something that wants an `impl Into<Ident>` again: the identifier itself
            return C(e[2][0])
        if re.search(r'Box::<T>::new$', p):
            return 'Box(%s)' % C(e[2][0])
        return '%s(%s)' % (short(p), ','.join(C(a) for a in e[2]))
    if k == 'var':
        ty = re.sub(r"'\w+ ?", '', f.local_ty(e[1])).replace('grammar::', '').replace('std::vec::', '').replace('std::option::', '')
        ds = f.init_of(e[1])
        inner = sorted({C(x) for x in ds if strip(x) != e}) if d < 6 else []
        return 'var:%s[%s]' % (ty[:40], '|'.join(inner)[:200])
    if k == 'arg':
        return 'arg%d' % e[1]
    if k == 'str':
        return repr(e[1])
    if k == 'int':
        if len(e) > 2 and e[2] == 'char' and isinstance(e[1], int) and 0 < e[1] < 0x110000:
            return repr(chr(e[1]))          # `s.push('<')` appends what `s += "<"` appends
        return str(e[1])
    if k == 'field':
        return C(e[1]) + '.' + e[2]
    if k == 'tuple':
        return '(%s)' % ','.join(C(x) for x in e[1])
    if k == 'closure':
        return 'closure'
    if k == 'fnref':
        return 'fn:' + tok_name(e[1])
    return k


def cidn(p):
    return re.sub(r'\{closure#\d+\}', '{closure}', p)


def short_fn(p):
    return p


PURE_EVENTS = ('peek', 'peek2', 'peek3', 'is_empty', 'yes', 'no', 'mode', 'append', 'push', 'trim', 'lit_value')


def dedupe_peeks(p):
    """`peek` is a pure query of the cursor: asked again before anything was consumed it gives the same answer.  A repeated
    question whose answer agrees is dropped from the path; a path on which it disagrees cannot be taken (None)."""
    known = {}
    out = []
    i = 0
    while i < len(p):
        e = p[i]
        if e[0] in ('peek', 'peek2', 'peek3', 'is_empty') and i + 1 < len(p) and p[i + 1][0] in ('yes', 'no'):
            ans = p[i + 1][0]
            if e in known:
                if known[e] != ans:
                    return None
                i += 2
                continue
            known[e] = ans
            out += [e, p[i + 1]]
            i += 2
            continue
        if e[0] not in PURE_EVENTS:
            known = {}
        out.append(e)
        i += 1
    return tuple(out)


def grammar_of(P, f):
    """set of event paths of function f"""
    # group buffers: results of parse_braces/brackets/parens calls
    groups = []
    for c in f.calls(lambda r: r['gpath'] and re.search(r'syn::__private::parse_(braces|brackets|parens)$', r['gpath'])):
        groups.append(f.expr_of_call(c['term']))
    ev = {bi: events_of_block(P, f, bi, groups) for bi in f.normal_blocks()}
    # constructor at success exits
    exits = {}
    exits_raw = {}
    for x in f.exits():
        if x['kind'] in ('ok', 'passthrough', 'other', 'some', 'ok_some'):
            exits[x['block']] = ('RETURN', cons(x['expr'], f))
            exits_raw[x['block']] = x['expr']

    def on_path(e, seen):
        """a value merged from the arms of a match, as it is on this path: the one definition that lies on the path"""
        def one(x):
            if x and x[0] == 'var' and isinstance(x[1], int):
                ds = f.defs().get(x[1], [])
                if 2 <= len(ds) <= 6:
                    here = [d for d in ds if d[0] in seen]
                    # a definition inside a loop this path has entered may be the one that holds at the exit (an earlier
                    # trip round the loop stored it): the value is then the merge of all its definitions, not the initial one
                    if any(d[0] not in seen and any(h_ in seen and d[0] in body_ for (h_, body_, _l) in loops_) for d in ds):
                        return x
                    if len(here) == 1:
                        return f.expr_of_def(here[0])
            return x
        return map_tree(e, one)
    # back edges
    back = set()
    loops_ = list(f.loops())
    for (h, body, latches) in loops_:
        for l in latches:
            back.add((l, h))
    paths = set()
    limit = [0]

    def edge_ok(b, s):
        t = f.term(b)
        if t['k'] == 'SwitchInt':
            cond = f.expr_of_operand(t['discr'])
            # do not follow error-propagation edges of `?`
            if cond[0] == 'discr' and cond[1][0] == 'call' and cond[1][3] == TRY_BRANCH:
                for v, tgt in t['targets']:
                    if tgt == s and v == '1':
                        return False
            if cond[0] == 'discr' and cond[1][0] == 'call' and re.search(r'syn::__private::parse_(braces|brackets|parens)$', cond[1][3]):
                vs = cond[2]
                for v, tgt in t['targets']:
                    if tgt == s and int(v) < len(vs) and vs[int(v)] == 'Err':
                        return False
            if cond[0] == 'var' and f.is_dropflag(cond[1]):
                return True
        return True

    def dfs(b, acc, seen):
        limit[0] += 1
        if limit[0] > 200000:
            return
        acc = acc + ev.get(b, [])
        if b in exits:
            ev_ = exits[b]
            if 'var:' in str(ev_[1]):
                ev_ = ('RETURN', cons(on_path(exits_raw[b], seen), f))
            paths.add(tuple(acc + [ev_]))
            return
        t = f.term(b)
        if t['k'] == 'Return':
            paths.add(tuple(acc + [('RETURN?',)]))
            return
        succs = [s for s in f.succ(b) if edge_ok(b, s)]
        if not succs:
            if acc and acc[-1][0] in ('error', 'error-wrap'):
                paths.add(tuple(acc))
            return
        tm = f.term(b)
        lab = {}
        if tm['k'] == 'SwitchInt' and tm['discr_ty'] == 'bool':
            cond = f.expr_of_operand(tm['discr'])
            if any(isinstance(x, tuple) and x[0] == 'call' and re.search(r'::(peek|peek2|peek3|is_empty)$', x[3]) for x in walk(cond)):
                neg = cond[0] == 'un' and cond[1] == 'Not'
                for v, tgt in tm['targets']:
                    lab[tgt] = 'no' if (v == '0') != neg else 'yes'
                other = tm['otherwise']
                if other not in lab:
                    lab[other] = 'yes' if 'no' in lab.values() else 'no'
        mode = {}
        if tm['k'] == 'SwitchInt':
            cond = f.expr_of_operand(tm['discr'])
            c0 = strip(cond)
            if c0[0] == 'discr' and set(c0[2]) >= {'Some', 'None'} and any(
                    isinstance(x, tuple) and x[0] == 'call' and re.search(r'ParseBuffer(::<.*>)?::parse$', x[3]) and re.search(r'::parse::<std::option::Option<', x[4] if len(x) > 4 else '')
                    for x in walk(expand(f, c0[1]))):
                # the match on the result of an optional parse: Some = the token was there
                for v, tgt in tm['targets']:
                    nm_ = c0[2][int(v)] if int(v) < len(c0[2]) else '?'
                    lab[tgt] = 'yes' if nm_ == 'Some' else 'no'
                if tm['otherwise'] not in lab:
                    lab[tm['otherwise']] = 'no' if 'yes' in lab.values() else 'yes'
            neg = False
            if c0[0] == 'un' and c0[1] == 'Not':
                c0, neg = strip(c0[2]), True
            inputs = f.raw.get('inputs') or []
            is_mode_arg = lambda a_: a_[0] == 'arg' and 1 <= a_[1] <= len(inputs) and 'ParseBuffer' not in inputs[a_[1] - 1] and 'ParseStream' not in inputs[a_[1] - 1]
            if is_mode_arg(c0) and tm['discr_ty'] == 'bool':
                for v, tgt in tm['targets']:
                    mode[tgt] = ('mode', c0[1], 'true' if (v != '0') != neg else 'false')
                if tm['otherwise'] not in mode:
                    have = {x_[2] for x_ in mode.values()}
                    mode[tm['otherwise']] = ('mode', c0[1], 'false' if 'true' in have else 'true')
            elif c0[0] == 'discr' and is_mode_arg(strip(c0[1])):
                names = c0[2]
                used = []
                for v, tgt in tm['targets']:
                    nm_ = names[int(v)] if int(v) < len(names) else str(v)
                    used.append(nm_)
                    mode[tgt] = ('mode', strip(c0[1])[1], nm_)
                rest_ = [n_ for n_ in names if n_ not in used]
                if tm['otherwise'] not in mode and rest_:
                    mode[tm['otherwise']] = ('mode', strip(c0[1])[1], '|'.join(rest_))
        for s in succs:
            if s in lab:
                acc2 = acc + [(lab[s],)]
            elif s in mode:
                acc2 = acc + [mode[s]]
            else:
                acc2 = acc
            if (b, s) in back:
                paths.add(tuple(acc2 + [('NEXT-ITERATION',)]))
                continue
            if s in seen:
                continue
            dfs(s, acc2, seen | {s})
        return
        for s in succs:
            if (b, s) in back:
                paths.add(tuple(acc + [('NEXT-ITERATION',)]))
                continue
            if s in seen:
                continue
            dfs(s, acc, seen | {s})
    sys.setrecursionlimit(20000)
    dfs(0, [], {0})
    paths = {q for q in (dedupe_peeks(p) for p in paths) if q is not None}
    # an `extend-push` stands for a loop: one path that pushes and goes round, one that leaves the loop
    for _ in range(4):
        nxt = set()
        for p in paths:
            i = next((i_ for i_, e_ in enumerate(p) if e_[0] == 'extend-push'), None)
            if i is None:
                nxt.add(p)
            else:
                nxt.add(p[:i] + (('push',) + p[i][1:], ('NEXT-ITERATION',)))
                nxt.add(p[:i] + p[i + 1:])
        paths = nxt
    return sorted(' '.join(fmt_ev(e) for e in p) for p in paths)


def fmt_ev(e):
    return e[0] + ('(' + ','.join(str(x) for x in e[1:]) + ')' if len(e) > 1 else '')


CONSUMED = set()


def extract(P):
    out = {}
    CONSUMED.clear()
    for f in parser_fns(P):
        ps = grammar_of(P, f)
        # optional parse + match on its result, in the peek/parse spelling
        ps = [re.sub(r'optparse\((\w+),([^()]*(?:\([^()]*\))?[^()]*)\) ((?:(?!optparse|yes|no)\S+ )*?)yes', r'peek(\1,\2) yes parse(\1,\2) \3', p_) for p_ in ps]
        ps = [re.sub(r'optparse\((\w+),([^()]*(?:\([^()]*\))?[^()]*)\) ((?:(?!optparse|yes|no)\S+ )*?)no', r'peek(\1,\2) no \3', p_) for p_ in ps]
        out[cidn(f.id)] = sorted(set(re.sub(r' +', ' ', p_).strip() for p_ in ps))
    for c_ in CONSUMED:
        out.pop(c_, None)
    return specialise(separated_lists(out))


def separated_lists(g):
    """a generic helper that parses `T (SEP T)* SEP?` until its buffer is empty — by hand, with a loop — is syn's
    parse_terminated: calls of it are written as the `terminated` event, the helper itself disappears"""
    found = {}
    for name, paths in g.items():
        ps = set(paths)
        m = None
        for p_ in ps:
            m = m or re.fullmatch(r'is_empty\(in\) no parse\(in,(\w+)\) push\(Vec<\1>,parse<\1>\) is_empty\(in\) no parse\(in,(T![A-Za-z]+)\) NEXT-ITERATION', p_)
        if not m:
            continue
        T_, sep = m.group(1), m.group(2)
        vec = r'RETURN\(Ok\{0:(?:var:)?Vec<%s>\[?Vec::new\(\)\]?\}\)' % T_
        want = [r'is_empty\(in\) no parse\(in,%s\) push\(Vec<%s>,parse<%s>\) is_empty\(in\) no parse\(in,%s\) NEXT-ITERATION' % (T_, T_, T_, re.escape(sep)),
                r'is_empty\(in\) no parse\(in,%s\) push\(Vec<%s>,parse<%s>\) is_empty\(in\) yes %s' % (T_, T_, T_, vec),
                r'is_empty\(in\) yes %s' % vec]
        if len(ps) == 3 and all(any(re.fullmatch(w, p_) for p_ in ps) for w in want):
            found[name] = sep
    if not found:
        return g
    out = {}
    for name, paths in g.items():
        if name in found:
            continue
        np_ = []
        for p_ in paths:
            for h, sep in found.items():
                p_ = re.sub(r'call\((\w+),' + re.escape(h) + r'<([^<>;]*)>,\)', lambda m_: 'terminated(%s,parser::<impl syn:parse::Parse for %s>::parse,%s)' % (m_.group(1), m_.group(2), sep), p_)
                p_ = re.sub(re.escape(short(h)) + r'\(\)', 'terminated(parser::parse)', p_)
            np_.append(p_)
        out[name] = sorted(set(np_))
    return out


def canon_groups(p_):
    """group buffers numbered in the order in which they first appear along the path (the extractor numbers them per function)"""
    order = []
    for m in re.finditer(r'\bg(\d+)\b', p_):
        if m.group(1) not in order:
            order.append(m.group(1))
    if not order:
        return p_
    mp = {o: str(i) for i, o in enumerate(order)}
    return re.sub(r'\bg(\d+)\b', lambda m: 'g§' + mp[m.group(1)], p_).replace('g§', 'g')


def _split_events(p_):
    """events of a path string: split at spaces outside parentheses/braces/quotes"""
    out, cur, depth, q = [], '', 0, None
    for ch in p_:
        if q:
            cur += ch
            if ch == q:
                q = None
            continue
        if ch in '"\'':
            q = ch
            cur += ch
            continue
        if ch in '({[':
            depth += 1
        elif ch in ')}]':
            depth -= 1
        if ch == ' ' and depth == 0:
            if cur:
                out.append(cur)
            cur = ''
        else:
            cur += ch
    if cur:
        out.append(cur)
    return out


def inline_helpers(g, names):
    """the grammar with the helper functions `names` expanded at their call sites: the helper's token events replace the call
    event (its buffer renamed to the buffer of the call), and its returned value replaces `helper(args)` in what the caller
    constructs afterwards (the helper's argN standing for the arguments of that call).  Extracting a piece of a production
    into a helper, and inlining it again, give the same expanded grammar."""
    g = {k: list(v) for k, v in g.items()}
    for h in names:
        hp = g.get(h)
        if hp is None:
            continue
        segs = h.split('::')
        shorts = sorted({h, '::'.join(segs[-2:])}, key=len, reverse=True)
        rets = []
        for q in hp:
            ev = _split_events(q)
            if not ev or not ev[-1].startswith('RETURN('):
                rets.append((ev, None))
                continue
            v = ev[-1][len('RETURN('):-1]
            m = re.match(r'^Ok\{0:(.*)\}$', v)
            rets.append((ev[:-1], m.group(1) if m else v))
        for caller in list(g):
            if caller == h:
                continue
            newpaths = []
            for p_ in g[caller]:
                work = [p_]
                done = []
                guard = 0
                while work and guard < 200:
                    guard += 1
                    cur = work.pop()
                    ev = _split_events(cur)
                    idx = next((i for i, e_ in enumerate(ev) if re.match(r'^call\((\w+|\?),%s,' % re.escape(h), e_)), None)
                    if idx is None:
                        done.append(cur)
                        continue
                    buf = re.match(r'^call\((\w+|\?),', ev[idx]).group(1)
                    for hev, hv in rets:
                        hev2 = [re.sub(r'\(in([,)])', '(' + buf + r'\1', e_) for e_ in hev]
                        # the helper's own groups must not clash with the caller's: tag them, canon_groups renumbers later
                        hev2 = [re.sub(r'\bg(\d+)\b', lambda m_: 'g9%s%d' % (m_.group(1), guard), e_) for e_ in hev2]
                        if hv is None:
                            # a path of the helper that does not return a value normally (error): the caller's path ends there
                            done.append(' '.join(ev[:idx] + hev2))
                            continue
                        hv2 = re.sub(r'\bg(\d+)\b', lambda m_: 'g9%s%d' % (m_.group(1), guard), hv)
                        rest = []
                        replaced_once = False
                        for e_ in ev[idx + 1:]:
                            for sh in shorts:
                                # helper(ARGS) -> returned value with argN := ARGS[N-2] (arg1 is the buffer)
                                pos = e_.find(sh + '(')
                                while pos != -1 and not replaced_once:
                                    j, depth = pos + len(sh) + 1, 1
                                    while j < len(e_) and depth:
                                        depth += e_[j] in '({['
                                        depth -= e_[j] in ')}]'
                                        j += 1
                                    inner = e_[pos + len(sh) + 1:j - 1]
                                    args, d2, cur_a = [], 0, ''
                                    for ch in inner:
                                        if ch in '({[':
                                            d2 += 1
                                        elif ch in ')}]':
                                            d2 -= 1
                                        if ch == ',' and d2 == 0:
                                            args.append(cur_a)
                                            cur_a = ''
                                        else:
                                            cur_a += ch
                                    if cur_a:
                                        args.append(cur_a)
                                    val = re.sub(r'\barg(\d+)\b', lambda m_: args[int(m_.group(1)) - 2] if 0 <= int(m_.group(1)) - 2 < len(args) else m_.group(0), hv2)
                                    e_ = e_[:pos] + val + e_[j:]
                                    replaced_once = True
                                    pos = -1
                            rest.append(e_)
                        work.append(' '.join(ev[:idx] + hev2 + rest))
                newpaths.extend(done)
            g[caller] = sorted(set(newpaths))
        g.pop(h, None)
    return g


def canonical(g):
    """the grammar with the names of plain helper functions replaced by a hash of their own content, so that renaming a helper
    or hoisting a nested fn to module level changes nothing.  Productions of `impl Parse for X` keep their name (it is fixed
    by the grammar type X); helpers are returned as a map hash -> (name, paths)"""
    import hashlib
    helpers = [n for n in g if not re.search(r'<impl syn::parse::Parse for [\w:]+>::parse$', n)]

    def forms(n):
        # the full name and the `module::name` form used inside constructed values; `::` inside <..> does not separate segments
        segs, depth, cur = [], 0, ''
        for ch_ in re.split(r'(::|<|>)', n):
            if ch_ == '<':
                depth += 1
            elif ch_ == '>':
                depth -= 1
            if ch_ == '::' and depth == 0:
                segs.append(cur)
                cur = ''
            else:
                cur += ch_
        segs.append(cur)
        out = {n, tok_name(n), short(n)}       # (events name functions through tok_name, constructed values through short)
        if len(segs) >= 2 and not segs[-2].startswith('<'):
            out.add('::'.join(segs[-2:]))
        return sorted(out, key=len, reverse=True)

    def mentions(txt, m):
        # a helper is mentioned where its name stands as a whole (not as the prefix of a function nested in it)
        return any(re.search(re.escape(f_) + r'(?![\w:])', txt) for f_ in forms(m))
    hashes = {}
    pending = set(helpers)
    for _round in range(8):
        for n in sorted(pending):
            # callee helpers mentioned in n's paths (other than itself) must be hashed first
            txt = '\n'.join(g[n])
            deps = [m for m in helpers if m != n and mentions(txt, m)]
            if any(m not in hashes for m in deps):
                continue
            for m in sorted(deps, key=len, reverse=True):
                for f_ in forms(m):
                    txt = re.sub(re.escape(f_) + r'(?![\w:])', '#' + hashes[m], txt)
            for f_ in forms(n):
                txt = re.sub(re.escape(f_) + r'(?![\w:])', '#self', txt)
            hashes[n] = hashlib.sha1('\n'.join(sorted(txt.split('\n'))).encode()).hexdigest()[:10]
            pending.discard(n)
    for n in pending:       # mutual recursion among helpers: keep the name
        hashes[n] = 'name:' + n

    def rewrite(paths, own=None):
        out = []
        for p_ in paths:
            for m in sorted(helpers, key=len, reverse=True):
                for f_ in forms(m):
                    p_ = re.sub(re.escape(f_) + r'(?![\w:])', ('#self' if m == own else '#' + hashes[m]).replace('\\', '\\\\'), p_)
            out.append(p_)
        return sorted(out)
    prods = {n: rewrite(g[n]) for n in g if n not in helpers}
    helps = {}
    for n in helpers:
        helps.setdefault(hashes[n], []).append((n, rewrite(g[n], own=n)))
    return prods, helps


# what the AST content built by a production feeds downstream: a production that loses or alters content breaks those properties too
# (a necessary condition of each: the declared attribute / field / signature has to reach the semantic layer unchanged)
DOWNSTREAM = [
    (r'parse_type_definition|TypeStatement|TypeField', ['C01', 'C02', 'C03', 'C17', 'C04', 'C06', 'C15']),
    (r'grammar::Attribute|AttributePart|parse_attribute', ['C01', 'C02', 'C03', 'C05', 'C15', 'C16', 'C17']),
    (r'for grammar::Function>|for grammar::Argument>', ['C04', 'C05', 'C16']),
    (r'EnumStatement|parse_enum_definition', ['C08']),
    (r'for grammar::Type>|parse_type_ident', ['C01', 'C05', 'C10', 'C20']),
    (r'for grammar::Expr>|for grammar::ExprField>', ['C08', 'C15', 'C17', 'C20']),
    (r'for grammar::ItemPath>|parse_item_definition|for grammar::Module>|parse_str', ['C11', 'C14', 'C05', 'C15', 'C17', 'C20']),
    (r'parse_backend', ['C14']),
    (r'for grammar::Visibility>', ['C17']),
]


def downstream(name):
    out = ['C18']
    for rx, props in DOWNSTREAM:
        if re.search(rx, name):
            out += [p_ for p_ in props if p_ not in out]
    return out


def run(ctx):
    P = ctx.prog
    g = extract(P)
    ctx.grammar = g
    nfun = len(g)
    npaths = sum(len(v) for v in g.values())
    ctx.stats['extra_C18'] = {'parser_functions': nfun, 'grammar_paths': npaths}
    if not os.path.exists(REF):
        ctx.fail_closed(['C18'], 'R-GRAM', 'reference', 'spec/grammar_ref.json missing')
        return
    ref = json.load(open(REF))['productions']
    cprods, chelps = canonical(g)
    rprods, rhelps = canonical(ref)
    g_names = {h: v[0][0] for h, v in chelps.items()}
    # helper functions are compared as a set of contents (name and nesting are free); a helper whose content is in both is equal
    same_helpers = set(chelps) & set(rhelps)
    g = dict(g)
    ref = dict(ref)
    renamed = []
    for h in sorted(same_helpers):
        cn, rn = chelps[h][0][0], rhelps[h][0][0]
        if cn != rn and cn in g and rn in ref and rn not in g and cn not in ref:
            renamed.append((rn, cn))
            ctx.ob(['C18'], 'R-GRAM', 'production|%s' % rn, True, 'helper %s has the content of the reference helper %s (renamed or hoisted)' % (cn, rn), '')
            g.pop(cn)
            ref.pop(rn)
    if renamed:
        # callers mention the helper by name: compare them in canonical form
        for name in list(g):
            if name in ref and name in cprods and name in rprods:
                g[name], ref[name] = cprods[name], rprods[name]
            elif name in ref:
                hc = [h for h, v in chelps.items() if v[0][0] == name]
                hr = [h for h, v in rhelps.items() if v[0][0] == name]
                if hc and hr:
                    g[name], ref[name] = chelps[hc[0]][0][1], rhelps[hr[0]][0][1]
    # helpers that exist on one side only are expanded at their call sites on that side (a block moved into a new helper, or a
    # helper inlined into its only caller); then both sides are compared with path-local group numbering
    is_prod = lambda n: re.search(r'<impl syn::parse::Parse for [\w:]+>::parse$', n) is not None
    only_g = [n for n in g if n not in ref and not is_prod(n)]
    only_r = [n for n in ref if n not in g and not is_prod(n)]
    if only_g or only_r:
        g2, r2 = inline_helpers(g, only_g), inline_helpers(ref, only_r)
        g2 = {k: sorted({canon_groups(p_) for p_ in v}) for k, v in g2.items()}
        r2 = {k: sorted({canon_groups(p_) for p_ in v}) for k, v in r2.items()}
        if set(g2) == set(r2) and all(g2[k] == r2[k] for k in g2):
            for n in only_g:
                ctx.ob(['C18'], 'R-GRAM', 'production|%s' % n, True, 'new helper: expanded at its call sites the grammar equals the reference', '')
            for n in only_r:
                ctx.ob(['C18'], 'R-GRAM', 'production|%s' % n, True, 'helper of the reference was inlined: expanded the grammars are equal', '')
            g, ref = g2, r2
    for name in sorted(set(g) | set(ref)):
        a, b = g.get(name), ref.get(name)
        if a is None:
            ctx.ob(downstream(name), 'R-GRAM', 'production|%s' % name, False, 'parser function of the reference grammar no longer exists (the grammar is read from the function-per-node parser; fail closed)', '')
            continue
        f = P.fns.get(name) or next((x for x in P.fns.values() if cidn(x.id) == name), None)
        where = loc(f.span) if f else ''
        if b is None:
            ctx.ob(downstream(name), 'R-GRAM', 'production|%s' % name, False, 'new parser function that the reference grammar does not know: %s' % a[:2], where)
            continue
        missing = [p for p in b if p not in a]
        extra = [p for p in a if p not in b]
        ok = not missing and not extra
        ctx.ob(downstream(name) + (['C12'] if any('error' in p_ for p_ in missing + extra) else []), 'R-GRAM', 'production|%s' % short(name), ok,
               ('%d token/constructor paths equal the reference grammar' % len(a)) if ok else
               'the concrete syntax or the AST construction of this production changed: %d paths no longer present (e.g. %s), %d new (e.g. %s)' % (
                   len(missing), (missing[0][:260] if missing else '-'), len(extra), (extra[0][:260] if extra else '-')), where)
    ctx.ob(['C18'], 'R-GRAM', 'census', nfun >= 18 and npaths >= 60, 'grammar extracted from %d parser functions, %d paths (floors 18 / 60)' % (nfun, npaths), nontrivial=False)
    # D2 constructor coverage
    want = {'grammar::Type': None, 'grammar::Expr': None, 'grammar::Attribute': None, 'grammar::Argument': None, 'grammar::TypeField': None,
            'grammar::ItemDefinitionInner': None, 'grammar::Visibility': None}
    built = {}
    srcs = [f for f in P.fns.values() if (f.id.startswith('parser::') or re.match(r'^<grammar::\w+ as std::convert::From<', f.id)) and not f.raw.get('derived')]
    for f in srcs:
        for bi in f.normal_blocks():
            for st in f.blocks[bi]['stmts']:
                if st['k'] == 'Assign' and st['rv']['k'] == 'Aggregate' and st['rv'].get('agg') == 'Adt' and st['rv']['adt'] in want and st['rv'].get('is_enum'):
                    built.setdefault(st['rv']['adt'], set()).add(st['rv']['variant'])
            for op in f.block_operands(bi):
                if op.get('k') == 'Const' and 'fn' in op:
                    m = re.match(r'^(grammar::\w+)::(\w+)$', op['fn']['path'])
                    if m and m.group(1) in want:
                        built.setdefault(m.group(1), set()).add(m.group(2))
    # ... and variants built by a plain constructor / builder of the crate that the parser calls (`Type::ident(..)`,
    # `t.const_pointer()`): the constructor's own aggregate counts for the parser
    ctor_callees = set()
    for f in srcs:
        for c in f.calls(lambda r: r['path'] in P.fns and r['path'].startswith('grammar::')):
            g = P.fns[c['path']]
            if not g.loops() and len(g.exits()) == 1:
                ctor_callees.add(g.id)
    for gid in ctor_callees:
        g = P.fns[gid]
        for bi in g.normal_blocks():
            for st in g.blocks[bi]['stmts']:
                if st['k'] == 'Assign' and st['rv']['k'] == 'Aggregate' and st['rv'].get('agg') == 'Adt' and st['rv']['adt'] in want and st['rv'].get('is_enum'):
                    built.setdefault(st['rv']['adt'], set()).add(st['rv']['variant'])
    for adt in sorted(want):
        a = P.adts.get(adt)
        vs = [v['name'] for v in a['variants']] if a else []
        miss = [v for v in vs if v not in built.get(adt, set())]
        ctx.ob(['C18'], 'R-MATCH', 'constructed|%s' % adt.split('::')[-1], bool(vs) and not miss, 'every variant of %s is constructed by the parser: missing %s' % (adt, miss), '')
    # every field of every grammar struct literal in the parser is fed from a parse result / parameter (none defaulted)
    n = 0
    for f in parser_fns(P):
        for bi in f.normal_blocks():
            for st in f.blocks[bi]['stmts']:
                if st['k'] == 'Assign' and st['rv']['k'] == 'Aggregate' and st['rv'].get('agg') == 'Adt' and st['rv']['adt'].startswith('grammar::') and not st['rv'].get('is_enum'):
                    e = f.expr_of_rvalue(st['rv'])
                    for fld, v in e[2]:
                        n += 1
                        v2 = strip(v)
                        defaulted = is_call(v2, 'Default::default') or (is_call(v2, 'Vec::new') and v2[0] == 'call') or (v2[0] == 'agg' and v2[1].endswith('Option::None') and fld not in ('prologue', 'epilogue'))
                        if defaulted:
                            ctx.ob(['C18'], 'R-SLP', 'field-fed|%s.%s|%s' % (short(st['rv']['adt']), fld, cidn(short(f.id))), False,
                                   'field `%s` of %s is defaulted instead of being fed from a parse result' % (fld, st['rv']['adt']), loc(st['span']))
    ctx.ob(['C18'], 'R-SLP', 'field-fed|census', n >= 10, '%d struct-literal fields of grammar nodes in the parser examined, none defaulted (floor 10; nodes built with the crate\'s constructors are read by R-GRAM instead)' % n, nontrivial=False)
    # D3 peek/parse agreement
    bad = []
    npk = 0
    for name, paths in ctx.grammar.items():        # (the grammar as extracted, before helper names were canonicalised)
        for p in paths:
            evs = p.split(' ')
            for i, e in enumerate(evs):
                m = re.match(r'^peek\((\w+),(.+)\)$', e)
                if not m:
                    continue
                buf, tk = m.groups()
                if tk == 'param' or not (tk.startswith('T!') or tk.startswith('kw:') or tk.startswith('syn:')):
                    continue
                if i + 1 >= len(evs) or evs[i + 1] != 'yes':
                    continue
                # next consuming event on the same buffer
                for e2 in evs[i + 2:]:
                    m2 = re.match(r'^(parse|call|terminated|group)\((\w+),([^,)]+)', e2)
                    if m2 and m2.group(2) == buf:
                        npk += 1
                        kind, _, what = m2.groups()
                        if kind == 'parse' and (what.startswith('T!') or what.startswith('kw:')) and what != tk:
                            bad.append((name, tk, what))
                        if kind == 'group':
                            want_g = {'T!Paren': 'parens', 'T!Brace': 'braces', 'T!Bracket': 'brackets'}.get(tk)
                            if want_g and want_g != what:
                                bad.append((name, tk, what))
                        break
                    if re.match(r'^(peek|peek2|is_empty)\(', e2):
                        break
    ctx.ob(['C18', 'C12'], 'R-GRAM', 'peek-parse-agreement', not bad and npk >= 20,
           'in a branch guarded by peek(T) the first token consumed from that buffer is T (%d peek→consume pairs; contradictions: %s)' % (npk, sorted(set(bad))[:3]), '')
    # D4 / C08-D5: integer literals become isize/usize through base10_parse and its error is propagated
    okb = True
    nb = 0
    for f in parser_fns(P):
        for c in f.calls(lambda r: r['gpath'] and r['gpath'].endswith('LitInt::base10_parse')):
            nb += 1
            ce = f.expr_of_call(c['term'])
            prop = any(g_.kind == 'reject' and g_.pred[0] == 'fails' and g_.pred[1] == ce for g_ in guards_of(f))
            ty = (c['callee'].get('gargs') or ['?'])[0]
            ok = prop and ty in ('isize', 'usize')
            okb = okb and ok
            ctx.ob(['C18', 'C08', 'C12'], 'R-ERR', 'base10_parse|%s|%s' % (cidn(short(f.id)), ty), ok,
                   'integer literal → %s via LitInt::base10_parse (any radix, `_` separators); a value that does not fit is a positioned parse error, not a wrapped number' % ty, loc(c['span']))
    ctx.ob(['C18', 'C08'], 'R-ERR', 'base10_parse|census', nb >= 3, '%d integer-literal conversion sites (floor 3)' % nb, nontrivial=False)
    # parse_str is syn::parse_str::<Module>: the whole input must be consumed, errors are syn::Error (positioned)
    ps = [f for f in P.fns.values() if f.id == 'parser::parse_str']
    okp = False
    if ps:
        cs = [c for c in ps[0].calls(lambda r: r['path'] == 'syn::parse_str')]
        okp = len(cs) == 1 and 'grammar::Module' in ' '.join(cs[0]['callee'].get('gargs', [])) and ps[0].raw.get('output', '').startswith('std::result::Result<grammar::Module, syn::Error>')
    ctx.ob(['C18', 'C12'], 'R-EXPR', 'parse_str|whole-input-positioned-errors', okp, 'parse_str = syn::parse_str::<Module> (rejects trailing tokens) returning syn::Error, which always carries a span', loc(ps[0].span) if ps else '')


if __name__ == '__main__':
    # regenerate the reference (reviewed by hand against DESIGN.md Appendix F before committing)
    P = Program(sys.argv[1])
    g = extract(P)
    json.dump({'note': 'reference grammar of the pinned tree: per parser function, the set of token/constructor event paths; reviewed against DESIGN.md Appendix F',
               'productions': g}, open(REF, 'w'), indent=1, sort_keys=True)
    print('wrote', REF, len(g), sum(len(v) for v in g.values()))
