"""r_resolve — determinism, resolution loop, name binding, confinement, registration
(C09, C10-D1, C11, C19, C14-D2/D3)."""
import re
from mirlib import *
from guards import *
from r_panic import cycle_without, all_calls, agg_sites

HASH_ITER = re.compile(r'^std::collections::(HashMap|HashSet)::<.*>::(iter|iter_mut|keys|values|values_mut|into_keys|into_values|drain|retain|extract_if|difference|union|intersection|symmetric_difference)$|'
                       r'^std::collections::hash_(map|set)::(HashMap|HashSet)::<.*>::(iter|iter_mut|keys|values|values_mut|drain|retain)$')
REG_T = 'HashMap::<grammar::ItemPath, semantic::types::ItemDefinition>'


def cid(fid):
    return re.sub(r'\{closure#\d+\}', '{closure}', fid)


def hash_sources(P):
    """call sites that expose hash iteration order"""
    out = []
    for f in P.fns.values():
        if f.raw.get('derived'):
            continue
        for c in f.calls():
            cal = c['callee']
            if not cal:
                continue
            full = cal.get('rfull') or cal.get('full') or ''
            g0 = (cal.get('gargs') or [''])[0]
            if HASH_ITER.match(full):
                out.append((f, c, short(c['path']) + ' on ' + re.sub(r'^.*::(Hash\w+)::<(.*)>::\w+$', r'\1<\2>', full)[:80]))
            elif cal['path'].endswith('IntoIterator::into_iter') and re.match(r'^&?(mut )?std::collections::Hash(Map|Set)<', g0):
                out.append((f, c, 'into_iter on ' + re.sub(r'^&?(mut )?std::collections::(hash_map::|hash_set::)?', '', g0)[:80]))
            elif re.search(r'Iterator::(collect|extend)$|FromIterator::from_iter$', cal['path']) and False:
                pass
    return out


def run(ctx):
    P = ctx.prog
    order(ctx)
    loop_exit(ctx)
    binding(ctx)
    confinement(ctx)
    registry_writers(ctx)
    registration(ctx)


# ------------------------------------------------------------------------------------------------
def order(ctx):
    P = ctx.prog
    srcs = hash_sources(P)
    ssb = [f for f in P.fns.values() if f.id.endswith('SemanticState::build')]
    ssb = ssb[0] if ssb else None
    # D2 registry frozen during resolution
    frozen = None
    path = None
    if ssb:
        L = [l for l in ssb.loops()]
        roots = set()
        for c in ssb.calls(lambda r: r['path'] in P.fns and any(r['block'] in l[1] for l in L)):
            roots.add(c['path'])
        mut = [f.id for f, c in all_calls(P, REG_T.replace('<', '<').replace('::<', '::<') + r'::(insert|remove|clear|retain|drain|entry|extend|try_insert)$'.replace('', ''))] if False else []
        mutators = set()
        for f in P.fns.values():
            for c in f.calls():
                full = (c['callee'] or {}).get('rfull') or ''
                if re.match(REGISTRY_MAP + r'(insert|remove|clear|retain|drain|entry|extend|remove_entry|try_insert|pop_first|pop_last|append)$', full):
                    mutators.add(f.id)
        path = None
        for m in sorted(mutators):
            p = P.call_path(sorted(roots), m, kinds=('call', 'closure', 'fnref'))
            if p:
                path = p
                break
        frozen = path is None and bool(roots) and bool(mutators)
        ctx.ob(['C09', 'C19'], 'R-REACH', 'C09-D2|registry-frozen', frozen,
               'while the worklist runs the set of registry keys must not change (otherwise hash order decides what a name resolves to in this pass); ' +
               ('no call path from the per-item builders to a registry insertion' if frozen else 'call path: %s' % ' → '.join(short(x) for x in (path or ['?']))),
               loc(ssb.span))
    else:
        ctx.fail_closed(['C09', 'C10'], 'R-ANCHOR', 'SSB', 'SemanticState::build not found')
    ctx.frozen = frozen
    n = 0
    for (f, c, what) in srcs:
        n += 1
        key = '%s|%s' % (cid(f.id), what)
        where = loc(c['span'])
        ce = f.expr_of_call(c['term'])
        ctx._leaves = []
        ok, why = discharge(ctx, f, c, ce, depth=0)
        if ok:
            ctx.ob(['C09', 'C19'] if 'resolve' in f.id else ['C09'], 'R-ORDER', key, ok, why, where, show(ce)[:140])
        else:
            # one obligation per place where the order is finally consumed without a discharge, keyed by that consumer (not by
            # the function that happens to contain the iteration: the source may be moved into a helper without changing anything)
            cont = what.split(' on ')[-1]
            seen_ = set()
            for (cons_, cls_, ok_, why_) in ctx._leaves:
                if ok_ or (cons_, cls_) in seen_:
                    continue
                seen_.add((cons_, cls_))
                ctx.ob((['C09', 'C19'] + (['C11'] if ('TypeRegistry::resolve' in f.id or 'TypeRegistry::resolve' in cons_) else [])) if ('resolve' in f.id or 'resolve' in cons_ or cls_ == 'SCHEDULE') else ['C09'],
                       'R-ORDER', '%s|%s|%s' % (cons_, cls_, cont), False,
                       '%s [source: %s in %s]' % (why_, what, short(f.id)), where, show(ce)[:140])
            if not seen_:
                ctx.ob(['C09', 'C19'] if 'resolve' in f.id else ['C09'], 'R-ORDER', key, ok, why, where, show(ce)[:140])
    ctx.ob(['C09'], 'R-ORDER', 'census', True, 'hash-order sources found and classified: %d' % n, nontrivial=False)
    # wrappers that hand the order on are followed by `discharge`; additionally: no hash container is turned into output
    # through Debug formatting of a map/set ({:?}) outside error texts
    for f in P.fns.values():
        if f.raw.get('derived'):
            continue
        for c in f.calls(lambda r: r['path'] and 'new_debug' in r['path']):
            full = (c['callee'].get('rfull') or '')
            if re.search(r'Hash(Map|Set)<', full):
                ks = f.exit_kinds_from(c['block'])
                ctx.ob(['C09'], 'R-ORDER', '%s|debug-format-of-hash-container' % cid(f.id), ks <= {'err_own', 'err_prop', 'diverge'},
                       'a hash container is Debug-formatted; allowed only on paths that end in Err', loc(c['span']))


def uses_of_local(f, l):
    """blocks (and terminator/stmt) where local l is read or borrowed"""
    out = []
    for bi in sorted(f.normal_blocks()):
        b = f.blocks[bi]
        for si, st in enumerate(b['stmts']):
            if st['k'] == 'Assign':
                rv = st['rv']
                hit = False
                if rv['k'] in ('Ref', 'RawPtr', 'CopyForDeref', 'Discriminant') and rv['place']['local'] == l:
                    hit = True
                for op in _ops(rv):
                    if op.get('k') in ('Copy', 'Move') and op['place']['local'] == l:
                        hit = True
                if hit:
                    out.append((bi, si))
        t = b['term']
        ops = []
        if t['k'] == 'Call':
            ops = list(t['args'])
        elif t['k'] == 'SwitchInt':
            ops = [t['discr']]
        for op in ops:
            if op.get('k') in ('Copy', 'Move') and op['place']['local'] == l:
                out.append((bi, 'term'))
    return out


def _ops(rv):
    k = rv['k']
    if k in ('Use', 'Cast', 'Repeat'):
        yield rv['op']
    elif k == 'BinaryOp':
        yield rv['a']
        yield rv['b']
    elif k == 'UnaryOp':
        yield rv['a']
    elif k == 'Aggregate':
        for o in rv['ops']:
            yield o


def discharge(ctx, f, c, ce, depth):
    """(ok, reason) for one order-exposing value `ce` produced by call `c` in function `f`; every terminal decision (the place
    where the order is finally consumed) is recorded in ctx._leaves as (consumer function, class, ok, reason)"""
    ok, why = _discharge(ctx, f, c, ce, depth)
    if not why.startswith('ESCAPES through'):
        cls = re.match(r'^([A-Z][A-Z-]+)', why)
        ctx._leaves.append((cid(f.id), cls.group(1) if cls else 'UNSORTED-USE', ok, why))
    return ok, why


def _discharge(ctx, f, c, ce, depth):
    P = ctx.prog
    if depth > 3:
        return False, 'order escapes through too many wrappers'
    # 1. ESCAPES: the value (or a collection built from it) is the function's return value
    for x in f.exits():
        if x['kind'] in ('err_own', 'err_prop', 'none_prop'):
            continue
        xe = expand(f, x['expr'])
        if not flows_as_sequence(xe, ce):
            # a vector filled by one push per trip of a loop over the value is the same sequence as its collect()
            try:
                sc = seq_chain(f, x['expr'])
                if sc is not None and strip(sc) != strip(x['expr']) and (flows_as_sequence(sc, ce) or flows_as_sequence(expand(f, sc), ce) or flows_as_sequence(sc, expand(f, ce))):
                    xe = ce
            except Exception:
                pass
        if flows_as_sequence(xe, ce):
            callers = []
            for g in P.fns.values():
                if g.raw.get('derived'):
                    continue
                for c2 in g.calls(lambda r: r['path'] == f.id):
                    callers.append((g, c2))
            if not callers:
                return True, 'ESCAPES to callers, of which there are none outside tests'
            res = []
            allok = True
            for g, c2 in callers:
                ok, why = discharge(ctx, g, c2, g.expr_of_call(c2['term']), depth + 1)
                res.append('%s@%s: %s' % (short(g.id), loc(c2['span']), why))
                allok = allok and ok
            return allok, 'ESCAPES through the return value of %s; every caller: %s' % (short(f.id), ' ;; '.join(res))
    # 1b. ERROR-TEXT-ONLY
    ks = f.exit_kinds_from(c['block'])
    if ks and ks <= {'err_own', 'err_prop', 'diverge'}:
        return True, 'ERROR-TEXT-ONLY: every path from this call ends in Err (the order can only show in an error message)'
    # 2. the value is consumed here: find the local it ends up in (collect into a Vec, or a for loop)
    holder = None
    for l, ds in f.defs().items():
        for d in ds:
            e = f.expr_of_def(d)
            if any(y == ce for y in walk(e)) and l in f.names and (l in f.mut_borrowed() or len(ds) == 1):
                ks_ = f.exit_kinds_from(d[0])
                if ks_ and ks_ <= {'err_own', 'err_prop', 'diverge'}:
                    continue        # a copy made on a path that can only end in Err: error text
                if is_call(e, 'Iterator::collect') or is_call(e, 'from_iter') or e == ce:
                    holder = (l, d, e)
    # 2a. SORTED
    if holder and is_call(holder[2], 'Iterator::collect'):
        l = holder[0]
        sorts = []
        for c2 in f.calls(lambda r: r['path'] and re.search(r'slice::<impl \[T\]>::sort\w*$', r['path'])):
            a0 = expand_ref(f, c2['term']['args'][0])
            if a0 == l:
                sorts.append(c2)
        if sorts:
            sb = sorts[0]['block']
            uses = [u for u in uses_of_local(f, l)]
            # every use other than the borrow for the sort itself is dominated by the sort
            late = [u for u in uses if not f.dominates(sb, u[0]) or u[0] == sb]
            # uses in blocks that are not dominated: must be the chain leading to the sort (the &mut borrow)
            bad = [u for u in late if not (sb in f.reach(u[0]) and not _reads_elements(f, u, l))]
            key = sort_key(ctx, f, sorts[0])
            okk = key is not None
            # the order imposed is total on the keys only if the key type's Ord is the derived one (consistent with its Eq/Hash):
            # a hand-written comparison that identifies distinct keys lets the hash order through again
            kt = sort_key_type(ctx, f, sorts[0])
            bad_ord = non_derived_ord(P, kt)
            if bad_ord:
                return False, 'SORTED by %s, but the ordering of %s is hand-written (not #[derive]d): keys that are different may compare equal and keep their hash order' % (key, bad_ord)
            return (not bad and okk), 'SORTED: the collected Vec is sorted (key %s) before any other use; the sort dominates the emitting loop' % key
        return False, 'collected into `%s` and used without sorting' % f.names.get(l)
    # 2c. worklist of the resolution loop (also compared with its successor for the progress test)
    if re.search(r'TypeRegistry::unresolved$', c['path'] or ''):
        fz = getattr(ctx, 'frozen', None)
        return bool(fz), 'SCHEDULE: the worklist order is irrelevant only if the registry is frozen while it runs (C09-D2): ' + ('holds' if fz else 'violated (see C09-D2|registry-frozen)')
    # 2d. loop driven by this value
    ece = expand(f, ce)
    for L in f.loops():
        sty, src = loop_source(f, L)
        if src is not None and any(y == ce or y == ece for y in walk(expand(f, src))):
            return independent(ctx, f, L, ce)
    # 2d'. the same loop written as `value.try_for_each(|x| ..)` / `for_each`: the closure is the loop body
    for c2 in f.calls(lambda r: r['gpath'] and re.search(r'Iterator::(try_for_each|for_each)$', r['gpath'])):
        te = f.expr_of_call(c2['term'])
        if len(te[2]) == 2 and any(y == ce or y == ece for y in walk(expand(f, te[2][0]))) and strip(te[2][1])[0] == 'closure' and strip(te[2][1])[1] in P.fns:
            g = P.fns[strip(te[2][1])[1]]
            bad = []
            for x in [g.id] + list(P.closure_of_calls(g.id, kinds=('call', 'closure', 'fnref'))):
                if x not in P.fns:
                    continue
                for c3 in P.fns[x].calls():
                    full = (c3['callee'] or {}).get('rfull') or ''
                    if re.search(r'TypeRegistry::(add|get_mut)$', c3['path'] or '') or re.match(r'^std::collections::Hash(Map|Set)::<.*>::(insert|remove|clear|retain|entry|extend)$', full) and 'ItemPath' in full:
                        bad.append('%s calls %s' % (short(x), short(c3['path'])))
            for c3 in g.calls(lambda r: r['path'] and re.search(r'Vec::<T, A>::(push|extend\w*|insert)|String::push\w*|fmt::Write::write_\w+', r['path'])):
                if any(isinstance(y, tuple) and y and y[0] == 'upvar' for y in walk(g.expr_of_operand(c3['term']['args'][0]))):
                    bad.append('appends to a captured sequence at %s' % loc(c3['span']))
            names = sorted({short(c3['path']) for c3 in g.calls(lambda r: r['path'] in P.fns)})
            if not names:
                return False, 'closure over hash order with no recognisable per-element callee'
            return not bad, 'INDEPENDENT: each call of the closure only calls %s with the element and captured loop-invariant state; the callees never modify a registry%s' % (
                names, (' — BUT ' + ' | '.join(bad[:3])) if bad else '')
    # 2e. NOT-ITERATED-FURTHER
    return False, 'hash iteration order reaches a use that is neither sorted, nor error text, nor an order-independent loop'


SEQ_ADAPTERS = re.compile(r'Iterator::(filter|map|filter_map|cloned|copied|collect|enumerate|chain|flat_map|peekable|inspect|zip)$|IntoIterator::into_iter$|Vec::from_iter$|FromIterator::from_iter$')


def flows_as_sequence(e, ce):
    """e is the order-exposing value itself or an adapter chain / collection built from it"""
    e = strip(e)
    if e == ce:
        return True
    if e[0] == 'call' and SEQ_ADAPTERS.search(e[3]) and e[2]:
        return flows_as_sequence(e[2][0], ce)
    if e[0] == 'agg' and e[1].endswith(('Result::Ok', 'Option::Some')) and e[2]:
        return flows_as_sequence(e[2][0][1], ce)
    return False


def expand_ref(f, op):
    """local whose &mut is passed (follow reborrows and deref_mut)"""
    e = f.expr_of_operand(op)
    e = strip(e)
    while is_call(e, 'DerefMut::deref_mut') or is_call(e, 'Deref::deref') or is_call(e, 'as_mut_slice'):
        e = strip(e[2][0])
    if e[0] == 'var':
        return e[1]
    return None


def _reads_elements(f, u, l):
    bi, si = u
    if si == 'term':
        t = f.term(bi)
        if t['k'] == 'Call' and t.get('callee'):
            p = t['callee']['path']
            return not re.search(r'(DerefMut::deref_mut|Deref::deref|sort\w*)$', p)
    return False


def sort_key(ctx, f, c):
    P = ctx.prog
    args = [f.expr_of_operand(a) for a in c['term']['args']]
    if len(args) >= 2 and args[1][0] == 'closure' and args[1][1] in P.fns:
        cf = P.fns[args[1][1]]
        ex = cf.exits()
        if len(ex) == 1:
            e = strip(ex[0]['expr'])
            if e[0] == 'field':
                return '.' + e[2]
            return show(e)[:40]
    if len(args) == 1:
        return 'Ord'
    return None


def sort_key_type(ctx, f, c):
    P = ctx.prog
    args = [f.expr_of_operand(a) for a in c['term']['args']]
    if len(args) >= 2 and args[1][0] == 'closure' and args[1][1] in P.fns:
        return P.fns[args[1][1]].locals[0]['ty']
    return ' '.join((c['callee'] or {}).get('gargs', []))


def non_derived_ord(P, ty, depth=0):
    """crate types reachable from `ty` (through fields) whose Ord/PartialOrd impl is hand-written"""
    out = []
    seen = set()
    todo = [ty]
    while todo and depth < 50:
        depth += 1
        t = todo.pop()
        for a in P.adts.values():
            if a['path'] in seen:
                continue
            if re.search(re.escape(a['path']) + r'(?![A-Za-z0-9_:])', t):
                seen.add(a['path'])
                for i in P.impls:
                    if i['self_ty'] == a['path'] and re.match(r'^std::cmp::(Ord|PartialOrd)', i.get('trait', '')) and not i['derived']:
                        out.append(a['path'])
                for v in a['variants']:
                    for fl in v['fields']:
                        todo.append(fl['ty'])
    return sorted(set(out))


def independent(ctx, f, L, ce):
    """loop body: only passes the element and loop-invariant shared state to callees that cannot observe
    other iterations"""
    P = ctx.prog
    h, body, latches = L
    calls = [c for c in f.calls(lambda r: r['block'] in body and r['path'] in P.fns)]
    names = sorted({short(c['path']) for c in calls})
    if not calls:
        return False, 'loop over hash order with no recognisable per-element callee'
    ok = True
    why = []
    for c in calls:
        g = P.fns[c['path']]
        clo = P.closure_of_calls(g.id, kinds=('call', 'closure', 'fnref'))
        # callee must not mutate shared registries
        bad = []
        for x in clo:
            for c2 in P.fns[x].calls():
                full = (c2['callee'] or {}).get('rfull') or ''
                if re.search(r'TypeRegistry::(add|get_mut)$', c2['path'] or '') or re.match(r'^std::collections::Hash(Map|Set)::<.*>::(insert|remove|clear|retain|entry|extend)$', full) and 'ItemPath' in full:
                    bad.append('%s calls %s' % (short(x), short(c2['path'])))
        if bad:
            ok = False
            why.append('; '.join(bad[:3]))
    # other effects in the body: pushes to outer vectors / stores to outer locals make the order observable
    for c in f.calls(lambda r: r['block'] in body and r['path'] and re.search(r'Vec::<T, A>::(push|extend\w*|insert)|String::push\w*|fmt::Write::write_\w+', r['path'])):
        ok = False
        why.append('appends to an outer sequence at %s' % loc(c['span']))
    # a value computed in one iteration that is still read after the loop (on a path that can end normally) makes the last
    # iteration — i.e. the hash order — observable: `result = f(x)` in the body, `result` returned afterwards
    for l, ds in f.defs().items():
        in_body = [d_ for d_ in ds if d_[0] in body]
        if not in_body or l == 0 and False:
            continue
        for (bi, si) in uses_of_local(f, l):
            if bi in body:
                continue
            ks_ = f.exit_kinds_from(bi)
            if not (ks_ & {'ok', 'ok_some', 'ok_none', 'some', 'none', 'passthrough', 'other'}):
                continue            # only error / cleanup paths read it
            # the iterator itself and drop flags are not values of an iteration
            ty_ = f.local_ty(l)
            if re.search(r'Iter<|IntoIter<|::Keys<|::Values<', ty_) or f.is_dropflag(l) or ty_ == '()':
                continue
            if any(bi in f.reach(d_[0]) for d_ in in_body):
                ok = False
                why.append('local `%s` (%s) is assigned inside the loop and read after it at %s' % (f.names.get(l, '_%d' % l), ty_[:40], loc(f.term(bi)['span'])))
                break
    return ok, 'INDEPENDENT: each iteration only calls %s with the element and loop-invariant state; the callees never modify a registry%s' % (names, (' — BUT ' + ' | '.join(why)) if why else '')


# ------------------------------------------------------------------------------------------------
def loop_exit(ctx):
    """C10-D1: Ok(resolved state) is reachable only through `unresolved().is_empty()`"""
    P = ctx.prog
    ssb = [f for f in P.fns.values() if f.id.endswith('SemanticState::build')]
    if not ssb:
        return
    f = ssb[0]
    where = loc(f.span)
    oks = [x for x in f.exits() if x['kind'] == 'ok']
    MUT = re.compile(r'(TypeRegistry::get_mut|SemanticState::add_item|TypeRegistry::add|type_definition::build|enum_definition::build|Module::resolve_extern_values|HashMap<.*>::(insert|get_mut|entry|remove))$')
    PURE = re.compile(r'(::is_empty|::len|::deref|::eq|::ne|::clone|::iter|::into_iter|::next|::as_ref|::borrow|::as_slice|::fmt|drop_in_place)$')
    def may_mutate(r):
        if not r['path']:
            return False
        if MUT.search(r['callee'].get('rfull') or r['path']):
            return True
        g_ = P.fns.get(r['path'])
        # an in-crate function that receives the state (or the registry) mutably
        return g_ is not None and any(re.match(r"^&('\w+ )?mut semantic::(semantic_state::SemanticState|type_registry::TypeRegistry)$", t_) for t_ in g_.raw.get('inputs', []))
    mut_blocks = {c['block'] for c in f.calls(may_mutate)}
    ucalls = [c for c in f.calls(lambda r: r['path'] and r['path'].endswith('TypeRegistry::unresolved'))]

    def usites(e, d=0):
        """blocks of the unresolved() calls whose result `e` can denote (None if `e` can be anything else)"""
        e = strip(e)
        if d > 6:
            return None
        if is_call(e, 'TypeRegistry::unresolved'):
            bs = [c['block'] for c in ucalls if strip(f.expr_of_call(c['term'])) == e]
            return set(bs) or None
        if e[0] == 'call' and e[2] and re.search(r'(::deref|::as_slice|::as_ref|::borrow|::clone)$', e[1]):
            return usites(e[2][0], d + 1)
        if e[0] == 'var':
            out = set()
            for df in f.defs().get(e[1], []):
                if df[2] == 'call' and df[3].get('callee') and df[3]['callee']['path'].endswith('TypeRegistry::unresolved'):
                    out.add(df[0])
                    continue
                if df[2] == 'rv' and df[3].get('k') == 'Use' and (df[3].get('op') or {}).get('k') in ('Move', 'Copy') and not df[3]['op']['place']['proj']:
                    l2 = df[3]['op']['place']['local']
                    r_ = usites(('var', l2, f.names.get(l2, '_%d' % l2)), d + 1)
                else:
                    r_ = usites(f.expr_of_def(df), d + 1) if f.expr_of_def(df) != e else None
                if r_ is None:
                    return None
                out |= r_
            return out or None
        return None

    def lsites(l, d=0):
        """blocks of the unresolved() calls whose result local `l` can hold or refer to, following copies, moves and borrows
        in the MIR itself (a single-definition temporary keeps its own call site, which the reconstructed expression loses)"""
        if d > 8:
            return None
        out = set()
        for df in f.defs().get(l, []):
            if df[2] == 'call':
                cal = df[3].get('callee') or {}
                if cal.get('path', '').endswith('TypeRegistry::unresolved'):
                    out.add(df[0])
                    continue
                if re.search(r'(::deref|::as_slice|::as_ref|::borrow|::clone)$', cal.get('path', '')) and df[3]['args']:
                    a0 = df[3]['args'][0]
                    r_ = lsites(a0['place']['local'], d + 1) if a0.get('k') in ('Move', 'Copy') else None
                    if r_ is None:
                        return None
                    out |= r_
                    continue
                return None
            rv = df[3]
            src = None
            if rv.get('k') == 'Use' and (rv.get('op') or {}).get('k') in ('Move', 'Copy'):
                src = rv['op']['place']
            elif rv.get('k') in ('Ref', 'RawPtr'):
                src = rv['place']
            if src is None or any(pe['k'] != 'Deref' for pe in src['proj']):
                return None
            r_ = lsites(src['local'], d + 1)
            if r_ is None:
                return None
            out |= r_
        return out or None

    def opsites(op):
        if op.get('k') in ('Move', 'Copy') and all(pe['k'] == 'Deref' for pe in op['place']['proj']):
            return lsites(op['place']['local'])
        return None

    def fresh_at(sites, block):
        """no registry mutation can happen between any of the calls and `block`"""
        for b0 in sites:
            between = {x for x in f.reach(b0, stop={block}) if block in f.reach(x, stop={b0})} - {b0, block}
            if between & mut_blocks:
                return False
        return True
    sw = []
    for s_ in f.switches():
        c_ = strip(s_['cond'])
        neg = False
        while c_[0] == 'un' and c_[1] == 'Not':
            c_, neg = strip(c_[2]), not neg
        if c_[0] == 'bin' and c_[1] in ('Eq', 'Ne') and is_int(c_[3], 0) and is_call(strip(c_[2]), '::len'):
            # `x.len() == 0` is `x.is_empty()`
            c_, neg = strip(c_[2]), (not neg if c_[1] == 'Ne' else neg)
        if is_call(c_, '::is_empty') or is_call(c_, '::len'):
            st_ = None
            for cc in f.calls(lambda r: r['path'] and (r['path'].endswith('::is_empty') or r['path'].endswith('::len'))):
                if strip(f.expr_of_call(cc['term'])) == c_ and (cc['block'] == s_['block'] or f.dominates(cc['block'], s_['block'])):
                    st_ = opsites(cc['term']['args'][0])
            if st_:
                sw.append((s_, neg, st_))
    ok = False
    if len(sw) == 1 and len(oks) == 1:
        s_, neg, sites = sw[0]
        te = [(s_['block'], tgt) for lab, tgt in s_['edges'] if lab is (not neg)]
        # the tested list is the registry's current worklist: nothing mutates the registry between taking it and testing it
        ok = unreachable_without(f, oks[0]['block'], removed_edges=te) and fresh_at(sites, s_['block'])
    ctx.ob(['C10', 'C12'], 'R-DOM', 'C10-D1|success-only-when-worklist-empty', ok,
           'Ok(ResolvedSemanticState) can be reached only over the true edge of unresolved().is_empty() (a build never succeeds with an item left unresolved)', where)
    # extern values are resolved once the worklist loop is over: types that only come into being during resolution (a
    # generated vftable struct) exist by then.  Every site that reaches resolve_extern_values lies behind the loop.
    wl = [L for L in f.loops() if any(c['block'] in L[1] or c['block'] == L[0] for c in ucalls)]
    ev_sites = []
    for c in f.calls(lambda r: True):
        tgt = c['path'] or ''
        reach_ = tgt.endswith('Module::resolve_extern_values')
        if not reach_:
            ids_ = [x[1] for x in walk(f.expr_of_call(c['term'])) if isinstance(x, tuple) and x and x[0] in ('closure', 'fnref') and isinstance(x[1], str)]
            if tgt in P.fns and not may_mutate(c):
                ids_ = []
            elif tgt in P.fns:
                ids_.append(tgt)
            reach_ = any(i_.endswith('Module::resolve_extern_values') or any(y.endswith('Module::resolve_extern_values') for y in P.closure_of_calls(i_, kinds=('call', 'closure', 'fnref'))) for i_ in ids_ if i_ in P.fns)
        if reach_:
            ev_sites.append(c['block'])

    def reaches(a, targets):
        seen_, st = {a}, [a]
        while st:
            b_ = st.pop()
            for s2 in f.succ(b_):
                if s2 in targets:
                    return True
                if s2 not in seen_:
                    seen_.add(s2)
                    st.append(s2)
        return False
    hdrs = {L[0] for L in wl}
    bodies = set().union(*[set(L[1]) | {L[0]} for L in wl]) if wl else set()
    ok_ev = bool(wl) and bool(ev_sites) and all(b_ not in bodies and not reaches(b_, hdrs) for b_ in ev_sites)
    ctx.ob(['C10'], 'R-DOM', 'C10-D1|extern-values-after-resolution', ok_ev,
           'resolve_extern_values is reached only behind the resolution loop (%d site(s), %d worklist loop(s)): a type generated while resolving can be named by an extern value' % (len(ev_sites), len(wl)), where)
    sw = [x[0] for x in sw]
    # every other way out of the worklist loop is an Err
    outer = None
    for L in f.loops():
        if sw and sw[0]['block'] in L[1] and (outer is None or len(L[1]) > len(outer[1])):
            outer = L
    ok2 = False
    det = []
    if outer and sw:
        h, body, _ = outer
        ok2 = True
        for b in body:
            for s in f.succ(b):
                if s in body:
                    continue
                if b == sw[0]['block']:
                    continue
                ks = f.exit_kinds_from(s)
                det.append((b, sorted(ks)))
                if not ks <= {'err_own', 'err_prop', 'diverge'}:
                    ok2 = False
    ctx.ob(['C10', 'C12'], 'R-DOM', 'C10-D1|other-exits-are-errors', ok2, 'every exit of the resolution loop other than the empty-worklist test ends in Err: %s' % det, where)
    # no-progress test: Err when the worklist did not change, and the message lists it
    gs = []
    for g in guards_of(f):
        if g.kind != 'reject' or not g.kinds <= {'err_own'}:
            continue
        p_ = g.pred
        while p_[0] == 'un' and p_[1] == 'Not':
            p_ = strip(p_[2])
        if p_[0] == 'call' and re.search(r'::(eq|ne)$', p_[1]) and len(p_[2]) == 2:
            for cc in f.calls(lambda r: r['path'] and re.search(r'::(eq|ne)$', r['path'])):
                if strip(f.expr_of_call(cc['term'])) == p_ and (cc['block'] == g.block or f.dominates(cc['block'], g.block)):
                    sa, sb = opsites(cc['term']['args'][0]), opsites(cc['term']['args'][1])
                    if sa and sb:
                        gs.append((g, sa, sb))
    ok3 = False
    if len(gs) == 1 and outer:
        from r_panic import cycle_without
        g, sa, sb = gs[0]
        h, body, _ = outer
        ok3 = not cycle_without(f, outer[1], outer[0], {g.block})

        def same_trip_after(sites):
            # taken in this trip, after the last possible mutation: the call dominates the test and nothing mutates in between
            return all(b0 in body and f.dominates(b0, g.block) and b0 != h for b0 in sites) and fresh_at(sites, g.block) and \
                all(not ({x for x in f.reach(b0, stop={h}) if g.block in f.reach(x, stop={h})} - {b0}) & mut_blocks for b0 in sites)

        def before_trip_work(sites):
            # taken before this trip's resolution attempts: every mutation of the trip lies between the call and the test
            for b0 in sites:
                path = {x for x in f.reach(b0) if g.block in f.reach(x, stop=set())}
                if not (mut_blocks & body):
                    return False
                # nothing mutates between the call and the loop header / the first attempt of the trip
                if b0 in body and f.dominates(h, b0) and all(f.dominates(b0, m) for m in mut_blocks & body):
                    continue        # taken at the top of this trip
                to_header = {x for x in f.reach(b0, stop={h})} - {b0}
                if to_header & mut_blocks:
                    return False
            return True
        ok3 = ok3 and ((same_trip_after(sb) and before_trip_work(sa)) or (same_trip_after(sa) and before_trip_work(sb)))
        # the lists are compared as they were taken: neither is sorted, filtered or otherwise modified in place in between
        # (a sorted worklist never equals the registry's own order again, and the loop would not end)
        cmp_call = next((cc for cc in f.calls(lambda r: r['path'] and re.search(r'::(eq|ne)$', r['path'])) if opsites(cc['term']['args'][0]) == sa and opsites(cc['term']['args'][1]) == sb), None)
        if cmp_call is not None:
            for a_ in cmp_call['term']['args']:
                for y in walk(f.expr_of_operand(a_)):
                    if isinstance(y, tuple) and y and y[0] == 'var' and isinstance(y[1], int) and y[1] in f.mut_borrowed() and re.search(r'Vec<grammar::ItemPath>', f.local_ty(y[1])):
                        ok3 = False
        err = [x for x in f.exits() if x['kind'] == 'err_own' and f.dominates(g.tgt, x['block'])]
        ok3 = ok3 and any(any(isinstance(y, tuple) and y and (is_call(y, 'TypeRegistry::unresolved') or (y[0] == 'var' and usites(y))) for y in walk(expand(f, x['expr']))) for x in err)
    ctx.ob(['C10', 'C12'], 'R-GUARD', 'C10-D1|no-progress-is-error', ok3,
           'every trip around the resolution loop compares the worklist before and after; no change ⇒ Err whose message interpolates the worklist', gs[0][0].where() if gs else where)
    # a built item is stored as Resolved under its own path (in build itself or in the per-item method it calls in the loop)
    fb_ = f
    has_store = lambda g_: any(kind == 'rv' and [e_['name'] for e_ in payload['place']['proj'] if e_['k'] == 'Field'] == ['state']
                               for sts_ in g_.stores().values() for (bi, si, kind, payload, span) in sts_)
    if not has_store(f):
        helpers_ = [P.fns[c['path']] for c in f.calls(lambda r: r['path'] in P.fns and outer and r['block'] in outer[1]) if has_store(P.fns[c['path']])]
        if len(helpers_) == 1:
            # the helper must be called for the loop's own element, on every trip of the inner loop
            hc = [c for c in f.calls(lambda r: r['path'] == helpers_[0].id)]
            Lin = innermost_loop(f, hc[0]['block']) if len(hc) == 1 else None
            from r_panic import cycle_without as _cw
            if Lin and not _cw(f, Lin[1], Lin[0], {hc[0]['block']}) and any(
                    isinstance(y, tuple) and y[0] == 'payload' and y[2] == 'Some' and is_call(strip(y[1]), 'Iterator::next') for a_ in hc[0]['term']['args'] for y in walk(f.expr_of_operand(a_))) and \
                    any(g_.kind == 'reject' and g_.pred[0] == 'fails' and find_calls(g_.pred, helpers_[0].id.split('::')[-1]) for g_ in guards_of(f)):
                f = helpers_[0]
    st_ok = False
    for l, sts in f.stores().items():
        for (bi, si, kind, payload, span) in sts:
            if kind != 'rv':
                continue
            p = payload['place']
            if [e['name'] for e in p['proj'] if e['k'] == 'Field'] != ['state']:
                continue
            e = f.expr_of_rvalue(payload['rv'])
            if e[0] == 'agg' and e[1].endswith('ItemState::Resolved') and (find_calls(e, 'type_definition::build') or find_calls(e, 'enum_definition::build') or any(isinstance(x, tuple) and x[0] == 'var' for x in walk(e))):
                tgt = f.expr_of_local(p['local'])
                gm = find_calls(tgt, 'TypeRegistry::get_mut')
                if gm:
                    k1 = strip(gm[0][2][1])
                    getc = [c for c in f.calls(lambda r: r['path'] and r['path'].endswith('TypeRegistry::get'))]
                    k0 = strip(f.expr_of_operand(getc[0]['term']['args'][1])) if getc else None
                    st_ok = k0 is not None and k0 == k1
    ctx.ob(['C10', 'C14'], 'R-SLP', 'SSB|result-stored-under-own-path', st_ok, 'the resolved item is written back to the registry entry it was read from (same path)', where)
    # both item kinds are dispatched (no wildcard)
    disp = [s for s in f.switches() if s['cond'][0] == 'discr' and strip(s['cond'][1])[0] == 'field' and strip(s['cond'][1])[2] == 'inner']
    okd = len(disp) == 1 and {lab for lab, _ in disp[0]['edges']} == {'Type', 'Enum'}
    ctx.ob(['C10', 'C14'], 'R-MATCH', 'SSB|both-item-kinds-built', okd, 'types and enums are both dispatched to their builder', where)
    f = fb_


# ------------------------------------------------------------------------------------------------
RAW_ALLOWED = {
    'semantic::type_registry::TypeRegistry::resolve_string': 'the resolver itself',
    'semantic::type_definition::vftable::build': 'path of the generated vftable struct (built from the owning type\'s own path)',
    'semantic::type_definition::vftable::function_to_region': 'receiver type `*Self` of a slot signature (the owning type\'s own path)',
    'semantic::types::Type::raw': 'constructor helper (no non-test caller)',
}


def binding(ctx):
    P = ctx.prog
    # D1 one resolver
    sites = {}
    for f, bi, st in agg_sites(P, r'semantic::types::Type::Raw$'):
        base = re.sub(r'(::\{closure#\d+\})+$', '', f.id)
        sites.setdefault(base, []).append(loc(st['span']))
    # Type::Raw used as a function value (map(Type::Raw))
    for f in P.fns.values():
        for bi in f.normal_blocks():
            for op in f.block_operands(bi):
                if op.get('k') == 'Const' and 'fn' in op and op['fn']['path'].endswith('types::Type::Raw'):
                    base = re.sub(r'(::\{closure#\d+\})+$', '', f.id)
                    sites.setdefault(base, []).append(loc(f.span))
    for base, locs in sorted(sites.items()):
        ok = base in RAW_ALLOWED
        if base == 'semantic::types::Type::raw':
            # calling the constructor is constructing the value where the call is: the callers must be reviewed construction sites
            callers = [re.sub(r'(::\{closure#\d+\})+$', '', g.id) for g in P.fns.values() if base in P.callees(g.id) and not g.raw.get('derived')]
            ok = all(c_ in RAW_ALLOWED for c_ in callers)
        ctx.ob(['C11', 'C19'], 'R-REACH', 'C11-D1|Type::Raw-from|%s' % short(base), ok,
               ('Type::Raw constructed in %s: %s' % (short(base), RAW_ALLOWED.get(base))) if ok else 'a named type reference is constructed outside the resolver, in %s' % base, locs[0])
    rs = [f for f in P.fns.values() if f.id.endswith('TypeRegistry::resolve_string')]
    rg = [f for f in P.fns.values() if f.id.endswith('TypeRegistry::resolve_grammar_type')]
    if not rs or not rg:
        ctx.fail_closed(['C11'], 'R-ANCHOR', 'resolver', 'resolve_string / resolve_grammar_type not found')
        return
    rs, rg = rs[0], rg[0]
    callers = sorted({re.sub(r'(::\{closure#\d+\})+$', '', g.id) for g in P.fns.values() if rs.id in P.callees(g.id, kinds=('call', 'fnref'))})
    ctx.ob(['C11'], 'R-REACH', 'C11-D1|resolve_string-callers', set(callers) <= {rg.id, 'semantic::type_registry::TypeRegistry::padding_type'},
           'names are looked up only through resolve_grammar_type (and the u8 lookup of padding_type): callers %s' % [short(c) for c in callers], loc(rs.span))
    # names are resolved only once every module is registered: nothing reachable from add_file / add_module / add_item calls the
    # resolver (a name bound while the registry is half filled depends on the order in which the files were added)
    early = []
    for root in [g for g in P.fns.values() if re.search(r'SemanticState::(add_module|add_file|add_item|new)$', g.id)]:
        clo_ = P.closure_of_calls(root.id, kinds=('call', 'closure', 'fnref'))
        for x_ in clo_:
            if re.search(r'TypeRegistry::(resolve_string|resolve_grammar_type)$', x_) or x_.endswith('Module::resolve_extern_values'):
                if not (root.id.endswith('SemanticState::new')):
                    early.append('%s reaches %s' % (short(root.id), short(x_)))
    ctx.ob(['C09', 'C11', 'C19', 'C10'], 'R-REACH', 'C11-D1|resolution-only-after-registration', not early,
           'no type name is resolved while modules are still being added (the resolver is reachable from build() only): %s' % sorted(set(early))[:3], loc(rs.span))
    # scope argument at every external call of resolve_grammar_type
    for g in P.fns.values():
        base = re.sub(r'(::\{closure#\d+\})+$', '', g.id)
        if base == rg.id or g.raw.get('derived'):
            continue
        for c in g.calls(lambda r: r['path'] == rg.id):
            sc = g.expr_of_operand(c['term']['args'][1])
            ok = bool(find_calls(sc, 'Module::scope'))
            how = show(sc)[:100]
            if not ok:
                s2 = strip(sc)
                # a parameter (or captured parameter) of a helper all of whose callers pass Module::scope
                holder = P.fns.get(base)
                if s2[0] == 'upvar':
                    # resolve capture in parent
                    par = P.fns.get(g.parent)
                    if par:
                        for bi in par.normal_blocks():
                            for st in par.blocks[bi]['stmts']:
                                if st['k'] == 'Assign' and st['rv']['k'] == 'Aggregate' and st['rv'].get('closure_id') == g.id:
                                    caps = [par.expr_of_operand(o) for o in st['rv']['ops']]
                                    if s2[1] < len(caps):
                                        s2 = strip(caps[s2[1]])
                if s2[0] == 'arg' and holder:
                    pi = s2[1]

                    def passed_scope(hold, pidx, depth=0):
                        """every caller of `hold` passes Module::scope() for parameter pidx, directly or as its own parameter
                        for which the same holds"""
                        cs_ = [(h, c2) for h in P.fns.values() if not h.raw.get('derived') for c2 in h.calls(lambda r: r['path'] == hold.id)]
                        if not cs_ or depth > 3:
                            return False, 0
                        for h, c2 in cs_:
                            a_ = h.expr_of_operand(c2['term']['args'][pidx - 1])
                            if find_calls(a_, 'Module::scope'):
                                continue
                            a2 = strip(a_)
                            while a2[0] == 'call' and a2[2] and re.search(r'(::deref|::as_ref|::as_slice|::borrow)$', a2[1]):
                                a2 = strip(a2[2][0])
                            hb = P.fns.get(re.sub(r'(::\{closure#\d+\})+$', '', h.id))
                            if a2[0] == 'arg' and h.kind != 'Closure' and hb is not None and passed_scope(hb, a2[1], depth + 1)[0]:
                                continue
                            if a2[0] == 'upvar' and h.kind == 'Closure':
                                # the caller is a closure that captured the scope: look at what its creator captured
                                par = P.fns.get(h.parent)
                                cap = None
                                if par is not None:
                                    for bi_ in par.normal_blocks():
                                        for st_ in par.blocks[bi_]['stmts']:
                                            if st_['k'] == 'Assign' and st_['rv']['k'] == 'Aggregate' and st_['rv'].get('closure_id') == h.id and a2[1] < len(st_['rv']['ops']):
                                                cap = strip(par.expr_of_operand(st_['rv']['ops'][a2[1]]))
                                if cap is not None:
                                    while cap[0] in ('ref', 'deref') or (cap[0] == 'call' and cap[2] and re.search(r'(::deref|::as_ref|::as_slice|::borrow)$', cap[1])):
                                        cap = strip(cap[1] if cap[0] in ('ref', 'deref') else cap[2][0])
                                    if find_calls(cap, 'Module::scope'):
                                        continue
                                    if cap[0] == 'arg' and par.kind != 'Closure' and passed_scope(par, cap[1], depth + 1)[0]:
                                        continue
                            return False, len(cs_)
                        return True, len(cs_)
                    ok, ncs = passed_scope(holder, pi)
                    how = 'parameter %d of %s; its %d callers all pass Module::scope() (possibly through their own parameter)' % (pi, short(holder.id), ncs)
            ctx.ob(['C11', 'C19', 'C10'] + (['C08'] if 'enum_definition' in g.id else []), 'R-EXPR', 'C11-D1|scope-of|%s' % cid(g.id), ok, 'the scope handed to the resolver is the referring module\'s own scope(): %s' % how, loc(c['span']))
    # the module whose scope is used is the module that owns the item: get_module_for_path(resolvee_path)
    gm = [f for f in P.fns.values() if f.id.endswith('SemanticState::get_module_for_path')]
    okm = False
    if gm:
        ex = gm[0].exits()
        e = [x['expr'] for x in ex if x['kind'] == 'passthrough']
        okm = len(e) == 1 and e[0][0] == 'call' and re.search(MAPM('get'), e[0][1]) and find_calls(e[0], 'ItemPath::parent')
    ctx.ob(['C11', 'C19'], 'R-EXPR', 'C11-D1|owning-module', bool(okm), 'the module of an item is modules[path.parent()]', loc(gm[0].span) if gm else '')
    # D2: backend never resolves names again
    be = [f.id for f in P.fns.values() if f.id.startswith('backends::')]
    reach = set()
    for b in be:
        reach |= P.closure_of_calls(b)
    bad = [x for x in reach if re.search(r'TypeRegistry::(resolve_string|resolve_grammar_type)', x)]
    ctx.ob(['C11', 'C19'], 'R-REACH', 'C11-D2|backend-does-not-resolve', not bad and len(be) >= 5, 'the backend never looks a short name up again; it prints the path stored in Type::Raw (%d backend functions)' % len(be))
    # D3 candidate order
    xp = lambda e_: expand(rs, e_, keep=lambda ty: ty.startswith('std::vec::Vec<&'))     # vectors of scope entries stay visible as locals
    e = xp(rs.exits()[0]['expr']) if len(rs.exits()) == 1 else None
    ok = False
    det = ''
    def polarity(cl, depth=0):
        """True if the closure / function value `cl` tests registry membership of its argument, False if it tests the negation,
        None otherwise (also through a closure that only calls another closure)"""
        cl = strip(cl)
        if depth > 3 or cl[0] not in ('closure', 'fnref') or cl[1] not in P.fns:
            return None
        cf = P.fns[cl[1]]
        ex = cf.exits()
        if len(ex) != 1 or cf.switches():
            return None
        caps = cl[2] if cl[0] == 'closure' and len(cl) > 2 else []

        def of(e):
            e = strip(e)
            if is_membership(P, e):
                return True
            if e[0] == 'un' and e[1] == 'Not':
                r = of(e[2])
                return None if r is None else (not r)
            if e[0] == 'call' and e[1] in P.fns and P.fns[e[1]].kind == 'Closure':
                return polarity(('closure', e[1], []), depth + 1)      # a call of a named closure, resolved by the compiler
            if e[0] == 'call' and re.search(r'ops::(Fn|FnMut|FnOnce)::call(_mut|_once)?$', e[1]) and e[2]:
                fv = strip(e[2][0])
                while fv[0] in ('ref', 'deref'):
                    fv = strip(fv[1])
                if fv[0] == 'upvar' and fv[1] < len(caps):
                    inner = strip(caps[fv[1]])
                    while inner[0] in ('ref', 'deref'):
                        inner = strip(inner[1])
                    if inner[0] == 'var':
                        # the captured closure value: its single definition in the creator
                        par = P.fns.get(cf.parent)
                        if par is not None:
                            ds = par.init_of(inner[1])
                            if len(ds) == 1:
                                inner = strip(ds[0])
                    return polarity(inner, depth + 1)
            return None
        return of(expand(cf, ex[0]['expr']))

    def scope_part(it, want_types):
        """`it` iterates exactly the entries of the scope parameter that are (want_types) / are not registered types, in scope order
        apart from at most one rev(): partition(..).0 / .1, or filter(scope.iter(), <membership test with that polarity>).
        Returns (ok, number of rev)"""
        return scope_part_rest(strip(it), want_types, 0, False)

    def scope_part_rest(it, want_types, revs, seen_part):
        while True:
            if it[0] == 'call' and it[2] and re.search(r'(IntoIterator::into_iter|Iterator::copied|Iterator::cloned|slice::<impl \[T\]>::iter|::deref|::as_slice)$', it[3] if len(it) > 3 else it[1]):
                it = strip(it[2][0])
                continue
            if is_call(it, 'Iterator::rev'):
                revs += 1
                it = strip(it[2][0])
                continue
            if is_call(it, 'Iterator::filter') and len(it[2]) == 2 and not seen_part:
                if polarity(it[2][1]) is not want_types:
                    return False, revs
                seen_part = True
                it = strip(it[2][0])
                continue
            break
        if it[0] == 'var' and loop_built(rs, it[1]) is None:
            it2 = strip(expand(rs, it))
            if it2 != it:
                it = it2
                return scope_part_rest(it, want_types, revs, seen_part)
        if it[0] == 'var' and not seen_part:
            # the partition written as a loop: `for ip in scope { if registered(ip) { types.push(ip) } else { modules.push(ip) } }`
            from mirlib import _edge_conds
            lb = loop_built(rs, it[1])
            if lb is not None:
                src = strip(lb['source'])
                while src[0] == 'call' and src[2] and re.search(r'(IntoIterator::into_iter|slice::<impl \[T\]>::iter|::deref|::as_slice)$', src[3] if len(src) > 3 else src[1]):
                    src = strip(src[2][0])
                el = strip(lb['elem'])
                is_el = el[0] == 'payload' and el[2] == 'Some' and is_call(strip(el[1]), 'Iterator::next')
                h_, body_, _l = lb['loop']
                cs_ = [(c_, lab_) for b_, c_, lab_ in _edge_conds(rs, lb['push']) if b_ in body_]
                okc = len(cs_) == 1 and cs_[0][1] in (True, False) and is_membership(P, strip(xp(cs_[0][0]))) and (cs_[0][1] is want_types) and \
                    any(strip(y) == el for y in walk(xp(cs_[0][0])) if isinstance(y, tuple))
                return bool(src[0] == 'arg' and is_el and okc and lb['pushes'] == [lb['push']]), revs
            return False, revs
        if it[0] == 'field' and it[2] == ('0' if want_types else '1') and not seen_part:
            part = strip(it[1])
            if is_call(part, 'Iterator::partition') and len(part[2]) == 2 and polarity(part[2][1]) is True:
                src = strip(part[2][0])
                return (is_call(src, 'slice::<impl [T]>::iter') and strip(src[2][0])[0] == 'arg'), revs
            return False, revs
        return (seen_part and it[0] == 'arg'), revs

    def stage1_ok(first):
        # the hit of stage 1 is the result of the find itself (possibly mapped to Type::Raw), nothing filters it afterwards
        f0 = strip(first)
        while f0[0] == 'call' and f0[2] and re.search(r'Option::<T>::(map|as_ref|cloned|copied)$', f0[1]):
            f0 = strip(f0[2][0])
        if not (f0[0] == 'call' and re.search(r'::find$', f0[3] if len(f0) > 3 else f0[1])):
            return False
        fnd = [f0]
        it = fnd[0][2][0]
        okp, nrev = scope_part(xp(it), True)
        ok1 = okp and nrev == 1
        pr = fnd[0][2][1]
        okn = False
        if pr[0] == 'closure' and pr[1] in P.fns:
            ex = P.fns[pr[1]].exits()
            okn = len(ex) == 1 and find_calls(ex[0]['expr'], 'ItemPath::last') and any(x == ('upvar', 0) for x in walk(ex[0]['expr']))
        if not ok1 and pr[0] == 'closure' and pr[1] in P.fns:
            # no partition / filter in front: `scope.iter().rev().find(|ip| <registered(ip)> && ip.last() == name)` — the restriction to
            # registered entries is the first conjunct of the predicate
            it0, nrev0 = strip(xp(it)), 0
            while it0[0] == 'call' and it0[2] and re.search(r'(IntoIterator::into_iter|Iterator::copied|Iterator::cloned|slice::<impl \[T\]>::iter|::deref|::as_slice|Iterator::rev)$', it0[3] if len(it0) > 3 else it0[1]):
                nrev0 += 1 if is_call(it0, 'Iterator::rev') else 0
                it0 = strip(it0[2][0])
            pf_ = P.fns[pr[1]]
            sw_ = pf_.switches()
            if it0[0] == 'arg' and nrev0 == 1 and len(sw_) == 1 and len(pf_.exits()) == 2:
                c_ = strip(sw_[0]['cond'])
                mem = None
                if c_[0] == 'call' and c_[1] in P.fns and P.fns[c_[1]].kind == 'Closure':
                    mem = polarity(('closure', c_[1], []))
                elif is_membership(P, c_):
                    mem = True
                te = dict((lab, tgt) for lab, tgt in sw_[0]['edges'])
                tx = [x for x in pf_.exits() if True in te and (x['block'] == te[True] or pf_.dominates(te[True], x['block']))]
                fx = [x for x in pf_.exits() if False in te and (x['block'] == te[False] or pf_.dominates(te[False], x['block']))]
                conj = len(tx) == 1 and len(fx) == 1 and strip(fx[0]['expr'])[:2] == ('int', 0) and bool(find_calls(expand(pf_, tx[0]['expr']), 'ItemPath::last')) and \
                    any(isinstance(x, tuple) and x and x[0] == 'upvar' for x in walk(tx[0]['expr'])) and is_call(strip(expand(pf_, tx[0]['expr'])), '::eq')
                if mem is True and conj:
                    return True
        return bool(ok1 and okn)

    def stage2_ok(ce, caps):
        """root::name first, then <module>::name for the scope modules in order; first registered path wins.  `caps` = the captures
        of the or_else closure (None when the search is written in the function itself)"""
        ch = find_calls(ce, 'Iterator::chain')
        if len(ch) != 1:
            return False
        a, b = ch[0][2][0], ch[0][2][1]
        root_first = is_call(a, 'iter::once') and bool(find_calls(a, 'ItemPath::empty'))
        if caps is not None:
            # in the or_else closure the module list (or the scope) is a captured value: put it back
            b = map_tree(b, lambda y: (strip(caps[y[1]]) if (isinstance(y, tuple) and y and y[0] == 'upvar' and y[1] < len(caps)) else y))
        okm, nrev2 = scope_part(xp(b), False)
        mods = okm and nrev2 == 0
        fnd2 = find_calls(ce, 'Iterator::find')
        jn = False
        for x in walk(ce):
            if isinstance(x, tuple) and x[0] == 'closure' and x[1] in P.fns:
                for y in P.fns[x[1]].exits():
                    if is_call(y['expr'], 'ItemPath::join'):
                        jn = True
        ck = False
        if fnd2:
            pr = fnd2[0][2][1]
            ck = pr[0] == 'closure' and pr[1] in P.fns and any(is_membership(P, y['expr']) for y in P.fns[pr[1]].exits())
        return bool(root_first and mods and jn and ck and not any(c_[3].endswith('Iterator::rev') for c_ in calls_in(ce)))

    if e and is_call(e, 'Option::<T>::or_else'):
        first, fb = e[2][0], e[2][1]
        det = show(first)[:200]
        ok1 = stage1_ok(first)
        ok2 = False
        if fb[0] == 'closure' and fb[1] in P.fns:
            cf = P.fns[fb[1]]
            ce = expand(cf, cf.exits()[0]['expr']) if len(cf.exits()) == 1 else None
            if ce:
                det += ' ;; ' + show(ce)[:300]
                ok2 = stage2_ok(ce, fb[2])
        ok = ok1 and ok2
    elif e is None and len(rs.exits()) == 2 and all(any(loop_built(rs, l_) is not None and loop_built(rs, l_)['loop'][0] == L_[0] for l_ in range(rs.nargs + 1, len(rs.raw['locals'])))
                                                   for L_ in rs.loops()):
        # the same two stages with an early return: `if let Some(p) = <stage 1> { return Some(Raw(p)) }  <stage 2>`
        xs = rs.exits()
        vals = [(x, strip(xp(x['expr']))) for x in xs]
        some = [(x, v) for x, v in vals if v[0] == 'agg' and v[1].endswith('Option::Some')]
        rest = [(x, v) for x, v in vals if not (v[0] == 'agg' and v[1].endswith('Option::Some'))]
        if len(some) == 1 and len(rest) == 1:
            x1, v1 = some[0]
            x2, v2 = rest[0]
            inner = strip(v1[2][0][1])
            hit = None
            if inner[0] == 'agg' and inner[1].endswith('Type::Raw') and inner[2]:
                pth = strip(inner[2][0][1])
                while pth[0] == 'call' and pth[2] and re.search(r'(::clone|::to_owned|::deref)$', pth[1]):
                    pth = strip(pth[2][0])
                if pth[0] == 'payload' and pth[2] == 'Some':
                    hit = strip(pth[1])
            if hit is not None:
                det = show(hit)[:200] + ' ;; ' + show(v2)[:300]
                # the early return sits on the Some edge of the test of stage 1, stage 2 on its None edge
                sw_ = [s_ for s_ in rs.switches() if s_['cond'][0] == 'discr' and strip(xp(s_['cond'][1])) == hit]
                ordered = False
                for s_ in sw_:
                    se = dict((lab, tgt) for lab, tgt in s_['edges'])
                    if 'Some' in se and 'None' in se and rs.dominates(se['Some'], x1['block']) and rs.dominates(se['None'], x2['block']):
                        ordered = True
                ok = ordered and stage1_ok(hit) and stage2_ok(v2, None)
    part_loops = {loop_built(rs, l_)['loop'][0] for l_ in range(rs.nargs + 1, len(rs.raw['locals'])) if loop_built(rs, l_) is not None}
    search_loops = [L_ for L_ in rs.loops() if L_[0] not in part_loops]
    if (e is None or not is_call(e, 'Option::<T>::or_else')) and not ok and 1 <= len(search_loops) <= 2:
        # the same search written as two `for` loops: first hit of stage 1, else first hit of stage 2, else None.  A hit is
        # delivered by `return Some(..)` or by `found = Some(..); break` with `found` returned after the loop; the restriction to
        # registered types / to modules may sit in the loop source (partition, filter) or in the body (`continue`).
        from r_panic import cycle_without
        Ls = sorted(search_loops, key=lambda L_: L_[0])
        mixed = len(Ls) == 1          # stage 1 as an iterator search with an early return, stage 2 as a loop
        L1, L2 = (Ls[0], Ls[0]) if mixed else Ls
        if not mixed and (not rs.dominates(L1[0], L2[0]) or L2[0] in L1[1]):
            L1, L2 = L2, L1
        staged = mixed or (rs.dominates(L1[0], L2[0]) and L2[0] not in L1[1] and L1[0] not in L2[1])
        # the values the function can return, with the block that produces each
        finals = []
        for x in rs.exits():
            for v in split_values(rs, x['expr']):
                finals.append((x, simplify(strip(v))))
        some_vals = [(x, v) for x, v in finals if v[0] == 'agg' and v[1].endswith('Option::Some')]
        none_vals = [(x, v) for x, v in finals if v[0] == 'agg' and v[1].endswith('Option::None')]
        other_vals = [(x, v) for x, v in finals if (x, v) not in some_vals and (x, v) not in none_vals]

        def elem_of(L):
            h_, body_, _ = L
            for bi in sorted(body_):
                t = rs.term(bi)
                if t['k'] == 'Call' and t.get('callee') and t['callee']['path'].endswith('Iterator::next'):
                    return ('payload', rs.expr_of_call(t), 'Some', 0)
            return None

        def stage(L):
            h_, body_, _ = L
            sty_, src_ = loop_source(rs, L)
            src_ = expand(rs, src_)
            el = elem_of(L)
            hits, skips = [], []
            for s_ in rs.switches():
                if s_['block'] not in body_ or (s_['cond'][0] == 'discr' and is_call(strip(s_['cond'][1]), 'Iterator::next')):
                    continue
                for lab, tgt in s_['edges']:
                    ks = rs.exit_kinds_from(tgt)
                    leaves = tgt not in body_ or not any(rs.reach(tgt, stop={h_}) & {h_})
                    # where does this edge go: straight back to the header (skip), or out of the loop with a value (hit)?
                    to_header = h_ in rs.reach(tgt, stop=set()) and tgt in body_ and all(b_ in body_ for b_ in rs.reach(tgt, stop={h_}))
                    writes = [c_ for c_ in rs.calls(lambda r: r['block'] in rs.reach(tgt, stop={h_}) and r['block'] != h_ and r['block'] in body_ and r['path'] and not re.search(r'(Iterator::next|::clone|::deref|::as_str|::last|::join|::into|::from|Option::<T>::map|::eq|::ne|contains_key|::contains|drop_in_place)$', r['path']))]
                    if ks == {'some'} and tgt not in body_ or (ks == {'some'} and not (rs.reach(tgt) & {h_})):
                        hits.append((expand(rs, s_['cond']), lab, s_['block'], tgt))
                    elif to_header and not writes and not (rs.reach(tgt, stop={h_}) - {h_} - {tgt}) - body_:
                        other = [t2 for l2, t2 in s_['edges'] if t2 != tgt]
                        # a pure skip: the other edge goes on to the hit test
                        skips.append((expand(rs, s_['cond']), lab, s_['block']))
            # `found = Some(..); break`: the hit edge dominates an assignment of Some(..) to a local that is returned after the loop
            for (x, v) in some_vals:
                pass
            hit_blocks = {sb for _c, _l, sb, _t in hits}
            skips = [k for k in skips if k[2] not in hit_blocks]
            return dict(src=src_, elem=el, hits=hits, skips=skips, body=body_, header=h_)

        S1, S2 = stage(L1), stage(L2)
        # found/break delivery: a Some value whose producing statement lies inside a loop body
        def hit_for(S, L):
            """(cond, label, result value) of the stage's single hit"""
            h_, body_, _ = L
            cands = []
            for (c_, lab, sb, tgt) in S['hits']:
                rv = [v for x, v in some_vals if rs.dominates(tgt, x['block'])]
                if len(rv) == 1:
                    cands.append((c_, lab, rv[0], sb))
            if cands:
                return cands
            # break form: `found = Some(R); break` — the assignment hangs off a switch edge of the body and leaves the loop
            for l_, ds_ in rs.defs().items():
                for d_ in ds_:
                    de = simplify(strip(rs.expr_of_def(d_)))
                    if not (de[0] == 'agg' and de[1].endswith('Option::Some') and any(v == de for x, v in some_vals)):
                        continue
                    if h_ in rs.reach(d_[0]):
                        continue            # not a break: the loop goes on after the assignment
                    for s_ in rs.switches():
                        if s_['block'] in body_ and not (s_['cond'][0] == 'discr' and is_call(strip(s_['cond'][1]), 'Iterator::next')):
                            for lab, tgt in s_['edges']:
                                if rs.dominates(tgt, d_[0]) and rs.pred(tgt) == [s_['block']] and not any(k[3] == s_['block'] and k[1] == lab for k in cands):
                                    cands.append((expand(rs, s_['cond']), lab, de, s_['block']))
            return cands
        H1, H2 = hit_for(S1, L1), hit_for(S2, L2)
        for S_, H_ in ((S1, H1), (S2, H2)):
            S_['skips'] = [k for k in S_['skips'] if k[2] not in {h[3] for h in H_}]     # the hit test's own fall-through is not a skip
        det = 'loop form [staged %s hits %d/%d finals %d/%d/%d]: %s ;; %s' % (staged, len(H1), len(H2), len(some_vals), len(none_vals), len(other_vals), show(S1['src'])[:160], show(S2['src'])[:200])
        ok1 = ok2 = False
        is_elem = lambda e_, S: S['elem'] is not None and strip(e_) == strip(S['elem'])
        has_elem = lambda e_, S: S['elem'] is not None and any(strip(y) == strip(S['elem']) for y in walk(e_) if isinstance(y, tuple))
        if staged and len(H1) == 1 and len(H2) == 1 and len(some_vals) == 2 and len(none_vals) >= 1 and not other_vals:
            every1 = not cycle_without(rs, S1['body'], S1['header'], {H1[0][3]} | {sb for _c, _l, sb in S1['skips']})
            every2 = not cycle_without(rs, S2['body'], S2['header'], {H2[0][3]} | {sb for _c, _l, sb in S2['skips']})
            # ---- stage 1: registered scope entries, last import first, whose last segment is the name
            src1 = S1['src']
            chain = [c_[3] for c_ in calls_in(src1)]
            part = find_calls(src1, 'Iterator::partition')
            one_rev = len([c_ for c_ in chain if c_.endswith('Iterator::rev')]) == 1
            no_other = not any(re.search(r'Iterator::(skip|take|step_by|chain|take_while|skip_while)$', c_) for c_ in chain)
            over_scope = any(strip(y)[0] == 'arg' and strip(y)[2] == 'scope' for y in walk(src1) if isinstance(y, tuple) and y)

            def member_closure(pc, positive):
                pol_ = polarity(pc)          # (also through `let is_type = |ip| ..;  .filter(|ip| is_type(ip))`)
                if pol_ is not None:
                    return pol_ is positive
                pf = predicate_fn(P, pc)
                if pf is None:
                    return False
                ex_ = [strip(expand(pf, x_['expr'])) for x_ in pf.exits()]
                if len(ex_) != 1 or pf.switches():
                    return False
                x_ = ex_[0]
                neg = False
                while x_[0] == 'un' and x_[1] == 'Not':
                    x_, neg = strip(x_[2]), not neg
                return is_membership(P, x_) and (neg != positive)
            reg_src = False
            if part:
                reg_src = member_closure(part[0][2][1], True) and is_call(strip(part[0][2][0]), 'slice::<impl [T]>::iter') and \
                    any(isinstance(y, tuple) and y[0] == 'field' and y[2] == '0' and find_calls(y, 'Iterator::partition') for y in walk(src1))
            flt1 = find_calls(src1, 'Iterator::filter')
            if not part and len(flt1) == 1:
                reg_src = member_closure(flt1[0][2][1], True)
            # or the restriction is a `continue` in the body: skipped exactly when the entry is not registered
            reg_body = [1 for c_, lab, sb in S1['skips'] if is_membership(P, strip(c_)) and lab is False and has_elem(c_, S1)]
            extra_skips1 = [1 for c_, lab, sb in S1['skips'] if not (is_membership(P, strip(c_)) and lab is False and has_elem(c_, S1))]
            registered_only = (reg_src and not S1['skips']) or (not part and not flt1 and len(reg_body) == 1 and not extra_skips1)
            c1, lab1, r1, _b = H1[0]
            okn = is_call(c1, '::eq') and lab1 is True and bool(find_calls(c1, 'ItemPath::last')) and any(isinstance(y, tuple) and y[0] == 'arg' and y[2] == 'name' for y in walk(c1)) and has_elem(c1, S1)
            okr = r1[2] and strip(r1[2][0][1])[0] == 'agg' and strip(r1[2][0][1])[1].endswith('Type::Raw') and has_elem(r1, S1) and not find_calls(r1, 'ItemPath::join')
            ok1 = bool(one_rev and no_other and over_scope and registered_only and okn and okr and every1)
            # ---- stage 2: root first, then the scope entries that are not registered types, in scope order: <entry>::name
            src2 = S2['src']
            ch = find_calls(src2, 'Iterator::chain')
            c2, lab2, r2, _b = H2[0]
            if len(ch) == 1:
                a_, b_ = ch[0][2][0], ch[0][2][1]
                root_first = is_call(a_, 'iter::once') and bool(find_calls(a_, 'ItemPath::empty'))
                chain2 = [c_[3] for c_ in calls_in(src2)]
                plain = not any(re.search(r'Iterator::(rev|skip|take|step_by|take_while|skip_while|map_while|scan|fuse|cycle)$', c_) for c_ in chain2)
                part2 = find_calls(b_, 'Iterator::partition')
                flt2 = find_calls(b_, 'Iterator::filter')
                mods = False
                if part2:
                    mods = member_closure(part2[0][2][1], True) and any(isinstance(y, tuple) and y[0] == 'field' and y[2] == '1' and find_calls(y, 'Iterator::partition') for y in walk(b_))
                elif len(flt2) == 1:
                    mods = member_closure(flt2[0][2][1], False) and any(strip(y)[0] == 'arg' and strip(y)[2] == 'scope' for y in walk(b_) if isinstance(y, tuple) and y)
                cand = [y for y in walk(c2) if is_call(y, 'ItemPath::join')]
                ck = is_membership(P, strip(c2)) and lab2 is True and len(cand) >= 1 and has_elem(cand[0][2][0], S2) and \
                    any(isinstance(y, tuple) and y[0] == 'arg' and y[2] == 'name' for y in walk(cand[0]))
                okr2 = bool(cand) and r2[2] and strip(r2[2][0][1])[0] == 'agg' and strip(r2[2][0][1])[1].endswith('Type::Raw') and strip(strip(r2[2][0][1])[2][0][1]) == strip(cand[0])
                ok2 = bool(root_first and plain and mods and ck and okr2 and every2 and not S2['skips'])
            if mixed:
                # stage 1 is the iterator search in front of the loop: `if let Some(p) = <find> { return Some(Raw(p)) }`
                ok1 = False
                for x1, v1 in some_vals:
                    if x1['block'] in S2['body']:
                        continue
                    inner = strip(v1[2][0][1]) if v1[2] else ('x',)
                    if not (inner[0] == 'agg' and inner[1].endswith('Type::Raw') and inner[2]):
                        continue
                    pth = strip(xp(inner[2][0][1]))
                    while pth[0] == 'call' and pth[2] and re.search(r'(::clone|::to_owned|::deref)$', pth[1]):
                        pth = strip(pth[2][0])
                    if not (pth[0] == 'payload' and pth[2] == 'Some'):
                        continue
                    hit = strip(pth[1])
                    for s_ in rs.switches():
                        if s_['cond'][0] == 'discr' and strip(xp(s_['cond'][1])) == hit:
                            se = dict((lab, tgt) for lab, tgt in s_['edges'])
                            if 'Some' in se and 'None' in se and rs.dominates(se['Some'], x1['block']) and rs.dominates(se['None'], S2['header']):
                                ok1 = stage1_ok(hit)
            det += ' ;; stage1 %s stage2 %s' % (ok1, ok2)
        ok = ok1 and ok2
    ctx.ob(['C11', 'C19', 'C10', 'C09', 'C05'], 'R-EXPR', 'C11-D3|candidate-order', ok,
           'candidates are tried as: imported types whose last segment is the name, last import first; else root::name (built-ins); else <module>::name for the scope modules in scope order; first hit wins: %s' % det, loc(rs.span))
    sc = [f for f in P.fns.values() if f.id.endswith('module::Module::scope')]
    oks = False
    if sc and len(sc[0].exits()) == 1:
        e = expand(sc[0], seq_chain(sc[0], sc[0].exits()[0]['expr']), keep=lambda ty: ty.startswith('std::vec::Vec<'))
        ch = find_calls(e, 'Iterator::chain')
        if len(ch) == 1:
            a, b = ch[0][2][0], ch[0][2][1]
            oks = is_call(a, 'iter::once') and any(strip(x) == ('field', ('arg', 1, 'self'), 'path') or (isinstance(x, tuple) and x[0] == 'field' and x[2] == 'path') for x in walk(a)) and \
                bool(find_calls(b, 'Module::uses')) and not any(re.search(r'Iterator::(rev|skip|take|filter|step_by|map_while|scan|take_while|skip_while|fuse|cycle)$', c_[3]) for c_ in calls_in(e))
            # the imports enter the scope as they are: nothing is added next to them or derived from them on the way
            for c_ in calls_in(b):
                if re.search(r'Iterator::(flat_map|filter_map|flatten|zip|chain|inspect|map_while|scan)$', c_[3]):
                    oks = False
                if c_[3].endswith('Iterator::map') and len(c_[2]) == 2:
                    pf_ = predicate_fn(P, c_[2][1])
                    ex_ = [strip(x_['expr']) for x_ in pf_.exits()] if pf_ is not None else []
                    pure_ = len(ex_) == 1 and not pf_.switches()
                    if pure_:
                        v_ = ex_[0]
                        while v_[0] == 'call' and v_[2] and re.search(r'(::clone|::to_owned|Deref>::deref|::borrow|::as_ref)$', v_[1]):
                            v_ = strip(v_[2][0])
                        pure_ = v_[0] in ('arg', 'carg')
                    if not pure_:
                        oks = False
    ctx.ob(['C11', 'C19', 'C13'], 'R-EXPR', 'C11-D3|scope-order', oks, 'scope() = own module path followed by the uses in source order', loc(sc[0].span) if sc else '')
    us = [f for f in P.fns.values() if f.id.endswith('module::Module::uses')]
    oku = bool(us) and len(us[0].exits()) == 1 and any(isinstance(x, tuple) and x[0] == 'field' and x[2] == 'uses' for x in walk(us[0].exits()[0]['expr']))
    ctx.ob(['C11'], 'R-EXPR', 'C11-D3|uses-source', oku, 'uses() is the parsed module\'s `uses` list itself', loc(us[0].span) if us else '')


# ------------------------------------------------------------------------------------------------
def registry_writers(ctx):
    """layering: the registry of items and the map of modules are written by SemanticState (registration, storing the result of a
    builder under the path it was asked for) and by the registry's own methods, never by a builder, the module, a helper of the
    type / enum / function layer or the backend.  A builder that edits *another* item's entry (its visibility, its state) makes
    that item's output depend on whoever happened to be resolved before it (C19 / C09)."""
    P = ctx.prog
    W = re.compile(r'TypeRegistry::(get_mut|add)$')
    WM = re.compile(r'(HashMap|BTreeMap)::<[^<>]*>::(get_mut|insert|entry|values_mut|iter_mut|remove|retain|clear|drain|extend)$')
    bad, n = [], 0
    for f in P.fns.values():
        if f.raw.get('derived'):
            continue
        base = re.sub(r'(::\{closure#\d+\})+$', '', f.id)
        for c in f.calls():
            p = c['path'] or ''
            full = (c['callee'].get('rfull') or c['callee'].get('full') or '') if c.get('callee') else ''
            hit = None
            if W.search(p):
                hit = short(p)
            elif WM.search(p) and re.search(r'(HashMap|BTreeMap)::<grammar::ItemPath, semantic::(module::Module|types::ItemDefinition)(, [^<>]*)?>', full):
                hit = 'map of ' + ('modules' if 'module::Module' in full else 'items') + '.' + p.split('::')[-1]
            if hit is None:
                continue
            n += 1
            allowed = base.startswith('semantic::semantic_state::SemanticState::') or base.startswith('semantic::type_registry::TypeRegistry::')
            if not allowed:
                bad.append('%s writes %s (%s)' % (short(base), hit, loc(c['span'])))
    ctx.ob(['C19', 'C09', 'C14', 'C10'], 'R-REACH', 'registry-writers', not bad and n >= 8,
           'the item registry and the module map are written only by SemanticState and by TypeRegistry\'s own methods (%d write sites): %s' % (n, bad[:3]))


def confinement(ctx):
    P = ctx.prog
    # D1 no global mutable state
    bad = [s for s in P.statics]
    ctx.ob(['C19', 'C09'], 'R-STATE', 'statics', not bad, 'no `static` item in non-test code (found %s)' % [s['path'] for s in bad])
    badc = [c for c in P.consts if re.search(r'Cell<|Mutex<|RwLock<|Atomic|OnceLock|OnceCell|LocalKey|LazyLock|Lazy<', c['ty'])]
    ctx.ob(['C19', 'C09'], 'R-STATE', 'interior-mutable-consts', not badc, 'no const/thread_local of an interior-mutable type (found %s)' % [c['path'] for c in badc])
    tls = []
    envs = []
    for f in P.fns.values():
        for bi in f.normal_blocks():
            for st in f.blocks[bi]['stmts']:
                if st['k'] == 'Assign' and st['rv']['k'] == 'ThreadLocalRef':
                    tls.append(f.id)
        for c in f.calls(lambda r: r['path'] and re.search(r'^std::(env::(var|vars|args|current_dir|set_var)|time::|process::id|thread::current|collections::hash_map::RandomState::new|random)', r['path'])):
            envs.append((cid(f.id), short(c['path'])))
    ctx.ob(['C19', 'C09'], 'R-STATE', 'thread-locals', not tls, 'no thread-local access in non-test code (%s)' % tls)
    envs_bad = [e for e in envs if not e[0].endswith('build_script')]
    ctx.ob(['C09', 'C19'], 'R-STATE', 'ambient-inputs', not envs_bad,
           'environment, clock, process and explicit RandomState are read only in build_script (cargo glue), never on the build path: %s' % sorted(set(envs)))
    # no interior-mutable state in any crate type (a memo/cache inside the registry or a module would make one module's
    # bindings depend on what was resolved before)
    badf = []
    nfields = 0
    for a in P.adts.values():
        for v in a['variants']:
            for fl in v['fields']:
                nfields += 1
                if re.search(r'Cell<|Mutex<|RwLock<|Atomic\w+|OnceLock<|OnceCell<|LazyLock<|Lazy<|UnsafeCell<|Rc<|Arc<', fl['ty']):
                    badf.append('%s.%s: %s' % (a['path'], fl['name'], fl['ty'][:60]))
    ctx.ob(['C19', 'C09', 'C11'], 'R-STATE', 'interior-mutable-fields', not badf and nfields >= 60,
           'no field of any crate type is interior-mutable or shared (%d fields examined): %s' % (nfields, badf[:3]))
    # module path = relative file path, component by component, unchanged
    fp = [f for f in P.fns.values() if f.id.endswith('grammar::ItemPath::from_path')]
    okfp = False
    det = ''
    if fp:
        f = fp[0]
        ex = [x for x in f.exits()]
        if len(ex) == 1:
            e0 = ex[0]['expr']
            # a vector filled by a push loop is the same sequence as iter().map().collect()
            e0 = map_tree(e0, lambda y: seq_chain(f, y) if (y and y[0] == 'var' and loop_built(f, y[1]) and not loop_built(f, y[1])['filtered']) else y)
            e = expand(f, e0, keep=lambda ty: ty.startswith('std::vec::Vec<'))
            det = show(e)[:200]
            chain = [c_[3] for c_ in calls_in(e)]
            cl = [x for x in walk(e) if isinstance(x, tuple) and x[0] == 'closure' and x[1] in P.fns]
            lbod = [x for x in walk(e) if isinstance(x, tuple) and x[0] == 'loopbody']
            okc = False
            ELEM_OK = r'(to_string_lossy|AsRef::as_ref|Into::into|From::from|Deref::deref|to_str|to_string|to_owned|into_owned|Option::<T>::unwrap\w*|Borrow::borrow|Iterator::next|IntoIterator::into_iter|Path::iter|Path::components|Path::with_extension)$'
            if len(lbod) == 1 and not cl:
                inner = [c_[3] for c_ in calls_in(expand(f, lbod[0][1]))]
                det += ' ;; ' + show(lbod[0][1])[:120]
                okc = all(re.search(ELEM_OK, c_) for c_ in inner) and any(c_.endswith('to_string_lossy') or c_.endswith('to_str') for c_ in inner) and \
                    any(c_.endswith('Iterator::next') for c_ in inner)
            if len(cl) == 1:
                cx = P.fns[cl[0][1]].exits()
                if len(cx) == 1:
                    inner = [c_[3] for c_ in calls_in(expand(P.fns[cl[0][1]], cx[0]['expr']))]
                    det += ' ;; ' + show(cx[0]['expr'])[:120]
                    okc = all(re.search(r'(to_string_lossy|AsRef::as_ref|Into::into|From::from|Deref::deref|to_str|to_string|to_owned|Option::<T>::unwrap\w*|Borrow::borrow)$', c_) for c_ in inner) and \
                        any(c_.endswith('to_string_lossy') or c_.endswith('to_str') for c_ in inner)
            okfp = okc and any(c_.endswith('Path::with_extension') for c_ in chain) and any(c_.endswith('Path::iter') or c_.endswith('Path::components') for c_ in chain) and \
                not any(re.search(r'Iterator::(rev|skip|take|filter|step_by|map_while|scan|take_while|skip_while|fuse|cycle)$', c_) for c_ in chain) and ('str', '') in list(walk(e))
    ctx.ob(['C14', 'C19', 'C11'], 'R-EXPR', 'from_path|components-unchanged', okfp,
           'a module path is the relative file path without extension, one segment per component, each component text unchanged: %s' % det, loc(fp[0].span) if fp else '')
    # D2 keyed access only inside name resolution
    res = [f for f in P.fns.values() if re.search(r'TypeRegistry::(resolve_string|resolve_grammar_type|padding_type)', f.id)]
    bad = []
    n = 0
    # the resolver functions, their closures, and the small registry accessors they call
    res_all = list(res)
    for f in res:
        for g_ in P.closures_of(f):
            if g_ not in res_all:
                res_all.append(g_)
    for f in list(res_all):
        for w in P.callees(f.id, kinds=('call',)):
            g_ = P.fns.get(w)
            if g_ is not None and g_ not in res_all and re.search(r'TypeRegistry::\w+$', g_.id) and not re.search(r'TypeRegistry::(resolve_\w+|padding_type)$', g_.id):
                res_all.append(g_)
    for f in res_all:
        for c in f.calls():
            full = (c['callee'] or {}).get('rfull') or ''
            if re.match(REGISTRY_MAP, full):
                n += 1
                if not re.search(r'::(contains_key|get)$', c['path']):
                    bad.append((cid(f.id), short(c['path'])))
    ctx.ob(['C19', 'C11'], 'R-ORDER', 'C19-D2|resolver-keyed-access-only', not bad and n >= 1,
           'inside name resolution the registry is consulted only by key (contains_key/get), %d accesses; never iterated: %s' % (n, bad))
    # D4 the backend prints a module from its own definition set
    be = [f for f in P.fns.values() if f.id.endswith('backends::rust::write_module')]
    if be:
        clo = P.closure_of_calls(be[0].id)
        bad = [x for x in clo if re.search(r'ResolvedSemanticState::modules$|SemanticState::(add_|build)', x)]
        ctx.ob(['C19'], 'R-REACH', 'C19-D4|writer-sees-one-module', not bad, 'write_module and its callees never enumerate the other modules: %s' % bad, loc(be[0].span))
        # registry access from the backend is by key only
        bad = []
        for x in clo:
            g = P.fns[x]
            if g.raw.get('derived'):
                continue
            for c in g.calls():
                full = (c['callee'] or {}).get('rfull') or ''
                if re.match(REGISTRY_MAP, full) and not re.search(r'::(contains_key|get)$', c['path']) and x.startswith('backends::'):
                    bad.append((x, full))
        ctx.ob(['C19'], 'R-ORDER', 'C19-D4|backend-registry-by-key', not bad, 'the backend reads registry entries by path only')
    else:
        ctx.fail_closed(['C19', 'C14'], 'R-ANCHOR', 'WM', 'write_module not found')


# ------------------------------------------------------------------------------------------------
def registration(ctx):
    P = ctx.prog
    ai = [f for f in P.fns.values() if f.id.endswith('SemanticState::add_item')]
    am = [f for f in P.fns.values() if f.id.endswith('SemanticState::add_module')]
    if not ai or not am:
        ctx.fail_closed(['C14', 'C19'], 'R-ANCHOR', 'AI', 'add_item/add_module not found')
        return
    ai, am = ai[0], am[0]
    where = loc(ai.span)
    ins = [c for c in ai.calls(lambda r: r['path'] and re.search(SETM('insert'), r['path']))]
    add = [c for c in ai.calls(lambda r: r['path'] and r['path'].endswith('TypeRegistry::add'))]
    oks = [x for x in ai.exits() if x['kind'] == 'ok']
    ok = len(ins) == 1 and len(add) == 1 and len(oks) == 1
    if ok:
        ok = unreachable_without(ai, oks[0]['block'], {ins[0]['block']}) and unreachable_without(ai, oks[0]['block'], {add[0]['block']})
        ie = ai.expr_of_call(ins[0]['term'])
        # set belongs to modules[parent(path)] and the inserted key is the item's own path
        gms = [c_ for c_ in calls_in(ie[2][0]) if re.search(MAPM('get_mut'), c_[1])]
        key_is_parent = False
        if len(gms) == 1:
            # the module is looked up under exactly path.parent() (seen through `?`, context and reference adapters), not under
            # something computed from it
            kx = strip(gms[0][2][1])
            while True:
                if kx[0] == 'try' or (kx[0] == 'payload' and kx[2] in ('Some', 'Ok', 'Continue')):
                    kx = strip(kx[1])
                elif kx[0] == 'call' and kx[2] and (kx[3].endswith('Context::with_context') or kx[3].endswith('Context::context') or
                                                    re.search(r'(::as_ref|::deref|::borrow|Option::<T>::(ok_or|ok_or_else|unwrap|expect))$', kx[1])):
                    kx = strip(kx[2][0])
                else:
                    break
            key_is_parent = is_call(kx, 'ItemPath::parent') and strip(kx[2][0])[0] == 'field' and strip(kx[2][0])[2] == 'path' and strip(strip(kx[2][0])[1])[0] == 'arg'
        okp = key_is_parent and any(isinstance(x, tuple) and x[0] == 'field' and x[2] == 'definition_paths' for x in walk(ie[2][0]))
        key = strip(ie[2][1])
        okk = key[0] == 'field' and key[2] == 'path' and strip(key[1])[0] == 'arg'
        ae = ai.expr_of_call(add[0]['term'])
        oka = strip(ae[2][1]) == strip(key[1]) if okk else False
        ok = ok and okp and okk and oka
    ctx.ob(['C14', 'C19'], 'R-PAIR', 'P2|registered-in-parent-module-and-registry', ok,
           'add_item puts the item\'s own path into definition_paths of modules[path.parent()] and the same item into the registry, both on every path to Ok', where)
    # TypeRegistry::add: key = item's own path
    ta = [f for f in P.fns.values() if f.id.endswith('TypeRegistry::add')]
    if ta:
        ic = [c for c in ta[0].calls(lambda r: r['path'] and re.search(MAPM('insert'), r['path']))]
        okt = False
        if len(ic) == 1:
            e = ta[0].expr_of_call(ic[0]['term'])
            k, v = strip(e[2][1]), strip(e[2][2])
            okt = k[0] == 'field' and k[2] == 'path' and strip(k[1]) == v
            # D3 silent overwrite
            d = ic[0]['term']['dest']
            used = any(u for u in uses_of_local(ta[0], d['local'])) if not d['proj'] else True
            guarded = any(is_call(s['cond'], 'contains_key') for s in ta[0].switches())
            ctx.ob(['C14'], 'R-ERR', 'C14-D3|registry-insert-checked', used or guarded,
                   'inserting into the type registry must notice an existing entry under the same path (duplicate type names, a user type named like a generated vftable struct); ' +
                   ('the previous entry is consulted' if (used or guarded) else 'the Option returned by HashMap::insert is discarded — the later definition silently replaces the earlier one'),
                   loc(ic[0]['span']))
        ctx.ob(['C14', 'C11'], 'R-EXPR', 'TR|keyed-by-own-path', okt, 'registry entries are keyed by the item\'s own path', loc(ta[0].span))
        # every call of add registers the item (or fails loudly): no path returns normally without the insert
        f_ = ta[0]
        okall = False
        if len(ic) == 1:
            rets = f_.return_blocks()
            okall = True
            for rb in rets:
                if not unreachable_without(f_, rb, {ic[0]['block']}):
                    # a way round the insert is acceptable only if it ends in Err
                    ks = set()
                    for x in f_.exits():
                        if not unreachable_without(f_, x['block'], {ic[0]['block']}):
                            ks.add(x['kind'])
                    if not ks or not ks <= {'err_own', 'err_prop'}:
                        okall = False
        ctx.ob(['C14', 'C09', 'C10'], 'R-DOM', 'TR|add-always-inserts', okall,
               'TypeRegistry::add registers the item on every path (an item that is silently not registered makes the result depend on the order of additions); the only acceptable way round the insert is an Err', loc(f_.span))
    # Module::new: impls collected into a map keyed by type path
    mn = [f for f in P.fns.values() if f.id.endswith('module::Module::new')]
    if mn:
        cs = [c for c in mn[0].calls(lambda r: r['gpath'] and r['gpath'].endswith('Iterator::collect') and re.search(r'(?:HashMap|BTreeMap)<grammar::ItemPath, grammar::FunctionBlock', ' '.join(r['callee'].get('gargs', []))))]
        ctx.ob(['C14', 'C05'], 'R-ERR', 'C14-D3|impl-blocks-not-merged', not cs,
               'impl blocks must not be collected into a map keyed by type path without noticing duplicates; ' +
               ('ok' if not cs else 'Module::new collects them with collect::<HashMap<_,_>>(): a second `impl T` block silently replaces the first, an impl of an unknown type is never looked at'),
               loc(cs[0]['span']) if cs else loc(mn[0].span))
    # add_module registers every definition and every extern type
    for fld, ty in (('definitions', 'grammar::ItemDefinition'), ('extern_types', '(grammar::Ident, grammar::Attributes)')):
        Ls = []
        for L in am.loops():
            sty, src = loop_source(am, L)
            if sty == "std::slice::Iter<'_, %s>" % ty:
                Ls.append((L, src))
        ok = False
        if len(Ls) == 1:
            L, src = Ls[0]
            # the registration may be done by a private method the loop body was moved into: it must call add_item on every path
            # to its Ok and propagate the error
            fam = method_family(P, am, exclude=('SemanticState::add_item',))
            regs = {ai.id}
            for h in fam[1:]:
                hc = [c for c in h.calls(lambda r: r['path'] == ai.id)]
                hok = [x for x in h.exits() if x['kind'] == 'ok']
                if len(hc) == 1 and hok and all(unreachable_without(h, x['block'], {hc[0]['block']}) for x in hok) and \
                        any(g.kind == 'reject' and g.pred[0] == 'fails' and find_calls(g.pred, 'add_item') for g in guards_of(h)):
                    regs.add(h.id)
            calls = [c for c in am.calls(lambda r: r['block'] in L[1] and r['path'] in regs)]
            ok = len(calls) == 1 and not cycle_without_except_err(am, L, calls[0]['block']) and any(isinstance(x, tuple) and x[0] == 'field' and x[2] == fld for x in walk(src))
            prop = any(g.kind == 'reject' and g.pred[0] == 'fails' and any(find_calls(g.pred, r_.split('::')[-1]) for r_ in regs) and g.block in L[1] for g in guards_of(am))
            ok = ok and prop
        ctx.ob(['C14', 'C10'], 'R-ITER', 'AM|all-%s-registered' % fld, ok, 'add_module registers every entry of module.%s (unadapted loop, add_item in every iteration, error propagated)' % fld, loc(am.span))
    # paths: module path joined with the item's name
    oks = False
    for h_ in method_family(P, am, exclude=('SemanticState::add_item',)):
      for c in h_.calls(lambda r: r['path'] == ai.id):
        e = h_.expr_of_operand(c['term']['args'][1])
        if e[0] == 'agg':
            p = dict(e[2]).get('path')
            if p is not None and find_calls(p, 'ItemPath::join'):
                j = find_calls(p, 'ItemPath::join')[0]
                if strip(j[2][0])[0] == 'arg':
                    oks = True
    ctx.ob(['C14', 'C19', 'C11'], 'R-EXPR', 'AM|item-path', oks, 'an item\'s path is its module\'s path joined with its name')
    # the module itself is inserted under its own path
    mi = [c for c in am.calls(lambda r: r['path'] and re.search(MAPM('insert'), r['path']))]
    okm = False
    if len(mi) == 1:
        e = am.expr_of_call(mi[0]['term'])
        okm = strip(e[2][1])[0] == 'arg' and bool(find_calls(e[2][2], 'Module::new'))
    ctx.ob(['C14', 'C19', 'C05'], 'R-EXPR', 'AM|module-under-own-path', okm, 'add_module stores the module under the path it was given')


def cycle_without_except_err(f, L, block):
    return cycle_without(f, L[1], L[0], {block})
