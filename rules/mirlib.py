"""mirlib — the resolved program as emitted by engines/pxmir, plus the graph analyses the
rules are written against: CFG (unwind edges dropped), dominators, post-dominators, natural
loops, whole-crate call graph, def-chain expression reconstruction, exit classification and
guard census.  Nothing here executes pyxis; everything is computed from the MIR facts."""
import json, os, re, sys
from collections import defaultdict, deque

TRY_BRANCH = 'std::ops::Try::branch'
FROM_RESIDUAL = 'std::ops::FromResidual::from_residual'

GENERIC_TRAITS = [(re.compile(r), t) for r, t in [
    (r'^syn::(parse::ParseBuffer::(<.*>::)?(parse|call|parse_terminated|fork)$|parse_str|parse2|parse::Parser|parse_file|punctuated::Punctuated)', ['syn::parse::Parse']),
    (r'^syn::parse::ParseBuffer::', []),
    (r'fmt::rt::Argument::<?.*new_display|ToString::to_string|fmt::Display', ['std::fmt::Display']),
    (r'fmt::rt::Argument::<?.*new_debug|fmt::Debug', ['std::fmt::Debug']),
    (r'Iterator::collect|FromIterator::from_iter|Extend::extend|iter::Iterator::unzip|Iterator::partition', ['std::iter::FromIterator', 'std::iter::Extend', 'std::default::Default']),
    (r'convert::Into::into|convert::From::from|Option::<T>::map$|Result::<T, E>::map$', ['std::convert::From', 'std::convert::Into']),
    (r'unwrap_or_default|or_default|Default::default|mem::take', ['std::default::Default']),
    (r'str::<impl str>::parse|FromStr::from_str', ['std::str::FromStr']),
    (r'AsRef::as_ref', ['std::convert::AsRef']),
    (r'quote::|ToTokens', ['quote::ToTokens', 'quote::IdentFragment', 'std::fmt::Display']),
    (r'IntoIterator::into_iter', ['std::iter::IntoIterator']),
    (r'HashMap::|HashSet::|hash_map::|hash_set::|slice::<impl \[T\]>::(sort|contains|binary)|cmp::|Vec::<T, A>::(clone|dedup|contains)|to_vec|to_owned|Clone::clone|Option::<T>::(cloned|copied|is_some_and|unwrap|expect|as_ref|as_deref|is_some|is_none)', []),
    (r'^std::(vec::Vec|boxed::Box|option::Option|result::Result|slice|iter::Iterator::(map|filter|enumerate|zip|chain|find|any|all|fold|flat_map|filter_map|rev|next|copied|cloned))', []),
    (r'^anyhow::', ['std::fmt::Display', 'std::fmt::Debug']),
]]


# ---------------------------------------------------------------------------------------
# Private helper functions the rules refer to by name, with the signature that identifies their role.  When a name is absent
# from the tree and exactly one function of the same module has the role's signature, that function is analysed under the
# role's name (a rename of a private function changes no behaviour and must change no verdict).  (module prefix, name, inputs, output)
ROLES = [
    ('backends::rust::', 'write_module', ['&std::path::Path', '&grammar::ItemPath', '&semantic::semantic_state::ResolvedSemanticState', '&semantic::module::Module'], 'std::result::Result<(), anyhow::Error>'),
    ('backends::rust::', 'build_item', ['&semantic::type_registry::TypeRegistry', '&semantic::types::ItemDefinition'], 'std::result::Result<proc_macro2::TokenStream, anyhow::Error>'),
    ('backends::rust::', 'build_type', ['&semantic::type_registry::TypeRegistry', '&grammar::ItemPath', 'usize', 'usize', 'semantic::types::Visibility', '&semantic::type_definition::TypeDefinition'], 'std::result::Result<proc_macro2::TokenStream, anyhow::Error>'),
    ('backends::rust::', 'build_enum', ['&grammar::ItemPath', 'usize', 'semantic::types::Visibility', '&semantic::enum_definition::EnumDefinition'], 'std::result::Result<proc_macro2::TokenStream, anyhow::Error>'),
    ('backends::rust::', 'build_function', ['&semantic::function::Function'], 'std::result::Result<proc_macro2::TokenStream, anyhow::Error>'),
    ('backends::rust::', 'build_extern_value', ['&semantic::types::ExternValue'], 'std::result::Result<proc_macro2::TokenStream, anyhow::Error>'),
    ('backends::rust::', 'str_to_ident', ['&str'], 'proc_macro2::Ident'),
    ('backends::rust::', 'sa_type_to_syn_type', ['&semantic::types::Type'], 'std::result::Result<syn::Type, anyhow::Error>'),
    ('backends::rust::', 'visibility_to_tokens', ['semantic::types::Visibility'], 'proc_macro2::TokenStream'),
    ('backends::rust::', 'doc_to_tokens', ['bool', 'std::option::Option<&str>'], 'proc_macro2::TokenStream'),
    ('backends::rust::', 'hex_literal', ['impl Into<usize>'], 'proc_macro2::Literal'),
    ('semantic::type_definition::vftable::', 'convert_grammar_functions_to_semantic_functions', ['&semantic::type_registry::TypeRegistry', '&semantic::module::Module', 'std::option::Option<usize>', '&[grammar::Function]'], 'std::result::Result<std::vec::Vec<semantic::function::Function>, anyhow::Error>'),
    ('semantic::type_definition::vftable::', 'build_type', ['&semantic::type_registry::TypeRegistry', '&grammar::ItemPath', 'semantic::types::Visibility', '&[semantic::function::Function]'], 'std::option::Option<semantic::types::ItemDefinition>'),
    ('semantic::type_definition::vftable::', 'function_to_region', ['&grammar::ItemPath', '&semantic::function::Function'], 'semantic::type_definition::Region'),
    ('semantic::type_definition::vftable::', 'get_optional_region_name_and_vftable', ['&semantic::type_registry::TypeRegistry', '&grammar::ItemPath', 'std::option::Option<&semantic::type_definition::Region>'],
     'std::result::Result<std::option::Option<(std::string::String, &semantic::type_definition::vftable::TypeVftable)>, anyhow::Error>'),
    ('semantic::type_definition::', 'build::get_defaultable_type_path', ['&semantic::types::Type'], 'std::option::Option<&grammar::ItemPath>'),
    ('util::', 'lcm', ['impl Iterator<Item = usize>'], 'usize'),
    ('util::', 'gcd', ['usize', 'usize'], 'usize'),
]


def _nolife(t):
    return re.sub(r"'\w+ ?", '', t)


def canonical_names(d):
    """[(actual id, role id)] for roles whose name is missing and whose signature identifies exactly one function"""
    ids = {f['id'] for f in d['fns']}
    taken = {m + n for m, n, _, _ in ROLES}
    out = []
    for mod, name, inputs, output in ROLES:
        if mod + name in ids:
            continue
        sig_ok = lambda f: f['kind'] != 'Closure' and not f.get('derived') and [_nolife(t) for t in f.get('inputs', [])] == inputs and \
            _nolife(f.get('output', '')) == output and f['id'] not in taken
        cands = [f['id'] for f in d['fns'] if sig_ok(f) and f['id'].startswith(mod) and '::' not in f['id'][len(mod):]]
        if not cands:
            # moved to another module or turned into a method: a function the pinned tree does not have, with this very signature
            known = _known_fns()
            cands = [f['id'] for f in d['fns'] if sig_ok(f) and known and f['id'] not in known]
        if len(cands) == 1:
            out.append((cands[0], mod + name))
            continue
        if not cands and len(set(inputs)) == len(inputs):
            # the same parameters in another order (a free function turned into a method takes `self` first)
            known = _known_fns()
            pc = [f for f in d['fns'] if f['kind'] != 'Closure' and not f.get('derived') and known and f['id'] not in known and f['id'] not in taken
                  and sorted(_nolife(t) for t in f.get('inputs', [])) == sorted(inputs) and _nolife(f.get('output', '')) == output]
            if len(pc) == 1:
                have = [_nolife(t) for t in pc[0]['inputs']]
                out.append((pc[0]['id'], mod + name, [have.index(t) for t in inputs]))
    return out


def permute_params(d, fid, perm):
    """reorder the parameters of function `fid` (new parameter i = old parameter perm[i]) in its body and at every call site"""
    f = next((x for x in d['fns'] if x['id'] == fid), None)
    if f is None or len(perm) != f['arg_count']:
        return
    n = f['arg_count']
    m = {1 + perm[i]: 1 + i for i in range(n)}
    for b in f['blocks']:
        for pl, role in _places(b['stmts']) + _places(b['term']):
            if pl['local'] in m:
                pl['local'] = m[pl['local']]
    for dbg in f['debug']:
        for pl, role in _places(dbg['place']):
            if pl['local'] in m:
                pl['local'] = m[pl['local']]
        if dbg.get('arg') is not None and (dbg['arg']) in m:
            dbg['arg'] = m[dbg['arg']]
    old_locals = list(f['locals'])
    for i in range(n):
        nl = dict(old_locals[1 + perm[i]])
        nl['i'] = 1 + i
        f['locals'][1 + i] = nl
    f['inputs'] = [f['inputs'][perm[i]] for i in range(n)]
    for g in d['fns']:
        for b in g['blocks']:
            t = b['term']
            c = t.get('callee') if t['k'] == 'Call' else None
            if c and (c.get('rpath') == fid or c.get('path') == fid) and len(t['args']) == n:
                t['args'] = [t['args'][perm[i]] for i in range(n)]


def _places(node, role='other', out=None):
    """every place dict in a MIR node with the role it plays: dest | operand | ref | other"""
    if out is None:
        out = []
    if isinstance(node, dict):
        if 'local' in node and 'proj' in node and isinstance(node.get('proj'), list):
            out.append((node, role))
            for e in node['proj']:
                _places(e, 'other', out)
            return out
        k = node.get('k')
        for key, v in node.items():
            if key in ('span', 'fn_span', 'callee'):
                continue
            r = 'other'
            if key in ('place', 'dest') and k in ('Assign', 'Call'):
                r = 'dest'
            elif key == 'place' and k in ('Copy', 'Move'):
                r = 'operand'
            elif key == 'place' and k in ('Ref', 'RawPtr'):
                r = 'ref'
            _places(v, r, out)
    elif isinstance(node, list):
        for v in node:
            _places(v, role, out)
    return out


KNOWN_FNS = None


def _known_fns():
    global KNOWN_FNS
    if KNOWN_FNS is None:
        try:
            with open(os.path.join(os.path.dirname(os.path.abspath(__file__)), '..', 'spec', 'known_fns.json')) as fh:
                KNOWN_FNS = set(json.load(fh)['fns'])
        except Exception:
            KNOWN_FNS = set()
    return KNOWN_FNS


def _retarget(t, f):
    """apply f to every block index of terminator t"""
    for key in ('target', 'otherwise'):
        if isinstance(t.get(key), int):
            t[key] = f(t[key])
    if t.get('targets'):
        t['targets'] = [[x[0], f(x[1])] for x in t['targets']]


def _term_succ(t):
    out = []
    for key in ('target', 'otherwise'):
        if isinstance(t.get(key), int):
            out.append(t[key])
    for x in t.get('targets') or []:
        out.append(x[1])
    return out


def _fn_consts(node, out=None):
    """every `fn` constant (function reference) in a MIR node"""
    if out is None:
        out = []
    if isinstance(node, dict):
        if 'fn' in node and isinstance(node['fn'], dict) and node.get('k') == 'Const':
            out.append(node['fn'])
        for key, v in node.items():
            if key not in ('span', 'fn_span'):
                _fn_consts(v, out)
    elif isinstance(node, list):
        for v in node:
            _fn_consts(v, out)
    return out


def _rename_strings(node, old, new):
    """replace the prefix `old` by `new` in every string of a JSON node (ids of closures that move with an inlined helper)"""
    if isinstance(node, dict):
        for k, v in node.items():
            if isinstance(v, str):
                if old in v:
                    node[k] = v.replace(old, new)
            else:
                _rename_strings(v, old, new)
    elif isinstance(node, list):
        for i, v in enumerate(node):
            if isinstance(v, str):
                if old in v:
                    node[i] = v.replace(old, new)
            else:
                _rename_strings(v, old, new)


MULTI_SITE_MAX = 4


def _sigshape(inputs, output):
    sh = lambda t: re.sub(r"'\w+ ?", '', re.sub(r'[A-Za-z_][\w]*::', '', str(t)))
    return (tuple(sh(t) for t in inputs), sh(output))


def _known_sigs():
    if not hasattr(_known_sigs, 'v'):
        try:
            _known_sigs.v = json.load(open(os.path.join(os.path.dirname(os.path.abspath(__file__)), '..', 'spec', 'known_fns.json'))).get('sigs', {})
        except Exception:
            _known_sigs.v = {}
    return _known_sigs.v


def inline_new_helpers(d):
    """a private function that the pinned tree does not have (spec/known_fns.json) and that is called from exactly one place is a
    helper extracted by a refactoring: its body is spliced back into the caller (locals and blocks renumbered, parameters
    assigned from the arguments, `return` continuing after the call; with `helper(..)?` the helper's own Err / Ok returns are
    connected directly to the caller's error return / continuation).  Works on the loaded facts in place; returns [(helper, caller, threaded)]."""
    known = set(_known_fns())
    if not known:
        return []
    done = []
    skip = set()
    for _round in range(48):
        byid = {f['id']: f for f in d['fns']}
        new_fns = [f for f in d['fns'] if f['kind'] in ('Fn', 'AssocFn') and (not f.get('public') or 'std::convert::From<' in f['id']) and not f.get('derived') and f['id'] not in known
                   and f['id'] not in skip]
        if not new_fns:
            break
        newids = {f['id'] for f in new_fns}
        gone_shapes = {_sigshape(*sg) for kid, sg in _known_sigs().items() if kid not in byid}
        sites = defaultdict(list)
        refs = defaultdict(int)
        for f in d['fns']:
            for bi, b in enumerate(f['blocks']):
                t = b['term']
                if t['k'] == 'Call' and t.get('callee'):
                    c = t['callee']
                    tgt = c.get('rpath') if c.get('rlocal') else (c['path'] if c.get('local') else None)
                    if tgt in newids:
                        sites[tgt].append((f['id'], bi))
                for c in _fn_consts(b['stmts']) + _fn_consts(b['term'].get('args', [])):
                    for key in ('path', 'rpath'):
                        if c.get(key) in newids:
                            refs[c[key]] += 1
        cand = None
        for f in new_fns:
            ns_ = len(sites.get(f['id'], []))
            if not (1 <= ns_ <= MULTI_SITE_MAX) or refs.get(f['id'], 0):
                continue
            if ns_ > 1 and re.match(r'^(backends|parser)::', f['id']):
                continue        # the template and grammar engines read helper calls themselves
            if ns_ > 1 and (len(f['blocks']) > 80 or any(g['id'].startswith(f['id'] + '::{closure#') for g in d['fns'])):
                continue        # copied per call site: small, closure-free helpers only
            if ns_ > 1 and _sigshape(f.get('inputs') or [], f.get('output') or '') in gone_shapes:
                continue        # a pinned function renamed or moved, not an extracted helper
            caller_id, cb = sites[f['id']][0]
            base_caller = re.sub(r'(::\{closure#\d+\})+$', '', caller_id)
            if base_caller == f['id'] or byid[caller_id].get('derived'):
                continue
            # helpers that call other new single-site helpers are inlined after those (leaves first)
            if any(ci == f['id'] or ci.startswith(f['id'] + '::{closure#') for tg, ss in sites.items() if tg != f['id'] and 1 <= len(ss) <= MULTI_SITE_MAX and not refs.get(tg, 0)
                   and tg not in skip for ci, _ in ss):
                continue
            if any(re.sub(r'(::\{closure#\d+\})+$', '', ci) == f['id'] for ci, _ in sites[f['id']]):
                continue        # recursive
            if any(b['term']['k'] not in ('Call', 'SwitchInt', 'Goto', 'Drop', 'Assert', 'Return', 'Unreachable', 'UnwindResume') for b in f['blocks']):
                continue
            cand = (f, byid[caller_id], cb)
            break
        if cand is None:
            break
        H, C, cb = cand
        call = C['blocks'][cb]['term']
        D, T = call['dest'], call.get('target')
        if T is None or len(call['args']) != H['arg_count']:
            skip.add(H['id'])
            continue
        # a result that the caller throws away stays a call (the error discipline rules look at calls whose result is dropped)
        used = any(pl['local'] == D['local'] and role != 'dest' for b in C['blocks'] for pl, role in _places(b['stmts']) + ([] if b['term']['k'] == 'Drop' else _places(b['term'])))
        if not used and D['local'] != 0 and re.match(r'^(std::result::Result|std::option::Option)<', H['locals'][0]['ty']):
            skip.add(H['id'])
            continue
        # closures of the helper become closures of the caller (ids renumbered after the caller's own)
        ncl = 0
        for g in d['fns']:
            m = re.match(re.escape(C['id']) + r'::\{closure#(\d+)\}$', g['id'])
            if m:
                ncl = max(ncl, int(m.group(1)) + 1)
        hcl = [g for g in d['fns'] if g['id'].startswith(H['id'] + '::{closure#')]
        if hcl:
            ks = sorted({int(re.match(re.escape(H['id']) + r'::\{closure#(\d+)\}', g['id']).group(1)) for g in hcl}, reverse=True)
            for k in ks:
                old_, new_ = H['id'] + '::{closure#%d}' % k, C['id'] + '::{closure#%d}' % (ncl + k)
                _rename_strings(H['blocks'], old_, new_)
                for g in hcl:
                    _rename_strings(g, old_, new_)
            for g in hcl:
                if g.get('parent') == H['id']:
                    g['parent'] = C['id']
        lb, bb = len(C['locals']), len(C['blocks'])
        # promoted constants of the helper move along
        pb = len(C.get('promoted') or [])
        hp = json.loads(json.dumps(H.get('promoted') or []))
        for p_ in hp:
            p_['i'] += pb
        C['promoted'] = (C.get('promoted') or []) + hp
        hblocks = json.loads(json.dumps(H['blocks']))
        if hp:
            for k in sorted({p_['i'] - pb for p_ in hp}, reverse=True):
                _rename_strings(hblocks, H['id'] + '::promoted[%d]' % k, C['id'] + '::promoted[%d]' % (pb + k))
        for l in H['locals']:
            nl = dict(l)
            nl['i'] = lb + l['i']
            C['locals'].append(nl)
        for dbg in H['debug']:
            nd = json.loads(json.dumps(dbg))
            nd['place']['local'] += lb
            nd['arg'] = None
            C['debug'].append(nd)
        # the helper's return place is the place the caller receives the result in (the caller's own return place for a tail call)
        direct = not D['proj']
        R0 = D['local'] if direct else lb
        for b in hblocks:
            for pl, role in _places(b['stmts']) + _places(b['term']):
                pl['local'] = R0 if (direct and pl['local'] == 0) else pl['local'] + lb
                for pe in pl['proj']:
                    # `xs[i]`: the index local of an Index projection is a local of the helper too
                    if isinstance(pe, dict) and pe.get('k') == 'Index' and isinstance(pe.get('local'), int):
                        pe['local'] = pe['local'] + lb
            _retarget(b['term'], lambda x: x + bb)
        sp = call['span']
        # parameters := arguments
        for i, a in enumerate(call['args']):
            C['blocks'][cb]['stmts'].append({'k': 'Assign', 'place': {'local': lb + 1 + i, 'proj': [], 'ty': H['locals'][1 + i]['ty']}, 'rv': {'k': 'Use', 'op': a}, 'span': sp, 'inl': True})
        C['blocks'][cb]['term'] = {'k': 'Goto', 'target': bb, 'span': sp}
        rty = H['locals'][0]['ty']
        # the `?` pattern at the call site:  T: Bv = branch(move D) -> T2;  T2: k = discriminant(Bv); switch [0: Tc, 1: Tb]
        thread = None
        try:
            if not direct or D['local'] == 0:
                raise KeyError('no threading')
            tb_ = C['blocks'][T]
            tt = tb_['term']
            if tt['k'] == 'Call' and tt['callee']['path'].endswith('Try::branch') and tt['args'][0].get('place', {}).get('local') == D['local'] \
                    and not any(pl['local'] == D['local'] for st in tb_['stmts'] for pl, _ in _places(st)):
                Bv, T2 = tt['dest']['local'], tt['target']
                t2 = C['blocks'][T2]
                # (besides the discriminant read, the block may set drop flags: constant assignments, repeated on the threaded paths)
                pre_ = t2['stmts'][:-1]
                if t2['term']['k'] == 'SwitchInt' and t2['stmts'] and t2['stmts'][-1]['rv']['k'] == 'Discriminant' and t2['stmts'][-1]['rv']['place']['local'] == Bv and \
                        all(st_['rv']['k'] == 'Use' and st_['rv']['op'].get('k') == 'Const' and not st_['place']['proj'] for st_ in pre_) and not tb_['stmts']:
                    arms = dict((int(x[0]), x[1]) for x in t2['term']['targets'])
                    Tc, Tb = arms.get(0), arms.get(1)
                    if Tb is None:
                        Tb = t2['term'].get('otherwise')
                    if Tc is None:
                        Tc = t2['term'].get('otherwise')
                    c0 = C['blocks'][Tc]['stmts'][0] if C['blocks'][Tc]['stmts'] else None
                    b_ = C['blocks'][Tb]
                    okc = c0 is not None and c0['rv']['k'] == 'Use' and c0['rv']['op'].get('place', {}).get('local') == Bv and not c0['place']['proj']
                    okb = b_['term']['k'] == 'Call' and b_['term']['callee']['path'].endswith('from_residual') and b_['term']['dest']['local'] == 0 and not b_['term']['dest']['proj']
                    if okc and okb:
                        thread = dict(x=c0['place'], Tc=Tc, Tr=b_['term']['target'], pre=pre_)

        except Exception:
            thread = None
        nblocks = hblocks
        if thread:
            # per definition of the helper's return place: clone what follows up to `return` and connect it
            extra = []

            def reach_from(start):
                seen, st = set(), [start]
                while st:
                    x = st.pop()
                    if x in seen:
                        continue
                    seen.add(x)
                    st.extend(y - bb for y in _term_succ(nblocks[x]['term']))
                return seen
            defsites = []
            for i, b in enumerate(nblocks):
                for si, st in enumerate(b['stmts']):
                    if st['k'] == 'Assign' and st['place']['local'] == R0 and not st['place']['proj']:
                        defsites.append((i, si))
                t = b['term']
                if t['k'] == 'Call' and t['dest']['local'] == R0 and not t['dest']['proj']:
                    defsites.append((i, 'term'))
            allclean = bool(defsites)
            plans = []
            for (i, si) in defsites:
                if si == 'term':
                    t = nblocks[i]['term']
                    kind = 'err-call' if t.get('callee') and t['callee']['path'].endswith('from_residual') and t.get('target') is not None else None
                else:
                    rv = nblocks[i]['stmts'][si]['rv']
                    kind = None
                    if rv['k'] == 'Aggregate' and rv.get('adt') == 'std::result::Result' and rv.get('variant') in ('Ok', 'Err') and len(rv['ops']) == 1:
                        kind = 'ok' if rv['variant'] == 'Ok' else 'err'
                if kind is None and si == 'term' and re.match(r'^std::result::Result<\(\), ', rty) and nblocks[i]['term'].get('target') is not None:
                    # a tail call whose Result is the helper's own (`self.add_item(..)` as the last expression of a unit helper): that
                    # path is not threaded, it hands its value to the caller's `?` as before (the unit unpacked there carries nothing)
                    kind = 'passthrough'
                if kind is None:
                    allclean = False
                    break
                # what follows the definition must not define the return place again
                if si == 'term':
                    region = reach_from(nblocks[i]['term']['target'] - bb)
                    rest = []
                else:
                    region = set()
                    for y in _term_succ(nblocks[i]['term']):
                        region |= reach_from(y - bb)
                    rest = nblocks[i]['stmts'][si + 1:]
                if any((j, sj) in defsites for j in region for sj in list(range(len(nblocks[j]['stmts']))) + ['term']) or \
                        any(st['k'] == 'Assign' and st['place']['local'] == R0 for st in rest):
                    allclean = False
                    break
                plans.append((i, si, kind, region))
            if allclean:
                base_new = bb + len(nblocks)
                for (i, si, kind, region) in plans:
                    order = sorted(region)
                    remap = {j: base_new + len(extra) + n for n, j in enumerate(order)}
                    clones = []
                    for j in order:
                        nb = json.loads(json.dumps(nblocks[j]))
                        if nb['term']['k'] == 'Return' and kind == 'passthrough':
                            nb['term'] = {'k': 'Goto', 'target': T, 'span': nb['term']['span']}
                        elif nb['term']['k'] == 'Return':
                            nb['term'] = {'k': 'Goto', 'target': thread['Tc'] if kind == 'ok' else thread['Tr'], 'span': nb['term']['span']}
                        else:
                            _retarget(nb['term'], lambda x: remap.get(x - bb, x))
                        clones.append(nb)
                    if si == 'term' and kind == 'passthrough':
                        t = nblocks[i]['term']
                        t['dest'] = json.loads(json.dumps(D))        # the call writes the caller's place directly
                        t['target'] = remap[t['target'] - bb]
                    elif si == 'term':
                        t = nblocks[i]['term']
                        t['dest'] = {'local': 0, 'proj': [], 'ty': C['locals'][0]['ty']}
                        t['target'] = remap[t['target'] - bb]
                    else:
                        st = nblocks[i]['stmts'][si]
                        op = st['rv']['ops'][0]
                        if kind == 'ok' and thread['x'] is None:
                            nblocks[i]['stmts'][si:si + 1] = json.loads(json.dumps(thread['pre']))
                        elif kind == 'ok':
                            nblocks[i]['stmts'][si] = {'k': 'Assign', 'place': json.loads(json.dumps(thread['x'])), 'rv': {'k': 'Use', 'op': op}, 'span': st['span'], 'inl': True}
                            nblocks[i]['stmts'][si + 1:si + 1] = json.loads(json.dumps(thread['pre']))
                        else:
                            nblocks[i]['stmts'][si] = {'k': 'Assign', 'place': {'local': 0, 'proj': [], 'ty': C['locals'][0]['ty']}, 'span': st['span'], 'inl': True,
                                                       'rv': {'k': 'Aggregate', 'agg': 'Adt', 'adt': 'std::result::Result', 'variant': 'Err', 'is_enum': True, 'fields': ['0'], 'ops': [op]}}
                        _retarget(nblocks[i]['term'], lambda x: remap.get(x - bb, x))
                    extra.extend(clones)
                nblocks = nblocks + extra
                # the continuation no longer unpacks the ControlFlow value
                if thread['x'] is not None and not any(k_ == 'passthrough' for (_i, _s, k_, _r) in plans):
                    C['blocks'][thread['Tc']]['stmts'] = C['blocks'][thread['Tc']]['stmts'][1:]
            else:
                thread = None
        if not thread:
            for b in nblocks:
                if b['term']['k'] == 'Return':
                    if not direct:
                        b['stmts'].append({'k': 'Assign', 'place': json.loads(json.dumps(D)), 'rv': {'k': 'Use', 'op': {'k': 'Move', 'place': {'local': R0, 'proj': [], 'ty': rty}}},
                                           'span': b['term']['span'], 'inl': True})
                    b['term'] = {'k': 'Goto', 'target': T, 'span': b['term']['span']}
        C['blocks'].extend(nblocks)
        # blocks that nothing reaches any more (the unpacking of the helper's Result, the helper's shared return ladder) are emptied
        seen_, st_ = set(), [0]
        while st_:
            x_ = st_.pop()
            if x_ in seen_:
                continue
            seen_.add(x_)
            st_.extend(_term_succ(C['blocks'][x_]['term']))
        for i_, b_ in enumerate(C['blocks']):
            if i_ not in seen_ and not b_.get('cleanup'):
                b_['stmts'] = []
                b_['term'] = {'k': 'Unreachable', 'span': b_['term']['span']}
        if len(sites[H['id']]) == 1:
            d['fns'] = [g for g in d['fns'] if g['id'] != H['id']]      # that was the last call site
        done.append((H['id'], C['id'], bool(thread)))
    return done


def sroa(d):
    """scalar replacement of struct locals that are filled field by field (`let mut flags = Flags::default(); flags.a = ..;
    .. Ok(flags)`): every field becomes a local of its own, the whole value is rebuilt as an aggregate where it is used.
    Grouping state variables into a struct then leaves every rule that follows definitions of locals unchanged."""
    adts = {a['path']: a for a in d['adts'] if a.get('kind') == 'Struct' and len(a.get('variants', [])) == 1}
    done = []
    for f in d['fns']:
        if f.get('derived') or f['id'].startswith('parser::'):
            continue        # (the grammar extractor reads the parser functions in their own terms)
        cands = [l['i'] for l in f['locals'] if l['i'] > f['arg_count'] and (l['ty'] in adts or (l['ty'].startswith('(') and l['ty'] != '()'))]
        if not cands:
            continue
        occ = defaultdict(list)
        for bi, b in enumerate(f['blocks']):
            for si, st in enumerate(b['stmts']):
                for pl, role in _places(st):
                    occ[pl['local']].append((bi, si, pl, role))
            for pl, role in _places(b['term']):
                occ[pl['local']].append((bi, 'term', pl, role))
        preds = defaultdict(set)
        for bi, b in enumerate(f['blocks']):
            t = b['term']
            for key in ('target', 'otherwise'):
                if isinstance(t.get(key), int):
                    preds[t[key]].add(bi)
            for tg in t.get('targets', []) or []:
                preds[tg[1] if isinstance(tg, list) else tg].add(bi)
        for L in cands:
            os_ = occ.get(L, [])
            fstores = [o for o in os_ if o[3] == 'dest' and o[2]['proj'] and o[2]['proj'][0].get('k') == 'Field']
            wdefs = [o for o in os_ if o[3] == 'dest' and not o[2]['proj']]
            aggdefs = [o for o in wdefs if o[1] != 'term' and f['blocks'][o[0]]['stmts'][o[1]]['rv']['k'] == 'Aggregate'
                       and f['blocks'][o[0]]['stmts'][o[1]]['rv'].get('agg') in ('Adt', 'Tuple') and not f['blocks'][o[0]]['stmts'][o[1]]['rv'].get('is_enum')]
            # filled field by field, or built whole at several places and taken apart by the reader (`let (a, b) = if c { (x, y) } else { (z, w) }`)
            if not fstores and not (len(wdefs) >= 2 and len(aggdefs) == len(wdefs) and any(o[2]['proj'] for o in os_)):
                continue
            is_tuple = f['locals'][L]['ty'] not in adts
            if is_tuple and (len(aggdefs) != len(wdefs) or not aggdefs):
                continue
            ok = True
            for bi, si, pl, role in os_:
                if pl['proj']:
                    if pl['proj'][0].get('k') != 'Field':
                        ok = False
                elif role not in ('dest', 'operand'):
                    ok = False
                elif role == 'dest' and si == 'term':
                    tg = f['blocks'][bi]['term'].get('target')
                    if tg is None or len(preds[tg]) != 1:
                        ok = False
            if not ok:
                continue
            if is_tuple:
                ops0 = f['blocks'][aggdefs[0][0]]['stmts'][aggdefs[0][1]]['rv']['ops']
                if any(len(f['blocks'][o[0]]['stmts'][o[1]]['rv']['ops']) != len(ops0) for o in aggdefs):
                    continue
                adt = {'path': f['locals'][L]['ty'], 'variants': [{'name': 'tuple', 'fields': [{'name': str(i_), 'ty': (op_.get('place') or op_).get('ty', '?')} for i_, op_ in enumerate(ops0)]}]}
            else:
                adt = adts[f['locals'][L]['ty']]
            fields = adt['variants'][0]['fields']
            base = len(f['locals'])
            name = next((x['name'] for x in f['debug'] if x['place']['local'] == L and not x['place']['proj']), '_%d' % L)
            newl = {}
            for i, fd in enumerate(fields):
                idx = base + i
                newl[i] = idx
                f['locals'].append({'i': idx, 'ty': fd['ty'], 'span': f['locals'][L]['span'], 'sroa': [L, fd['name']]})
                f['debug'].append({'name': '%s.%s' % (name, fd['name']), 'place': {'local': idx, 'proj': [], 'ty': fd['ty']}, 'arg': None})
            sp = f['locals'][L]['span']
            # 1. field accesses
            for bi, si, pl, role in os_:
                if pl['proj']:
                    i = pl['proj'][0]['i']
                    pl['local'] = newl[i]
                    pl['proj'] = pl['proj'][1:]
            # 2. whole uses: rebuild the aggregate in front of the use
            ins = defaultdict(list)      # (block, position) -> statements to insert before
            for bi, si, pl, role in os_:
                if not pl['proj'] and pl['local'] == L and role == 'operand':
                    tmp = len(f['locals'])
                    f['locals'].append({'i': tmp, 'ty': f['locals'][L]['ty'], 'span': sp, 'sroa': [L, None]})
                    pl['local'] = tmp
                    st = {'k': 'Assign', 'place': {'local': tmp, 'proj': [], 'ty': f['locals'][L]['ty']}, 'span': sp, 'sroa': True,
                          'rv': {'k': 'Aggregate', 'agg': 'Tuple' if is_tuple else 'Adt', 'adt': adt['path'], 'variant': adt['variants'][0]['name'], 'is_enum': False,
                                 'fields': [] if is_tuple else [fd['name'] for fd in fields],
                                 'ops': [{'k': 'Copy', 'place': {'local': newl[i], 'proj': [], 'ty': fd['ty']}} for i, fd in enumerate(fields)]}}
                    ins[(bi, si)].append(st)
            # 3. whole definitions: split into the fields right after
            aggset = {(o[0], id(f['blocks'][o[0]]['stmts'][o[1]])) for o in aggdefs}
            for bi, si, pl, role in os_:
                if not pl['proj'] and pl['local'] == L and role == 'dest':
                    if si != 'term' and (bi, id(f['blocks'][bi]['stmts'][si])) in aggset:
                        # built whole from its parts: the parts go straight into the field locals
                        st0 = f['blocks'][bi]['stmts'][si]
                        names_ = st0['rv'].get('fields') or [str(i_) for i_ in range(len(st0['rv']['ops']))]
                        order_ = {fd['name']: i_ for i_, fd in enumerate(fields)}
                        sts = [{'k': 'Assign', 'place': {'local': newl[order_[nm_]], 'proj': [], 'ty': fields[order_[nm_]]['ty']}, 'span': st0['span'], 'sroa': True,
                                'rv': {'k': 'Use', 'op': op_}} for nm_, op_ in zip(names_, st0['rv']['ops']) if nm_ in order_]
                        st0['sroa_dead'] = True
                        ins[(bi, si + 1)] = sts + ins.get((bi, si + 1), [])
                        continue
                    sts = [{'k': 'Assign', 'place': {'local': newl[i], 'proj': [], 'ty': fd['ty']}, 'span': sp, 'sroa': True,
                            'rv': {'k': 'Use', 'op': {'k': 'Copy', 'place': {'local': L, 'proj': [{'k': 'Field', 'i': i, 'name': fd['name'], 'adt': adt['path']}], 'ty': fd['ty']}}}}
                           for i, fd in enumerate(fields)]
                    if si == 'term':
                        ins[(f['blocks'][bi]['term']['target'], 0)] = sts + ins.get((f['blocks'][bi]['term']['target'], 0), [])
                    else:
                        ins[(bi, si + 1)] = sts + ins.get((bi, si + 1), [])
            for bi, b in enumerate(f['blocks']):
                keys = [k for k in ins if k[0] == bi]
                if not keys:
                    continue
                out = []
                for si, st in enumerate(b['stmts']):
                    out.extend(ins.get((bi, si), []))
                    out.append(st)
                out.extend(ins.get((bi, len(b['stmts'])), []))
                out.extend(ins.get((bi, 'term'), []))
                b['stmts'] = [st for st in out if not st.get('sroa_dead')]
            done.append((f['id'], name, adt['path']))
    return done


class Program:
    def __init__(self, path):
        with open(path) as fh:
            text = fh.read()
        d = json.loads(text)
        self.renamed = canonical_names(d)
        self.renamed = [tuple(x) for x in self.renamed]
        perms = [(x[1], x[2]) for x in self.renamed if len(x) > 2]
        self.renamed = [(x[0], x[1]) for x in self.renamed]
        if self.renamed:
            for actual, role in self.renamed:
                text = re.sub(r'(?<![\w:])' + re.escape(actual) + r'(?![\w])', role, text)
                sa, sr = '::'.join(actual.split('::')[-2:]), '::'.join(role.split('::')[-2:])
                text = re.sub(r'(?<![\w:])' + re.escape(sa) + r'(?![\w])', sr, text)
            d = json.loads(text)
            for role_, perm_ in perms:
                permute_params(d, role_, perm_)
        # `x.into()` runs the crate's own `impl From<T> for U` when there is one: make that visible as the resolved callee
        ids_ = {f['id'] for f in d['fns']}
        for f in d['fns']:
            for b in f['blocks']:
                t = b['term']
                c = t.get('callee') if t['k'] == 'Call' else None
                if c and c['path'].endswith('convert::Into::into') and len(c.get('gargs') or []) == 2 and not c.get('rlocal'):
                    tgt = '<%s as std::convert::From<%s>>::from' % (c['gargs'][1], c['gargs'][0])
                    suffix = '<impl std::convert::From<%s> for %s>::from' % (c['gargs'][0], c['gargs'][1])
                    cands = [tgt] if tgt in ids_ else [i_ for i_ in ids_ if i_.endswith(suffix)]
                    if len(cands) == 1:
                        c['rpath'], c['rlocal'], c['via_into'] = cands[0], True, True
        self.inlined = inline_new_helpers(d)
        self.sroa = sroa(d)
        self.raw = d
        self.crate = d['crate']
        self.fns = {}
        for f in d['fns']:
            fn = Fn(self, f)
            self.fns[fn.id] = fn
        self.adts = {a['path']: a for a in d['adts']}
        self.const_fns = {}
        for c in d['consts']:
            if c.get('blocks'):
                self.const_fns[c['path']] = Fn(self, {'id': 'const ' + c['path'], 'kind': 'Const', 'parent': None, 'public': False, 'span': c['span'], 'body_span': c['span'],
                                                      'arg_count': 0, 'locals': c['locals'], 'debug': [], 'blocks': c['blocks'], 'promoted': [], 'inputs': [], 'output': c['ty']})
                for pb in c.get('promoted_bodies') or []:
                    self.const_fns['%s::promoted[%d]' % (c['path'], pb['i'])] = Fn(self, {
                        'id': 'const %s::promoted[%d]' % (c['path'], pb['i']), 'kind': 'Const', 'parent': None, 'public': False, 'span': c['span'], 'body_span': c['span'],
                        'arg_count': 0, 'locals': pb['locals'], 'debug': [], 'blocks': pb['blocks'], 'promoted': [], 'inputs': [], 'output': pb['locals'][0]['ty']})
        self.statics = d['statics']
        self.consts = d['consts']
        self.impls = d['impls']
        self._cg = None
        # trait-impl methods of local types, for conservative "generic-impl" call edges
        self.impl_methods = defaultdict(list)   # self type string -> [fn ids]
        for fn in self.fns.values():
            st = fn.raw.get('impl_self')
            if st and fn.raw.get('impl_trait'):
                self.impl_methods[st].append(fn.id)

    # ---- lookup helpers -----------------------------------------------------------
    def fn(self, suffix):
        """unique function whose id ends with `suffix` (ids are crate-relative def paths)"""
        c = [f for k, f in self.fns.items() if k == suffix or k.endswith('::' + suffix)]
        if len(c) != 1:
            raise LookupError('function %r: %d candidates %s' % (suffix, len(c), [f.id for f in c][:5]))
        return c[0]

    def find_fns(self, pred):
        return [f for f in self.fns.values() if pred(f)]

    def closures_of(self, fn, recursive=True):
        out = []
        for f in self.fns.values():
            if f.parent == fn.id:
                out.append(f)
                if recursive:
                    out.extend(self.closures_of(f, True))
        return out

    # ---- call graph ------------------------------------------------------------------
    def callgraph(self):
        if self._cg is not None:
            return self._cg
        cg = defaultdict(set)      # caller id -> set of (callee id, kind)
        local_types = set(self.adts.keys())
        for fn in self.fns.values():
            for bi, b in enumerate(fn.blocks):
                for op in fn.block_operands(bi):
                    if op.get('k') == 'Const' and 'fn' in op:
                        c = op['fn']
                        tgt = c.get('rpath') if c.get('rlocal') else (c['path'] if c.get('local') else None)
                        if tgt and tgt in self.fns:
                            cg[fn.id].add((tgt, 'fnref'))
                for st in b['stmts']:
                    if st['k'] == 'Assign' and st['rv']['k'] == 'Aggregate' and st['rv'].get('agg') == 'Closure':
                        cid = st['rv']['closure_id']
                        if cid in self.fns:
                            cg[fn.id].add((cid, 'closure'))
                t = b['term']
                if t['k'] == 'Call' and 'callee' in t:
                    c = t['callee']
                    tgt = None
                    if c.get('rlocal') and c.get('rpath') in self.fns:
                        tgt = c['rpath']
                    elif c.get('local') and c['path'] in self.fns:
                        tgt = c['path']
                    if tgt:
                        cg[fn.id].add((tgt, 'call'))
                    elif not c.get('rlocal') and not c.get('local'):
                        # external (generic) callee: may call back into trait impls of local types that
                        # occur in its generic arguments.  Where the callee tells which trait it needs, the
                        # edge is specific ('generic-impl'); otherwise every non-derived trait impl of the
                        # type is a possible target ('generic-any', used for reachability only).
                        pth = c.get('rpath') or c['path']
                        want = None
                        for rx, tr in GENERIC_TRAITS:
                            if rx.search(pth):
                                want = tr
                                break
                        for ga in c.get('gargs', []):
                            for lt in local_types:
                                if re.search(re.escape(lt) + r'(?![A-Za-z0-9_:])', ga):
                                    for mid in self.impl_methods.get(lt, []):
                                        m = self.fns[mid]
                                        if m.raw.get('derived'):
                                            continue
                                        tr = m.raw.get('impl_trait', '')
                                        if want is not None and any(tr.startswith(w) for w in want):
                                            cg[fn.id].add((mid, 'generic-impl'))
                                        elif want is None:
                                            cg[fn.id].add((mid, 'generic-any'))
                    elif c.get('local') and c['path'] not in self.fns and c.get('trait'):
                        # unresolved call of a local trait method: all impls
                        pass
        self._cg = cg
        return cg

    def callees(self, fid, kinds=None):
        return {t for (t, k) in self.callgraph().get(fid, ()) if kinds is None or k in kinds}

    def reachable_from(self, roots, kinds=None, stop=None):
        seen = set()
        dq = deque(roots)
        parent = {}
        while dq:
            x = dq.popleft()
            if x in seen:
                continue
            seen.add(x)
            if stop and x in stop:
                continue
            for y in self.callees(x, kinds):
                if y not in seen:
                    parent.setdefault(y, x)
                    dq.append(y)
        return seen, parent

    def call_path(self, roots, target, kinds=None):
        seen, parent = self.reachable_from(roots, kinds)
        if target not in seen:
            return None
        p = [target]
        while p[-1] in parent and p[-1] not in roots:
            p.append(parent[p[-1]])
        return list(reversed(p))

    def closure_of_calls(self, fid, kinds=None):
        """fid plus everything reachable from it in the call graph"""
        return self.reachable_from([fid], kinds)[0]


# ---------------------------------------------------------------------------------------
def short(path):
    """last two segments of a def path, generics stripped — for human-readable reports"""
    p = re.sub(r'<[^<>]*>', '', path)
    p = re.sub(r'<[^<>]*>', '', p)
    segs = [s for s in p.split('::') if s]
    return '::'.join(segs[-2:])


def loc(span):
    return '%s:%d' % (span['file'], span['line'])


class Fn:
    def __init__(self, prog, raw):
        self.prog = prog
        self.raw = raw
        self.id = raw['id']
        self.kind = raw['kind']
        self.parent = raw['parent']
        self.public = raw['public']
        self.blocks = raw['blocks']
        self.nargs = raw['arg_count']
        self.locals = raw['locals']
        self.span = raw['span']
        self.names = {}
        self.upvar_names = {}
        for d in raw['debug']:
            p = d['place']
            if not p['proj']:
                self.names.setdefault(p['local'], d['name'])
            else:
                # closure upvar: (*_1).N or _1.N
                fld = [e for e in p['proj'] if e['k'] == 'Field']
                if p['local'] == 1 and fld:
                    self.upvar_names[fld[0]['i']] = d['name']
        self._succ = None
        self._pred = None
        self._dom = None
        self._pdom = None
        self._defs = None
        self._exits = None

    def __repr__(self):
        return 'Fn(%s)' % self.id

    @property
    def file(self):
        return self.span['file']

    # ---- CFG ------------------------------------------------------------------------------
    def term(self, bi):
        return self.blocks[bi]['term']

    def succ(self, bi):
        if self._succ is None:
            self._build_cfg()
        return self._succ[bi]

    def pred(self, bi):
        if self._succ is None:
            self._build_cfg()
        return self._pred[bi]

    def _build_cfg(self):
        n = len(self.blocks)
        self._succ = [[] for _ in range(n)]
        self._pred = [[] for _ in range(n)]
        for i, b in enumerate(self.blocks):
            if b['cleanup']:
                continue
            t = b['term']
            k = t['k']
            out = []
            if k in ('Goto', 'Drop', 'Assert'):
                out = [t['target']]
            elif k == 'SwitchInt':
                out = [x[1] for x in t['targets']] + [t['otherwise']]
                d = t['discr']
                if d.get('k') in ('Copy', 'Move') and not d['place']['proj']:
                    # temp holding a named constant: `_n = const FORMAT_OUTPUT; switchInt(move _n)`
                    l = d['place']['local']
                    asg = [st['rv'] for bb in self.blocks for st in bb['stmts'] if st['k'] == 'Assign' and st['place']['local'] == l and not st['place']['proj']]
                    calls_ = [bb for bb in self.blocks if bb['term']['k'] == 'Call' and bb['term']['dest']['local'] == l]
                    if len(asg) == 1 and not calls_ and asg[0]['k'] == 'Use' and asg[0]['op'].get('k') == 'Const' and 'val' in asg[0]['op'] and l > self.nargs:
                        d = asg[0]['op']
                if d.get('k') == 'Const' and 'val' in d:
                    # branch on a compile-time constant (e.g. `if FORMAT_OUTPUT`): only the taken edge exists
                    hit = [x[1] for x in t['targets'] if x[0] == d['val']]
                    out = hit[:1] if hit else [t['otherwise']]
            elif k == 'Call':
                if t['target'] is not None:
                    out = [t['target']]
            seen = []
            for o in out:
                if o not in seen:
                    seen.append(o)
            self._succ[i] = seen
            for o in seen:
                self._pred[o].append(i)

    def normal_blocks(self):
        """blocks reachable from entry over non-unwind edges"""
        seen = set()
        st = [0]
        while st:
            x = st.pop()
            if x in seen:
                continue
            seen.add(x)
            st.extend(self.succ(x))
        return seen

    def return_blocks(self):
        return [i for i in self.normal_blocks() if self.term(i)['k'] == 'Return']

    def diverging_blocks(self):
        out = []
        for i in self.normal_blocks():
            t = self.term(i)
            if (t['k'] == 'Call' and t['target'] is None) or t['k'] == 'Unreachable':
                out.append(i)
        return out

    def reach(self, start, stop=()):
        """blocks reachable from `start` (inclusive) without leaving through a block in `stop`"""
        seen = set()
        st = [start]
        while st:
            x = st.pop()
            if x in seen:
                continue
            seen.add(x)
            if x in stop:
                continue
            st.extend(self.succ(x))
        return seen

    def reach_avoiding_edge(self, start, edge):
        seen = set()
        st = [start]
        while st:
            x = st.pop()
            if x in seen:
                continue
            seen.add(x)
            for y in self.succ(x):
                if (x, y) == edge:
                    continue
                st.append(y)
        return seen

    # ---- dominators -----------------------------------------------------------------------
    def dom(self):
        if self._dom is None:
            self._dom = _dominators(len(self.blocks), 0, self.succ, self.pred, self.normal_blocks())
        return self._dom

    def dominates(self, a, b):
        """block a dominates block b"""
        d = self.dom()
        return b in d and a in d[b]

    def pdom(self):
        if self._pdom is None:
            nb = self.normal_blocks()
            n = len(self.blocks)
            EXIT = n
            exits = [i for i in nb if not self.succ(i)]

            def succ_r(x):
                if x == EXIT:
                    return exits
                return self.pred(x)

            def pred_r(x):
                if x == EXIT:
                    return []
                s = list(self.succ(x))
                if not s:
                    s = [EXIT]
                return s
            self._pdom = _dominators(n + 1, EXIT, succ_r, pred_r, set(nb) | {EXIT})
        return self._pdom

    def postdominates(self, a, b):
        d = self.pdom()
        return b in d and a in d[b]

    def loops(self):
        """natural loops: list of (header, set(body blocks), [latches])"""
        out = {}
        for b in self.normal_blocks():
            for s in self.succ(b):
                if self.dominates(s, b):
                    body = {s, b}
                    st = [b]
                    while st:
                        x = st.pop()
                        if x == s:
                            continue
                        for p in self.pred(x):
                            if p not in body:
                                body.add(p)
                                st.append(p)
                    h = out.setdefault(s, [set(), []])
                    h[0] |= body
                    h[1].append(b)
        return [(h, v[0], v[1]) for h, v in sorted(out.items())]

    def has_irreducible_cycle(self):
        # any cycle not captured by natural loops: back edge (DFS) whose target does not dominate source
        color = {}
        bad = []

        def dfs(u):
            color[u] = 1
            for v in self.succ(u):
                if color.get(v, 0) == 0:
                    dfs(v)
                elif color[v] == 1 and not self.dominates(v, u):
                    bad.append((u, v))
            color[u] = 2
        sys.setrecursionlimit(10000)
        dfs(0)
        return bad

    # ---- operands & defs ------------------------------------------------------------------
    def block_operands(self, bi):
        b = self.blocks[bi]
        for st in b['stmts']:
            if st['k'] == 'Assign':
                yield from _rv_operands(st['rv'])
        t = b['term']
        if t['k'] == 'Call':
            for a in t['args']:
                yield a
            if 'fnptr' in t:
                yield t['fnptr']
        elif t['k'] == 'SwitchInt':
            yield t['discr']
        elif t['k'] == 'Assert':
            yield t['cond']

    def defs(self):
        """local -> list of full definitions (block, idx, kind, payload); kind in rv|call"""
        if self._defs is None:
            d = defaultdict(list)
            stores = defaultdict(list)
            for bi in sorted(self.normal_blocks()):
                b = self.blocks[bi]
                for si, st in enumerate(b['stmts']):
                    if st['k'] == 'Assign':
                        p = st['place']
                        if not p['proj']:
                            d[p['local']].append((bi, si, 'rv', st['rv'], st['span']))
                        else:
                            stores[p['local']].append((bi, si, 'rv', st, st['span']))
                t = b['term']
                if t['k'] == 'Call':
                    p = t['dest']
                    if not p['proj']:
                        d[p['local']].append((bi, 'term', 'call', t, t['span']))
                    else:
                        stores[p['local']].append((bi, 'term', 'call', t, t['span']))
            self._defs = d
            self._stores = stores
        return self._defs

    def stores(self):
        self.defs()
        return self._stores

    def local_ty(self, l):
        return self.locals[l]['ty']

    def const_value(self):
        """(const items only) the value of the initialiser: the expression assigned to the return place"""
        if not hasattr(self, '_cv'):
            self._cv = None
            try:
                ds = self.defs().get(0, [])
                if len(ds) == 1:
                    self._cv = expand(self, self.expr_of_def(ds[0]))
            except Exception:
                self._cv = None
        return self._cv

    def is_dropflag(self, l):
        ds = self.defs().get(l, [])
        return self.local_ty(l) == 'bool' and l not in self.names and len(ds) >= 2 and all(
            d[2] == 'rv' and d[3]['k'] == 'Use' and d[3]['op'].get('k') == 'Const' for d in ds)

    # ---- expression reconstruction --------------------------------------------------------
    def expr_of_operand(self, op, depth=0, seen=None):
        if depth > 400:
            return ('deep',)
        k = op.get('k')
        if k == 'Const':
            if 'fn' in op:
                c = op['fn']
                return ('fnref', c.get('rpath') or c['path'])
            if 'str' in op:
                return ('str', op['str'])
            if 'val' in op:
                return ('int', int(op['val']), op['ty'])
            # a promoted string literal (`x != "_"` compares with a &&str promoted by the compiler): show the literal
            m_ = re.search(r'::promoted\[(\d+)\]$', op.get('text', ''))
            if m_ and op['ty'].endswith('str'):
                pr = [p_ for p_ in (self.raw.get('promoted') or []) if p_['i'] == int(m_.group(1))]
                if pr and len(pr[0].get('strs', [])) == 1:
                    return ('str', pr[0]['strs'][0])
            # a promoted fieldless enum value (`x == Category::Defined` compares with a promoted &Category): the variant
            if m_:
                pr = [p_ for p_ in (self.raw.get('promoted') or []) if p_['i'] == int(m_.group(1))]
                if pr and len(pr[0].get('texts', [])) == 1:
                    ma = re.match(r'^Adt\(DefId\([^~]*~ \w+\[\w+\]::([\w:]+)\), (\d+), \[\], None, None\)$', pr[0]['texts'][0])
                    adt = self.prog.adts.get(ma.group(1)) if ma else None
                    if adt is not None and int(ma.group(2)) < len(adt['variants']) and not adt['variants'][int(ma.group(2))]['fields']:
                        return ('agg', ma.group(1) + '::' + adt['variants'][int(ma.group(2))]['name'], [])
            # a named `const` item of the crate whose initialiser was dumped: its value (also when that value sits in a promoted
            # body of the const: `const T: &[..] = &[..]`)
            cf = getattr(self.prog, 'const_fns', {}).get(op.get('text', '')) if m_ else None
            if cf is None:
                cf = getattr(self.prog, 'const_fns', {}).get(op.get('named'))
            if cf is not None and cf is not self and depth < 300:
                v = cf.const_value()
                if v is not None:
                    return v
            return ('const', op.get('text', ''), op['ty'])
        if k in ('Copy', 'Move'):
            return self.expr_of_place(op['place'], depth + 1, seen)
        return ('unknown', op.get('text', ''))

    def expr_of_place(self, place, depth=0, seen=None):
        base = self.expr_of_local(place['local'], depth + 1, seen)
        proj = place['proj']
        i = 0
        e = base
        while i < len(proj):
            pe = proj[i]
            pk = pe['k']
            if pk == 'Deref':
                pass
            elif pk == 'Field':
                e = _mk_field(e, pe['name'], pe['i'])
            elif pk == 'Downcast':
                if i + 1 < len(proj) and proj[i + 1]['k'] == 'Field':
                    e = _mk_vfield(e, pe['variant'], proj[i + 1]['i'], proj[i + 1]['name'])
                    i += 1
                else:
                    e = ('downcast', e, pe['variant'])
            elif pk == 'Index':
                e = ('index', e, self.expr_of_local(pe['local'], depth + 1, seen))
            elif pk == 'ConstantIndex':
                e = ('cindex', e, pe['offset'], pe['from_end'])
            elif pk == 'Subslice':
                e = ('subslice', e, pe['from'], pe['to'], pe['from_end'])
            i += 1
        return e

    def mut_borrowed(self):
        """locals whose own storage is mutably borrowed or partially stored to (so a single `let`
        initialiser is not their value later on).  Iterators that are only advanced through
        Iterator::next stay inlinable: next(into_iter(x)) is the readable form of a loop element."""
        if getattr(self, '_mutb', None) is not None:
            return self._mutb
        cand = defaultdict(list)     # local -> temps holding &mut local
        for bi in self.normal_blocks():
            for st in self.blocks[bi]['stmts']:
                if st['k'] != 'Assign':
                    continue
                rv = st['rv']
                if rv['k'] in ('Ref', 'RawPtr') and rv.get('mutbl'):
                    p = rv['place']
                    if not any(e['k'] == 'Deref' for e in p['proj']):
                        cand[p['local']].append(st['place']['local'] if not st['place']['proj'] else None)
        out = set()

        def only_next(t, d=0):
            """every use of reference temp t is Iterator::next(t) or a reborrow used that way"""
            if d > 4:
                return False
            uses = 0
            for bi in self.normal_blocks():
                tm = self.term(bi)
                for op in self.block_operands(bi):
                    if op.get('k') in ('Copy', 'Move') and op['place']['local'] == t:
                        uses += 1
                        if not (tm['k'] == 'Call' and tm.get('callee') and tm['callee']['path'].endswith('Iterator::next')
                                and tm['args'] and tm['args'][0].get('place', {}).get('local') == t):
                            return False
                for st in self.blocks[bi]['stmts']:
                    if st['k'] == 'Assign' and st['rv']['k'] in ('Ref', 'RawPtr', 'CopyForDeref') and st['rv']['place']['local'] == t:
                        uses += 1
                        p = st['rv']['place']
                        if [e['k'] for e in p['proj']] == ['Deref'] and not st['place']['proj']:
                            if not only_next(st['place']['local'], d + 1):
                                return False
                        else:
                            return False
            return uses > 0
        for l, temps in cand.items():
            ok = all(t is not None and only_next(t) for t in temps)
            if not ok:
                out.add(l)
        for l in self.stores():
            # partial stores through a reference (Deref first) do not change the local itself
            for (bi, si, kind, payload, span) in self.stores()[l]:
                p = payload['place'] if kind == 'rv' else payload['dest']
                if not (p['proj'] and p['proj'][0]['k'] == 'Deref'):
                    out.add(l)
        self._mutb = out
        return out

    def expr_of_local(self, l, depth=0, seen=None):
        if depth > 400:
            return ('deep',)
        memo = self.__dict__.setdefault('_memo', {})
        if l in memo:
            return memo[l]
        if 1 <= l <= self.nargs and not self.defs().get(l):
            if self.kind == 'Closure' and l == 1:
                r = ('env',)
            else:
                r = ('arg', l, self.names.get(l, '_%d' % l))
            memo[l] = r
            return r
        ds = self.defs().get(l, [])
        if len(ds) == 1 and l not in self.mut_borrowed() and not (1 <= l <= self.nargs):
            memo[l] = ('var', l, self.names.get(l, '_%d' % l))      # cycle guard
            r = self.expr_of_def(ds[0], depth + 1, seen)
            memo[l] = r
            return r
        r = ('var', l, self.names.get(l, '_%d' % l))
        memo[l] = r
        return r

    def init_of(self, l):
        """definitions (as expressions) of a multi-def / mutated local"""
        return [self.expr_of_def(d) for d in self.defs().get(l, [])]

    def expr_of_def(self, d, depth=0, seen=None):
        bi, si, kind, payload, span = d
        if kind == 'call':
            return self.expr_of_call(payload, depth + 1, seen)
        return self.expr_of_rvalue(payload, depth + 1, seen)

    def expr_of_call(self, t, depth=0, seen=None):
        args = [self.expr_of_operand(a, depth + 1, seen) for a in t['args']]
        if 'callee' in t:
            c = t['callee']
            path = c.get('rpath') or c['path']
            gen = c['path']
            out = ('call', path, args, gen, c.get('full', ''))
            full_ = c.get('full', '') or ''
            m_ = re.match(r'^<(.+) as std::convert::Into<std::option::Option<(.+)>>>::into$', full_) or \
                re.match(r'^<std::option::Option<(.+)> as std::convert::From<(.+)>>::from$', full_)
            if m_ and m_.group(1) == m_.group(2) and len(args) == 1:
                return ('agg', 'std::option::Option::Some', [('0', args[0])])      # `x.into()` where an Option<T> is wanted: Some(x)
            if path == 'anyhow::__private::not' and len(args) == 1:
                return ('un', 'Not', args[0])       # `ensure!(c, ..)` is `if !c { bail!(..) }`
            if path in _uncalled(self.prog) and depth < 200:
                # a constructor / builder the pinned code never calls: the value it constructs (see ctor_value)
                v = ctor_value(self.prog, out)
                if v is not None:
                    return v
            return out
        return ('callptr', self.expr_of_operand(t['fnptr'], depth + 1, seen), args)

    def expr_of_rvalue(self, rv, depth=0, seen=None):
        k = rv['k']
        E = lambda op: self.expr_of_operand(op, depth + 1, seen)
        if k == 'Use':
            return E(rv['op'])
        if k in ('Ref', 'RawPtr', 'CopyForDeref'):
            return self.expr_of_place(rv['place'], depth + 1, seen)
        if k == 'Cast':
            inner = E(rv['op'])
            ck = rv['cast']
            if ck in ('PointerCoercion', 'PtrToPtr', 'Transmute', 'Subtype') and rv['from'].lstrip('&').lstrip('mut ') == rv['to'].lstrip('&').lstrip('mut '):
                return inner
            if ck == 'PointerCoercion':
                return inner     # unsizing etc.: transparent for our purposes
            return ('cast', ck, rv['from'], rv['to'], inner)
        if k == 'BinaryOp':
            op = rv['op']
            return ('bin', op, E(rv['a']), E(rv['b']))
        if k == 'UnaryOp':
            return ('un', rv['op'], E(rv['a']))
        if k == 'Discriminant':
            return ('discr', self.expr_of_place(rv['place'], depth + 1, seen), tuple(rv.get('variants', ())))
        if k == 'Aggregate':
            agg = rv.get('agg')
            ops = [E(o) for o in rv['ops']]
            if agg == 'Adt':
                nm = rv['adt'] + ('::' + rv['variant'] if rv.get('is_enum') else '')
                return ('agg', nm, list(zip(rv['fields'], ops)))
            if agg == 'Tuple':
                return ('tuple', ops)
            if agg == 'Array':
                return ('array', ops)
            if agg == 'Closure':
                return ('closure', rv['closure_id'], ops)
            return ('agg', str(agg), list(zip([str(i) for i in range(len(ops))], ops)))
        if k == 'Repeat':
            return ('repeat', E(rv['op']), rv['n'])
        if k == 'ThreadLocalRef':
            return ('tls', rv['def'])
        return ('unknown', rv.get('text', k))

    # ---- exits ----------------------------------------------------------------------------
    def exits(self):
        """assignments of the return place: list of dict(block, kind, expr, span).
        kind: err_own | err_prop | ok | none | some | other | passthrough"""
        if self._exits is not None:
            return self._exits
        out = []
        for d in self.defs().get(0, []):
            bi, si, kind, payload, span = d
            e = self.expr_of_def(d)
            out.append({'block': bi, 'idx': si, 'kind': classify_ret(e), 'expr': e, 'span': span})
        self._exits = out
        return out

    def exit_kinds_from(self, start, avoid_edge=None):
        """kinds of the return-place assignments reachable from block `start`; traversal stops at
        the first assignment met on each path.  'diverge' for panics, 'unassigned' for a Return
        reached without assignment."""
        ex = {}
        for x in self.exits():
            ex.setdefault(x['block'], []).append(x)
        kinds = set()
        seen = set()
        st = [start]
        while st:
            b = st.pop()
            if b in seen:
                continue
            seen.add(b)
            if b in ex:
                for x in ex[b]:
                    kinds.add(x['kind'])
                continue
            t = self.term(b)
            if t['k'] == 'Return':
                kinds.add('unassigned')
            if (t['k'] == 'Call' and t['target'] is None):
                kinds.add('diverge')
            if t['k'] == 'Unreachable':
                continue
            for s in self.succ(b):
                if avoid_edge and (b, s) == avoid_edge:
                    continue
                st.append(s)
        return kinds

    # ---- branch conditions ------------------------------------------------------------------
    def switches(self):
        """every SwitchInt in normal blocks: dict(block, cond expr, edges=[(label, target)])"""
        out = []
        for bi in sorted(self.normal_blocks()):
            t = self.term(bi)
            if t['k'] != 'SwitchInt':
                continue
            cond = self.expr_of_operand(t['discr'])
            if cond[0] == 'var' and self.is_dropflag(cond[1]) and any(
                    self.term(x_)['k'] == 'Drop' and not self.blocks[x_]['stmts'] for x_ in [y_[1] for y_ in t['targets']] + [t['otherwise']] if isinstance(x_, int)):
                continue        # (a drop flag guards a Drop; a bool merged from the arms of a `matches!` does not)
            edges = []
            if t['discr_ty'] == 'bool':
                for v, tgt in t['targets']:
                    edges.append((v != '0', tgt))
                known = {e[0] for e in edges}
                rest = (True if False in known else False)
                edges.append((rest, t['otherwise']))
            elif cond[0] == 'discr':
                vs = cond[2]
                for v, tgt in t['targets']:
                    vi = int(v)
                    edges.append((vs[vi] if vi < len(vs) else v, tgt))
                covered = {e[0] for e in edges}
                rest = [x for x in vs if x not in covered]
                ot = t['otherwise']
                if self.term(ot)['k'] != 'Unreachable' or self.blocks[ot]['stmts']:
                    edges.append(('|'.join(rest) if rest else '_', ot))
            else:
                for v, tgt in t['targets']:
                    edges.append((v, tgt))
                edges.append(('_', t['otherwise']))
            out.append({'block': bi, 'cond': cond, 'edges': edges, 'span': t['span']})
        return out

    def calls(self, pred=None):
        """every Call terminator in normal blocks as dict(block, callee path, term)"""
        out = []
        for bi in sorted(self.normal_blocks()):
            t = self.term(bi)
            if t['k'] != 'Call':
                continue
            c = t.get('callee')
            path = (c.get('rpath') or c['path']) if c else None
            rec = {'block': bi, 'path': path, 'gpath': c['path'] if c else None, 'term': t,
                   'callee': c, 'span': t['span']}
            if pred is None or pred(rec):
                out.append(rec)
        return out


def _rv_operands(rv):
    k = rv['k']
    if k in ('Use', 'Cast', 'Repeat'):
        yield rv['op']
    elif k == 'BinaryOp':
        yield rv['a']
        yield rv['b']
    elif k == 'UnaryOp':
        yield rv['a']
    elif k == 'Aggregate':
        for o in rv['ops']:
            yield o


def _mk_field(e, name, idx):
    if e == ('env',):
        return ('upvar', idx)
    # field 0 of a checked-arithmetic tuple is the plain result
    if e[0] == 'bin' and e[1].endswith('WithOverflow'):
        if idx == 0:
            return ('bin', e[1][:-len('WithOverflow')], e[2], e[3])
        return ('overflowed', e)
    if e[0] == 'tuple' and idx < len(e[1]):
        return e[1][idx]
    if e[0] == 'agg':
        for fn_, fe in e[2]:
            if fn_ == name:
                return fe
    return ('field', e, name)


def _mk_vfield(e, variant, idx, name):
    if e[0] == 'call' and e[3] == TRY_BRANCH and variant == 'Continue':
        return ('try', e[2][0])
    if e[0] == 'call' and e[3] == TRY_BRANCH and variant == 'Break':
        return ('residual', e[2][0])
    if e[0] == 'agg' and e[1].endswith('::' + variant):
        for fn_, fe in e[2]:
            if fn_ == name:
                return fe
    return ('payload', e, variant, idx)


def classify_ret(e):
    k = e[0]
    if k == 'agg':
        nm = e[1]
        if nm.endswith('Result::Err'):
            return 'err_own'
        if nm.endswith('Result::Ok'):
            inner = e[2][0][1] if e[2] else None
            if inner and inner[0] == 'agg' and inner[1].endswith('Option::None'):
                return 'ok_none'
            if inner and inner[0] == 'agg' and inner[1].endswith('Option::Some'):
                return 'ok_some'
            return 'ok'
        if nm.endswith('Option::None'):
            return 'none'
        if nm.endswith('Option::Some'):
            return 'some'
        return 'other'
    if k == 'call':
        if e[3] == FROM_RESIDUAL:
            full = e[4]
            if full.startswith('<std::option::Option'):
                return 'none_prop'
            return 'err_prop'
        return 'passthrough'
    return 'other'


ERRKINDS = {'err_own', 'err_prop'}


def _dominators(n, entry, succ, pred, nodes):
    # iterative set-based dominators (graphs are small)
    nodes = set(nodes)
    order = []
    seen = set()
    st = [(entry, iter(succ(entry)))]
    seen.add(entry)
    post = []
    while st:
        x, it = st[-1]
        adv = False
        for y in it:
            if y in nodes and y not in seen:
                seen.add(y)
                st.append((y, iter(succ(y))))
                adv = True
                break
        if not adv:
            post.append(x)
            st.pop()
    order = list(reversed(post))
    dom = {x: None for x in order}
    dom[entry] = {entry}
    changed = True
    while changed:
        changed = False
        for x in order:
            if x == entry:
                continue
            ps = [dom[p] for p in pred(x) if p in dom and dom[p] is not None]
            if not ps:
                continue
            new = set.intersection(*ps) | {x}
            if dom[x] != new:
                dom[x] = new
                changed = True
    return {k: v for k, v in dom.items() if v is not None}


# ---------------------------------------------------------------------------------------
# expression utilities
def walk(e):
    """yield every sub-expression (pre-order)"""
    yield e
    if not isinstance(e, tuple):
        return
    for x in e[1:]:
        if isinstance(x, tuple):
            yield from walk(x)
        elif isinstance(x, list):
            for y in x:
                if isinstance(y, tuple) and len(y) == 2 and isinstance(y[0], str) and isinstance(y[1], tuple):
                    yield from walk(y[1])
                elif isinstance(y, tuple):
                    yield from walk(y)


def predicate_fn(P, pc, depth=0):
    """the in-crate function that decides a predicate argument: a closure, a function reference, or a closure/function that
    only forwards its parameter to another in-crate function (`|a| a.is_self()`)"""
    if pc[0] in ('closure', 'fnref') and pc[1] in P.fns:
        pf = P.fns[pc[1]]
    else:
        return None
    ex = pf.exits()
    if depth < 4 and len(ex) == 1 and not pf.switches():
        e = strip(ex[0]['expr'])
        if e[0] == 'call' and e[1] in P.fns and len(e[2]) == 1:
            inner = predicate_fn(P, ('fnref', e[1]), depth + 1)
            if inner is not None:
                return inner
    return pf


def calls_in(e):
    return [x for x in walk(e) if isinstance(x, tuple) and x and x[0] == 'call']


def mentions_call(e, frag):
    return any(frag in c[1] or frag in c[3] for c in calls_in(e))


def fields_in(e):
    return [x[2] for x in walk(e) if isinstance(x, tuple) and x and x[0] == 'field']


def vars_in(e):
    return [x for x in walk(e) if isinstance(x, tuple) and x and x[0] in ('var', 'arg')]


def show(e, names=True, depth=0):
    """compact human-readable rendering"""
    if not isinstance(e, tuple):
        return str(e)
    if depth > 14:
        return '…'
    k = e[0]
    S = lambda x: show(x, names, depth + 1)
    if k == 'int':
        return str(e[1])
    if k == 'str':
        return json.dumps(e[1])
    if k == 'const':
        return e[1]
    if k == 'fnref':
        return 'fn:' + short(e[1])
    if k == 'arg':
        return e[2]
    if k == 'var':
        return e[2]
    if k == 'env':
        return 'env'
    if k == 'upvar':
        return 'upvar%d' % e[1]
    if k == 'deep':
        return '…'
    if k == 'field':
        return '%s.%s' % (S(e[1]), e[2])
    if k == 'payload':
        return '%s(%s)' % (e[2], S(e[1])) if False else 'unwrap_%s(%s)' % (e[2], S(e[1]))
    if k == 'try':
        return 'try(%s)' % S(e[1])
    if k == 'residual':
        return 'residual(%s)' % S(e[1])
    if k == 'call':
        return '%s(%s)' % (short(e[1]), ', '.join(S(a) for a in e[2]))
    if k == 'callptr':
        return '(*%s)(%s)' % (S(e[1]), ', '.join(S(a) for a in e[2]))
    if k == 'bin':
        return '%s(%s, %s)' % (e[1], S(e[2]), S(e[3]))
    if k == 'un':
        return '%s(%s)' % (e[1], S(e[2]))
    if k == 'cast':
        return 'cast[%s %s→%s](%s)' % (e[1], e[2], e[3], S(e[4]))
    if k == 'discr':
        return 'discr(%s)' % S(e[1])
    if k == 'agg':
        return '%s{%s}' % (short(e[1]), ', '.join('%s: %s' % (f, S(x)) for f, x in e[2]))
    if k == 'tuple':
        return '(%s)' % ', '.join(S(x) for x in e[1])
    if k == 'array':
        return '[%s]' % ', '.join(S(x) for x in e[1])
    if k == 'closure':
        return 'closure<%s>(%s)' % (short(e[1]), ', '.join(S(x) for x in e[2]))
    if k == 'index':
        return '%s[%s]' % (S(e[1]), S(e[2]))
    if k == 'cindex':
        return '%s[%s%d]' % (S(e[1]), '-' if e[3] else '', e[2])
    if k == 'overflowed':
        return 'overflowed(%s)' % S(e[1])
    if k == 'downcast':
        return '(%s as %s)' % (S(e[1]), e[2])
    if k in ('is_none', 'is_some', 'fails', 'succeeds'):
        return '%s(%s)' % (k, S(e[1]))
    if k == 'variant':
        return 'is_%s(%s)' % (e[2], S(e[1]))
    if k == 'eqlit':
        return '%s == %s' % (S(e[1]), e[2])
    if k == 'upvar':
        return 'upvar%d' % e[1]
    if k == 'repeat':
        return '[%s; %s]' % (S(e[1]), e[2])
    if k == 'unknown':
        return '?%s' % (e[1],)
    return '%s' % (k,)


def strip(e):
    """drop value-preserving wrappers: clone, as_ref, as_deref, deref, borrow, into (identity), copied"""
    IDENT = ('::clone', 'AsRef::as_ref', 'Option::<T>::as_ref', 'Option::<T>::as_deref', 'Deref::deref',
             'Borrow::borrow', 'Option::<T>::copied', 'Option::<T>::cloned', 'String::as_str', 'to_owned',
             'ToString::to_string', 'Vec::<T, A>::as_slice', 'std::convert::Into::into', 'From::from', 'Option::<&T>::copied', 'Option::<&T>::cloned')
    while isinstance(e, tuple) and e:
        if e[0] == 'call' and len(e[2]) == 1 and any(e[1].endswith(s) or e[3].endswith(s) for s in IDENT):
            e = e[2][0]
        elif e[0] == 'cast' and len(e) == 5 and e[1] == 'Transmute' and str(e[2]).startswith('std::ptr::NonNull<') and isinstance(e[4], tuple) and \
                e[4][0] == 'field' and e[4][2] == 'pointer' and isinstance(e[4][1], tuple) and e[4][1][0] == 'field' and e[4][1][2] == '0':
            e = e[4][1][1]          # `*boxed` in MIR: the Box's Unique pointer transmuted to a raw pointer
        else:
            break
    return e


def expand(fn, e, depth=0, keep=None):
    """replace mutably-borrowed single-definition locals (iterators, builders) by their initialiser so that
    adapter chains become visible: find(_14, p) -> find(rev(into_iter(x)), p)"""
    if not isinstance(e, tuple) or depth > 30:
        return e
    if e[0] == 'var':
        ds = fn.defs().get(e[1], [])
        if keep is not None and keep(fn.local_ty(e[1])):
            return e
        if len(ds) == 1 and not (1 <= e[1] <= fn.nargs):
            return expand(fn, fn.expr_of_def(ds[0]), depth + 1, keep)
        return e
    out = []
    for x in e:
        if isinstance(x, tuple):
            out.append(expand(fn, x, depth + 1, keep))
        elif isinstance(x, list):
            out.append([(y[0], expand(fn, y[1], depth + 1, keep)) if (isinstance(y, tuple) and len(y) == 2 and isinstance(y[0], str) and isinstance(y[1], tuple))
                        else (expand(fn, y, depth + 1, keep) if isinstance(y, tuple) else y) for y in x])
        else:
            out.append(x)
    out = tuple(out)
    if out and out[0] == 'call':
        out = _iter_norm(out)
    if out and out[0] == 'call' and out[1] in _uncalled(fn.prog):
        v = ctor_value(fn.prog, out)
        if v is not None:
            return v
    return out


def _iter_norm(e):
    """one spelling for equivalent iterator searches: rfind(it, p) = find(rev(it), p); next(filter(it, p)) = find(it, p);
    next(map(filter(it, p), f)) = Option::map(find(it, p), f)"""
    path, args = e[1], e[2]
    full = e[4] if len(e) > 4 else path
    tp = e[3] if len(e) > 3 and isinstance(e[3], str) else path
    mk = lambda p_, a_: ('call', p_, a_, p_, p_)
    ends = lambda x_, suf: x_[1].endswith(suf) or (len(x_) > 3 and isinstance(x_[3], str) and x_[3].endswith(suf))
    if (path.endswith('DoubleEndedIterator::rfind') or tp.endswith('DoubleEndedIterator::rfind')) and len(args) == 2:
        return ('call', 'std::iter::Iterator::find', [mk('std::iter::Iterator::rev', [args[0]]), args[1]], 'std::iter::Iterator::find', full)
    if (path.endswith('Iterator::next') or tp.endswith('Iterator::next')) and len(args) == 1:
        r = strip(args[0])
        if r[0] == 'call' and ends(r, 'Iterator::filter') and len(r[2]) == 2:
            return ('call', 'std::iter::Iterator::find', [r[2][0], r[2][1]], 'std::iter::Iterator::find', full)
        if r[0] == 'call' and ends(r, 'Iterator::map') and len(r[2]) == 2:
            r2 = strip(r[2][0])
            if r2[0] == 'call' and ends(r2, 'Iterator::filter') and len(r2[2]) == 2:
                fnd = ('call', 'std::iter::Iterator::find', [r2[2][0], r2[2][1]], 'std::iter::Iterator::find', 'std::iter::Iterator::find')
                return ('call', 'std::option::Option::<T>::map', [fnd, r[2][1]], 'std::option::Option::<T>::map', 'std::option::Option::<T>::map')
    return e


def _uncalled(P):
    if not hasattr(P, '_unc'):
        try:
            with open(os.path.join(os.path.dirname(os.path.abspath(__file__)), '..', 'spec', 'known_fns.json')) as fh:
                P._unc = set(json.load(fh).get('uncalled', []))
        except Exception:
            P._unc = set()
    return P._unc


def ctor_value(P, e, depth=0, any_plain=False):
    """a call of a constructor / builder method of the crate that the pinned code never calls (`Function::new(..)
    .with_arguments(..)`, `Region::field(..)`, `ItemStateResolved::new(..)`) is a new spelling of a struct literal: the value it
    constructs, in the caller's terms — an aggregate, or the receiver with some fields replaced.  None when the callee is not a
    plain constructor (a loop, a branch, a fallible step)."""
    if depth > 6 or e[0] != 'call':
        return None
    if e[3].endswith('default::Default::default') and not e[2] and len(e) > 4:
        m = re.match(r'^<(.*) as std::default::Default>::default$', e[4] or '')
        return default_value(P, m.group(1)) if m else None
    if e[1] not in P.fns or (e[1] not in _uncalled(P) and not any_plain):
        return None
    H = P.fns[e[1]]
    if any_plain and e[1] not in _uncalled(P) and (H.kind == 'Closure' or re.sub(r'<.*$', '', H.raw.get('output', '')) not in P.adts):
        return None
    if H.loops() or H.switches() or len(H.exits()) != 1 or len(e[2]) != H.nargs:
        return None
    args = [_ctor_norm(P, a, depth + 1) for a in e[2]]
    x = H.exits()[0]
    v = strip(expand(H, x['expr']))
    # fields of parameters overwritten on the way (`mut self` builders)
    upd = {}
    for l, sts in H.stores().items():
        if not (1 <= l <= H.nargs):
            return None
        for (bi, si, kind, payload, span) in sts:
            if kind != 'rv':
                return None
            pr = payload['place']['proj']
            if len(pr) != 1 or pr[0].get('k') != 'Field':
                return None
            upd.setdefault(l, {})[pr[0]['name']] = subst_args(expand(H, H.expr_of_rvalue(payload['rv'])), args)
    if v[0] == 'arg' and v[1] in upd:
        base = strip(args[v[1] - 1])
        if base[0] == 'agg':
            flds = [(k, _std_conv_free(upd[v[1]][k]) if k in upd[v[1]] else val) for k, val in base[2]]
            return _ctor_norm(P, ('agg', base[1], flds), depth + 1)
        return ('update', base, sorted(upd[v[1]].items()))
    if upd:
        return None
    v = _into_option(H, v, e[4] if len(e) > 4 else '')
    res = _std_conv_free(simplify(subst_args(v, args)))
    # nested constructor calls (Self::default(), other builders) inside the constructed value
    def inner(x):
        if x and x[0] == 'call' and depth < 6:
            r_ = ctor_value(P, x, depth + 1)
            if r_ is not None:
                return r_
        return x
    return simplify(map_tree(res, inner))


def _split_generics(full):
    m = re.search(r'::<(.*)>$', full or '')
    if not m:
        return []
    out, depth, cur = [], 0, ''
    for ch in m.group(1):
        if ch in '<([':
            depth += 1
        elif ch in '>)]':
            depth -= 1
        if ch == ',' and depth == 0:
            out.append(cur.strip())
            cur = ''
        else:
            cur += ch
    if cur.strip():
        out.append(cur.strip())
    return out


def _into_option(H, v, full):
    """`param.into()` for a parameter `impl Into<Option<T>>`: Some(param) when the call site passes a T, param itself when it passes
    an Option<T> (the concrete types are the generic arguments of the constructor call)"""
    gargs = _split_generics(full)
    impls = [i for i, t in enumerate(H.raw.get('inputs', [])) if str(t).startswith('impl ')]
    if not gargs or len(gargs) < len(impls):
        return v
    conc = {i + 1: gargs[len(gargs) - len(impls) + k] for k, i in enumerate(impls)}

    def one(x):
        if x and x[0] == 'call' and len(x) > 3 and str(x[3]).endswith('convert::Into::into') and len(x[2]) == 1 and strip(x[2][0])[0] == 'arg':
            i = strip(x[2][0])[1]
            pty = str(H.raw.get('inputs', [])[i - 1]) if 1 <= i <= len(H.raw.get('inputs', [])) else ''
            if re.match(r'^impl (std::convert::)?Into<(std::option::)?Option<', pty) and i in conc and not conc[i].startswith('std::option::Option<'):
                return ('agg', 'std::option::Option::Some', [('0', x[2][0])])
        return x
    return map_tree(v, one)


def ctor_norm(P, e):
    """every constructor / builder call in `e` (of functions the pinned code never calls) replaced by the value it constructs;
    locals are left alone"""
    def one(x):
        if x and x[0] == 'call' and x[1] in _uncalled(P):
            v = ctor_value(P, x)
            if v is not None:
                return v
        return x
    return simplify(map_tree(e, one))


def _std_conv_free(e):
    """value-preserving std conversions written in a generic constructor (`name: impl Into<String>` -> `name.into()`) dropped"""
    def one(x):
        # (a conversion that runs one of the crate's own From impls has been resolved to that impl and is kept)
        if x and x[0] == 'call' and x[3].endswith('convert::Into::into') and x[2] and (x[1].endswith('convert::Into<U>>::into') or x[1].endswith('convert::Into::into')):
            return x[2][0]
        return x
    return map_tree(e, one)


def default_value(P, ty, depth=0):
    """the value `Default::default()` has for type `ty` when every impl involved is derived (or std's): an aggregate of defaults"""
    if depth > 4:
        return None
    if ty == 'bool':
        return ('int', 0, 'bool')
    if ty in ('usize', 'isize', 'u8', 'u16', 'u32', 'u64', 'i8', 'i16', 'i32', 'i64'):
        return ('int', 0, ty)
    if ty.startswith('std::option::Option<'):
        return ('agg', 'std::option::Option::None', [])
    if ty.startswith('std::vec::Vec<'):
        return ('call', 'std::vec::Vec::<T>::new', [], 'std::vec::Vec::<T>::new', 'std::vec::Vec::<T>::new')
    if ty == 'std::string::String':
        return ('call', 'std::string::String::new', [], 'std::string::String::new', 'std::string::String::new')
    adt = P.adts.get(ty)
    if adt and adt.get('kind') == 'Struct' and any(i.get('self_ty') == ty and (i.get('trait') or '').endswith('default::Default') and i.get('derived') for i in P.impls):
        flds = []
        for fd in adt['variants'][0]['fields']:
            v = default_value(P, fd['ty'], depth + 1)
            if v is None:
                return None
            flds.append((fd['name'], v))
        return ('agg', ty, flds)
    return None


def _ctor_norm(P, e, depth=0):
    if not isinstance(e, tuple) or depth > 8:
        return e
    if e and e[0] == 'call':
        # conversions into the very same type are the identity
        if e[3].endswith('convert::Into::into') and len(e) > 4 and e[2]:
            m = re.match(r'^<(.*) as std::convert::Into<(.*)>>::into$', e[4] or '')
            if m and m.group(1) == m.group(2):
                return _ctor_norm(P, e[2][0], depth + 1)
        v = ctor_value(P, e, depth)
        if v is not None:
            return v
    return e


ITER_FN = 'std::iter::Iterator::'


def _call(path, args):
    return ('call', path, list(args), path, path)


def loop_built(fn, l):
    """A Vec local that is built by `let mut v = Vec::new()/with_capacity(..); for x in SRC { ..; v.push(E); }` is the sequence
    SRC.map(|x| E).collect(): returns dict(source=iterator expression, elem=E, push=block, loop=(h, body, latches), filtered=bool)
    when local `l` has exactly this shape (one push site, inside exactly one loop driven by Iterator::next, on every trip that
    is not an early `continue`; the vector is not otherwise written), else None"""
    memo = fn.__dict__.setdefault('_loop_built', {})
    if l in memo:
        return memo[l]
    memo[l] = None
    if not re.match(r'^std::vec::Vec<', fn.local_ty(l)):
        return None
    ds = fn.defs().get(l, [])
    if len(ds) != 1:
        return None
    init = fn.expr_of_def(ds[0])
    if not (init[0] == 'call' and re.search(r'Vec::<T>::(new|with_capacity)$|Vec::<T, A>::(new|with_capacity)', init[1])):
        return None
    # temps holding `&mut l` (and reborrows of them): a call that receives one may write the vector
    mtemps = set()
    for bi in fn.normal_blocks():
        for st in fn.blocks[bi]['stmts']:
            if st['k'] == 'Assign' and st['rv']['k'] in ('Ref', 'RawPtr') and st['rv'].get('mutbl'):
                pl = st['rv']['place']
                if pl['local'] == l and not any(e_['k'] == 'Deref' for e_ in pl['proj']):
                    if st['place']['proj']:
                        return None
                    mtemps.add(st['place']['local'])
    changed = True
    while changed:
        changed = False
        for bi in fn.normal_blocks():
            for st in fn.blocks[bi]['stmts']:
                if st['k'] != 'Assign' or st['place']['proj'] or st['place']['local'] in mtemps:
                    continue
                rv = st['rv']
                src = None
                if rv['k'] in ('Ref', 'RawPtr') and rv['place']['local'] in mtemps:
                    src = rv['place']['local']
                if rv['k'] == 'Use' and rv['op'].get('k') in ('Copy', 'Move') and rv['op']['place']['local'] in mtemps:
                    src = rv['op']['place']['local']
                if src is not None:
                    mtemps.add(st['place']['local'])
                    changed = True
    if fn.stores().get(l):
        return None
    writes = []
    for c in fn.calls():
        if any(a.get('k') in ('Copy', 'Move') and a['place']['local'] in mtemps for a in c['term']['args']):
            writes.append(c)
    pushes = [c for c in writes if c['path'].endswith('Vec::<T, A>::push')]
    if not pushes or len(pushes) != len(writes) or len(pushes) > 6:
        return None
    pbs = {c['block'] for c in pushes}
    pb = pushes[0]['block']
    from_loops = [L for L in fn.loops() if pb in L[1]]
    if len(from_loops) != 1 or not all(b_ in from_loops[0][1] for b_ in pbs) or any(len([L for L in fn.loops() if b_ in L[1]]) != 1 for b_ in pbs):
        return None
    h, body, latches = from_loops[0]
    drv = None
    for bi in sorted(body):
        t = fn.term(bi)
        if t['k'] == 'Call' and t.get('callee') and t['callee']['path'].endswith('Iterator::next'):
            if drv is not None:
                return None
            drv = (bi, t)
    if drv is None:
        return None
    it = expand(fn, fn.expr_of_operand(drv[1]['args'][0]))
    it = strip(it)
    # `for x in <expr>` lowers to IntoIterator::into_iter(<expr>)
    if it[0] == 'call' and it[1].endswith('into_iter') and it[2]:
        inner = strip(it[2][0])
        sty = drv[1]['callee'].get('self_ty') or ''
        if inner[0] == 'call' and (inner[3].startswith(ITER_FN) or re.search(r'::(iter|iter_mut|into_iter|values|keys|chars|lines|enumerate)$', inner[1])):
            it = inner
        elif re.match(r"^std::slice::Iter<", sty):
            it = _call('core::slice::<impl [T]>::iter', [inner])
        elif re.match(r"^std::vec::IntoIter<", sty):
            it = _call('std::iter::IntoIterator::into_iter', [inner])
    # does every trip push?  a trip may skip the push (continue) -> filtered
    stack, seen, skipping = [s_ for s_ in fn.succ(h) if s_ in body and s_ not in pbs], set(), False
    while stack:
        x = stack.pop()
        if x == h:
            skipping = True
            break
        if x in seen or x in pbs:
            continue
        seen.add(x)
        stack.extend(s_ for s_ in fn.succ(x) if s_ in body and s_ not in pbs)
    # at most one push per trip: no push block can reach a push block (itself or another: the arms of a match are exclusive)
    # without passing the header
    for p0 in pbs:
        stack, seen = [s_ for s_ in fn.succ(p0) if s_ in body], set()
        while stack:
            x = stack.pop()
            if x in pbs:
                return None
            if x in seen or x == h:
                continue
            seen.add(x)
            stack.extend(s_ for s_ in fn.succ(x) if s_ in body)
    elem = fn.expr_of_operand(pushes[0]['term']['args'][1])
    arms = [(c['block'], fn.expr_of_operand(c['term']['args'][1])) for c in sorted(pushes, key=lambda c: c['block'])]
    memo[l] = dict(source=it, elem=elem, push=pb, pushes=sorted(pbs), arms=arms if len(arms) > 1 else None, loop=(h, body, latches), filtered=skipping,
                   driver=drv[0], init=init)
    return memo[l]


def loop_skip_paths(fn, lb, limit=64):
    """for a loop-built vector whose trips may skip the push: every way round the loop that avoids the push, as a list of
    (switch condition, edge label) conjunctions (the loop driver's own test and `?` propagation are not conditions)"""
    h, body, _ = lb['loop']
    pb = lb['push']
    pbs_ = set(lb.get('pushes') or [pb])
    sw = {s_['block']: s_ for s_ in fn.switches()}
    out = []

    def go(b, conds, seen):
        if len(out) > limit:
            return
        if b == h:
            out.append(conds)
            return
        if b in pbs_ or b in seen or b not in body:
            return
        s_ = sw.get(b)
        if s_ is not None:
            c = s_['cond']
            driver = c[0] == 'discr' and strip(c[1])[0] == 'call' and strip(c[1])[3].endswith('Iterator::next')
            tr = c[0] == 'discr' and strip(c[1])[0] == 'call' and strip(c[1])[3] == TRY_BRANCH
            for lab, tgt in s_['edges']:
                go(tgt, conds if (driver or tr) else conds + [(c, lab)], seen | {b})
        else:
            for y in fn.succ(b):
                go(y, conds, seen | {b})
    for y in fn.succ(h):
        if y in body:
            go(y, [], {h})
    return out


def _mut_temps(fn, l):
    """temps holding `&mut l` (and reborrows of them), or None if the borrow is stored somewhere"""
    mtemps = set()
    for bi in fn.normal_blocks():
        for st in fn.blocks[bi]['stmts']:
            if st['k'] == 'Assign' and st['rv']['k'] in ('Ref', 'RawPtr') and st['rv'].get('mutbl'):
                pl = st['rv']['place']
                if pl['local'] == l and not any(e_['k'] == 'Deref' for e_ in pl['proj']):
                    if st['place']['proj']:
                        return None
                    mtemps.add(st['place']['local'])
    changed = True
    while changed:
        changed = False
        for bi in fn.normal_blocks():
            for st in fn.blocks[bi]['stmts']:
                if st['k'] != 'Assign' or st['place']['proj'] or st['place']['local'] in mtemps:
                    continue
                rv = st['rv']
                src = None
                if rv['k'] in ('Ref', 'RawPtr') and rv['place']['local'] in mtemps:
                    src = rv['place']['local']
                if rv['k'] == 'Use' and rv['op'].get('k') in ('Copy', 'Move') and rv['op']['place']['local'] in mtemps:
                    src = rv['op']['place']['local']
                if src is not None:
                    mtemps.add(st['place']['local'])
                    changed = True
    return mtemps


def straight_built(fn, l):
    """A Vec local filled by a fixed sequence of appends outside any loop — `v.push(a); v.extend(it); v.push(b)` — is the
    sequence once(a).chain(it).chain(once(b)): returns that chain expression (collected), or None when the vector is written
    in any other way (conditionally, in a loop, by anything other than push/extend/extend_from_slice/append)"""
    memo = fn.__dict__.setdefault('_straight_built', {})
    if l in memo:
        return memo[l]
    memo[l] = None
    if not re.match(r'^std::vec::Vec<', fn.local_ty(l)):
        return None
    ds = fn.defs().get(l, [])
    if len(ds) != 1 or fn.stores().get(l):
        return None
    init = fn.expr_of_def(ds[0])
    if not (init[0] == 'call' and re.search(r'Vec::<T>::(new|with_capacity)$|Vec::<T, A>::(new|with_capacity)', init[1])):
        return None
    mt = _mut_temps(fn, l)
    if mt is None:
        return None
    writes = [c for c in fn.calls() if any(a.get('k') in ('Copy', 'Move') and a['place']['local'] in mt for a in c['term']['args'])]
    if not writes:
        return None
    inloop = {b for (_h, body, _l) in fn.loops() for b in body}
    parts = []
    for c in writes:
        p = c['path'] or ''
        if c['block'] in inloop or len(c['term']['args']) < 2:
            return None
        a1 = fn.expr_of_operand(c['term']['args'][1])
        if p.endswith('Vec::<T, A>::push'):
            parts.append((c['block'], _call('std::iter::once', [a1])))
        elif re.search(r'(Extend::extend|Vec::<T, A>::extend_from_slice|Vec::<T, A>::append|Extend<.*>>::extend)$', (c['gpath'] or '') + '|' + p) or p.endswith('::extend'):
            parts.append((c['block'], expand(fn, a1)))
        else:
            return None
    # a fixed order: every write dominates the next, and each one lies on every path from the first to the last
    parts.sort(key=lambda x: x[0])
    order = sorted(parts, key=lambda x: sum(1 for y in parts if fn.dominates(y[0], x[0])))
    for a, b in zip(order, order[1:]):
        if not (fn.dominates(a[0], b[0]) and fn.postdominates(b[0], a[0])):
            return None
    chain = order[0][1]
    for _b, e in order[1:]:
        chain = _call(ITER_FN + 'chain', [chain, e])
    memo[l] = _call(ITER_FN + 'collect', [chain])
    return memo[l]


def string_join_loop(fn, l):
    """`let mut s = String::new(); for (i, t) in SRC.enumerate() { if i > 0 { s.push(SEP) } s.push_str(t) }` is SRC.join(SEP):
    returns dict(source=SRC, elem=t, sep=SEP) when String local `l` has exactly this shape, else None"""
    if fn.local_ty(l) != 'std::string::String':
        return None
    ds = fn.defs().get(l, [])
    if len(ds) != 1 or fn.stores().get(l):
        return None
    init = fn.expr_of_def(ds[0])
    if not (init[0] == 'call' and init[1].endswith('String::new')):
        return None
    mt = _mut_temps(fn, l)
    if mt is None:
        return None
    writes = [c for c in fn.calls() if any(a.get('k') in ('Copy', 'Move') and a['place']['local'] in mt for a in c['term']['args'])]
    seps = [c for c in writes if c['path'].endswith('String::push')]
    txts = [c for c in writes if c['path'].endswith('String::push_str')]
    if len(writes) != 2 or len(seps) != 1 or len(txts) != 1:
        return None
    Ls = [L for L in fn.loops() if txts[0]['block'] in L[1]]
    if len(Ls) != 1 or seps[0]['block'] not in Ls[0][1]:
        return None
    h, body, _ = Ls[0]
    drv = [bi for bi in sorted(body) if fn.term(bi)['k'] == 'Call' and fn.term(bi).get('callee') and fn.term(bi)['callee']['path'].endswith('Iterator::next')]
    if len(drv) != 1:
        return None
    it = strip(expand(fn, fn.expr_of_operand(fn.term(drv[0])['args'][0])))
    if it[0] == 'call' and it[1].endswith('into_iter') and it[2]:
        it = strip(it[2][0])
    if not (it[0] == 'call' and it[3].endswith('Iterator::enumerate')):
        return None
    src = strip(it[2][0])
    # the text is appended on every trip
    stack, seen = [s_ for s_ in fn.succ(h) if s_ in body and s_ != txts[0]['block']], set()
    while stack:
        x = stack.pop()
        if x == h:
            return None
        if x in seen or x == txts[0]['block']:
            continue
        seen.add(x)
        stack.extend(s_ for s_ in fn.succ(x) if s_ in body and s_ != txts[0]['block'])
    # the separator: before the text, under `index > 0` only
    conds = []
    for s_ in fn.switches():
        if s_['block'] not in body:
            continue
        for lab, tgt in s_['edges']:
            if fn.dominates(tgt, seps[0]['block']) and fn.pred(tgt) == [s_['block']] and not (s_['cond'][0] == 'discr' and strip(s_['cond'][1])[0] == 'call'):
                conds.append((s_['cond'], lab))
    if len(conds) != 1:
        return None
    c, lab = conds[0]
    okidx = c[0] == 'bin' and ((c[1] in ('Gt', 'Ne') and lab is True) or (c[1] in ('Eq', 'Le') and lab is False)) and c[3][0] == 'int' and c[3][1] == 0 and \
        strip(c[2])[0] == 'field' and strip(c[2])[2] == '0'
    if not okidx or not fn.dominates(seps[0]['block'], txts[0]['block']) and not (seps[0]['block'] in fn.reach(h, stop={txts[0]['block']})):
        return None
    if txts[0]['block'] in fn.reach(seps[0]['block'], stop={h}) is False:
        return None
    text = fn.expr_of_operand(txts[0]['term']['args'][1])
    sep = fn.expr_of_operand(seps[0]['term']['args'][1])
    return dict(source=src, elem=text, sep=sep, loop=Ls[0])


def seq_chain(fn, e):
    """`e` with a loop-built vector replaced by the equivalent iterator chain collect(map(SRC, loop-body)) [filter when a trip
    can skip the push], a vector filled by a fixed sequence of appends by the chain of those parts; other expressions unchanged"""
    e0 = strip(e)
    if e0[0] == 'var':
        sb = straight_built(fn, e0[1])
        if sb is not None:
            return sb
        lb = loop_built(fn, e0[1])
        if lb:
            src = lb['source']
            if lb['filtered']:
                src = _call(ITER_FN + 'filter', [src, ('loopcond', lb['push'])])
            return _call(ITER_FN + 'collect', [_call(ITER_FN + 'map', [src, ('loopbody', lb['elem'], lb['push'])])])
    # a helper that builds and returns the sequence: its chain, in the caller's terms
    x = e0
    while x[0] == 'try' or (x[0] == 'payload' and x[2] in ('Ok', 'Some', 'Continue')):
        x = strip(x[1])
    if x[0] == 'call' and x[1] in fn.prog.fns and re.search(r'Vec<', fn.prog.fns[x[1]].raw.get('output', '')):
        H = fn.prog.fns[x[1]]
        vals = []
        for ex in H.exits():
            if ex['kind'] in ('err_own', 'err_prop', 'none', 'none_prop', 'diverge'):
                continue
            v = strip(ex['expr'])
            while v[0] == 'agg' and v[1].endswith(('Result::Ok', 'Option::Some')) and v[2]:
                v = strip(v[2][0][1])
            vals.append(v)
        if len(vals) == 1 and H.id != fn.id:
            inner = seq_chain(H, vals[0])
            if inner is not vals[0] and strip(inner) != vals[0]:
                return subst_args(expand(H, inner, keep=lambda ty: ty.startswith('std::vec::Vec<')), x[2])
    return e


def map_tree(e, fnc):
    """rebuild an expression tree bottom-up through fnc (applied to every tuple node after its children)"""
    if not isinstance(e, tuple):
        return e
    out = []
    for x in e:
        if isinstance(x, tuple):
            out.append(map_tree(x, fnc))
        elif isinstance(x, list):
            out.append([(y[0], map_tree(y[1], fnc)) if (isinstance(y, tuple) and len(y) == 2 and isinstance(y[0], str) and isinstance(y[1], tuple))
                        else (map_tree(y, fnc) if isinstance(y, tuple) else y) for y in x])
        else:
            out.append(x)
    return fnc(tuple(out))


def simplify(e):
    """projections of literal aggregates: (a, b).0 -> a ; S{f: v}.f -> v ; unwrap_Some(Some(v)) -> v"""
    def one(x):
        if x and x[0] == 'field' and isinstance(x[1], tuple):
            b = x[1]
            if b[0] == 'tuple' and str(x[2]).isdigit() and int(x[2]) < len(b[1]):
                return b[1][int(x[2])]
            if b[0] == 'agg':
                for k, v in b[2]:
                    if k == x[2]:
                        return v
        if x and x[0] == 'payload' and isinstance(x[1], tuple) and x[1][0] == 'agg' and x[1][1].endswith('::' + x[2]) and x[1][2]:
            i = x[3] if len(x) > 3 and isinstance(x[3], int) else 0
            if i < len(x[1][2]):
                return x[1][2][i][1]
        return x
    return map_tree(e, one)


def subst_closure(cf, body, params, caps):
    """closure body in the creator's terms: parameter i (MIR arg i+1; arg 1 is the environment) -> params[i-1]; upvar j -> caps[j]"""
    def one(x):
        if x and x[0] == 'arg' and isinstance(x[1], int) and 2 <= x[1] <= len(params) + 1:
            return params[x[1] - 2]
        if x and x[0] == 'upvar' and isinstance(x[1], int) and x[1] < len(caps):
            return caps[x[1]]
        return x
    return map_tree(body, one)


def _edge_conds(fn, block, skip_blocks=()):
    """(cond, label) of every switch edge that dominates `block` (single-predecessor targets), `?` propagation and loop drivers
    left out, in dominance order"""
    out = []
    for s_ in fn.switches():
        if s_['block'] in skip_blocks:
            continue
        c = s_['cond']
        if c[0] == 'discr' and strip(c[1])[0] == 'call' and (strip(c[1])[3] == TRY_BRANCH or strip(c[1])[3].endswith('Iterator::next')):
            continue
        for lab, tgt in s_['edges']:
            if fn.dominates(tgt, block) and fn.pred(tgt) == [s_['block']]:
                out.append((s_['block'], c, lab))
    out.sort(key=lambda x: sum(1 for y in out if fn.dominates(y[0], x[0])))
    return out


def value_table(fn, e, depth=0):
    """decision table of a value: [(conditions, value expression)] where conditions is a list of (switch condition, label).
    A local with several definitions contributes one row per definition under the branch conditions that separate the
    definitions; `opt.unwrap_or_else(|| ..)` / `unwrap_or(..)` contribute the row `opt is Some -> its payload` and the rows of
    the fallback under `opt is None`.  The spelling (closure, match with guards, if/else) does not matter."""
    P = fn.prog
    e0 = strip(e)
    if depth > 4:
        return [([], e0)]
    if e0[0] == 'var' and not (1 <= e0[1] <= fn.nargs):
        ds = fn.defs().get(e0[1], [])
        if len(ds) >= 2 and len(ds) <= 6:
            per = [(d, _edge_conds(fn, d[0])) for d in ds]
            common = None
            for d, cs in per:
                keyset = {(b, repr(c), lab) for b, c, lab in cs}
                common = keyset if common is None else (common & keyset)
            rows = []
            for d, cs in per:
                own = [(c, lab) for b, c, lab in cs if (b, repr(c), lab) not in common]
                de = fn.expr_of_def(d)
                if any(y == e0 for y in walk(de)):
                    rows.append((own, ('self-referential', de)))
                    continue
                for c2, v2 in value_table(fn, de, depth + 1):
                    rows.append((own + c2, v2))
            return rows
        if len(ds) == 1:
            return value_table(fn, fn.expr_of_def(ds[0]), depth + 1) if fn.expr_of_def(ds[0]) != e0 else [([], e0)]
    if e0[0] == 'call' and e0[1] in P.fns and depth <= 3:
        # a private helper called from this function only, with a plain value result: its own decision table, in the caller's terms
        H = P.fns[e0[1]]
        base = re.sub(r'(::\{closure#\d+\})+$', '', fn.id)
        if not hasattr(P, '_callers'):
            exclusive_family(P, fn)
        ex = H.exits()
        out_ty = H.raw.get('output', '')
        if H.kind != 'Closure' and not H.public and not H.raw.get('derived') and P._callers.get(H.id, set()) <= {base} and 2 <= len(ex) <= 6 and \
                not re.match(r'^(std::result::Result|std::option::Option|anyhow)', out_ty) and all(x['kind'] in ('ok', 'value', 'plain', 'ret', None) or True for x in ex):
            rows = []
            for x in ex:
                cs = [(subst_args(expand(H, c), e0[2]), lab) for b, c, lab in _edge_conds(H, x['block'])]
                rows.append((cs, subst_args(expand(H, x['expr']), e0[2])))
            return rows
    if e0[0] == 'call' and re.search(r'Option::<T>::unwrap_or_else$', e0[1]) and len(e0[2]) == 2 and e0[2][1][0] == 'closure' and e0[2][1][1] in P.fns:
        X = e0[2][0]
        cf = P.fns[e0[2][1][1]]
        rows = [([(('discr', X), 'Some')], ('payload', X, 'Some', 0))]
        for x in cf.exits():
            cs = [(subst_closure(cf, expand(cf, c), [], e0[2][1][2]), lab) for b, c, lab in _edge_conds(cf, x['block'])]
            rows.append(([(('discr', X), 'None')] + cs, subst_closure(cf, expand(cf, x['expr']), [], e0[2][1][2])))
        return rows
    if e0[0] == 'call' and re.search(r'bool>?::then$', e0[1]) and len(e0[2]) == 2 and e0[2][1][0] == 'closure' and e0[2][1][1] in P.fns:
        cf = P.fns[e0[2][1][1]]
        rows = [([(e0[2][0], False)], ('agg', 'std::option::Option::None', []))]
        for x in cf.exits():
            cs = [(subst_closure(cf, expand(cf, c), [], e0[2][1][2]), lab) for b, c, lab in _edge_conds(cf, x['block'])]
            rows.append(([(e0[2][0], True)] + cs, ('agg', 'std::option::Option::Some', [('0', subst_closure(cf, expand(cf, x['expr']), [], e0[2][1][2]))])))
        return rows
    if e0[0] == 'call' and re.search(r'Option::<T>::unwrap_or$', e0[1]) and len(e0[2]) == 2:
        X = e0[2][0]
        return [([(('discr', X), 'Some')], ('payload', X, 'Some', 0)), ([(('discr', X), 'None')], e0[2][1])]
    return [([], e0)]


def field_table(fn, e, field, depth=0, kinds=False):
    """decision table of one field of a struct value that is built with the crate's constructors and then adjusted by builder
    calls (`r = R::field(..); if c { r = r.with_doc(d) }`): [(conditions, field value)].  A builder call on the value itself that
    does not touch the field contributes nothing; one that does contributes its value under its own conditions.  None when a
    definition cannot be read as a struct."""
    P = fn.prog
    rows = []
    e0 = strip(e)
    if e0[0] == 'field' and e0[2] == field and strip(e0[1])[0] == 'var':
        e0 = strip(e0[1])
    # a struct local that the fact loader split into per-field locals, each defined as `<whole>.<field>` wherever the whole value is
    # (re)built: the field of the value built in the same block
    if e0[0] == 'var' and not (1 <= e0[1] <= fn.nargs):
        ds = fn.defs().get(e0[1], [])
        des = [fn.expr_of_def(d) for d in ds]
        proj_ = [x for x in des if x[0] == 'field' and x[2] == field and strip(x[1])[0] == 'var']
        if len(ds) >= 2 and proj_ and len({strip(x[1])[1] for x in proj_}) == 1 and str(fn.names.get(e0[1], '')).endswith('.' + field):
            W = strip(proj_[0][1])
            wdefs = {d[0]: d for d in fn.defs().get(W[1], [])}
            for wd in fn.defs().get(W[1], []):
                if wd[2] == 'call':         # the result of a call is there in the block the call continues in
                    for y in fn.succ(wd[0]):
                        wdefs.setdefault(y, wd)
            is_proj = lambda d: fn.expr_of_def(d)[0] == 'field' and fn.expr_of_def(d)[2] == field
            if all(d[0] in wdefs for d in ds if is_proj(d)):
                first = [d for d in ds if all(fn.dominates(d[0], d2[0]) for d2 in ds)]
                base_conds = {(b, repr(c), lab) for b, c, lab in _edge_conds(fn, first[0][0])} if first else set()
                out = []
                for d in ds:
                    if not is_proj(d):
                        # `v.f = x;` written to the split field directly
                        own = [(c, lab) for b, c, lab in _edge_conds(fn, d[0]) if (b, repr(c), lab) not in base_conds]
                        out.append((own, fn.expr_of_def(d), 'base' if first and d is first[0] else 'over'))
                        continue
                    whole = strip(ctor_norm(P, expand(fn, fn.expr_of_def(wdefs[d[0]]), keep=lambda ty: True)))
                    if whole[0] != 'agg' or field not in dict(whole[2]):
                        return None
                    v = dict(whole[2])[field]
                    v0 = strip(v)
                    if v0 == e0 or (v0[0] == 'var' and v0[1] == e0[1]) or (v0[0] == 'field' and v0[2] == field and strip(v0[1])[:2] == W[:2]):
                        continue            # rebuilt with this field unchanged
                    own = [(c, lab) for b, c, lab in _edge_conds(fn, d[0]) if (b, repr(c), lab) not in base_conds]
                    out.append((own, v, 'base' if first and d is first[0] else 'over'))
                return out if kinds else [(c_, v_) for c_, v_, _k in out]
    for conds, v in value_table(fn, e0):
        selfref = isinstance(v, tuple) and v and v[0] == 'self-referential'
        ve = ctor_norm(P, expand(fn, v[1] if selfref else v, keep=(lambda ty, e0=e0: False)))
        ve = strip(ve)
        if ve[0] == 'call' and ve[1] in P.fns:
            # a plain constructor that the pinned code calls too (Region::unnamed_field): its value, for this table only
            cv = ctor_value(P, ve, any_plain=True)
            if cv is not None:
                ve = strip(cv)
        if ve[0] == 'update':
            base = strip(ve[1])
            upd = dict(ve[2])
            if selfref and (base == e0 or (base[0] == 'var' and e0[0] == 'var' and base[1] == e0[1])):
                if field in upd:
                    rows.append((conds, upd[field], 'over'))
                continue
            if field in upd:
                rows.append((conds, upd[field], 'base'))
                continue
            if depth < 3:
                sub = field_table(fn, base, field, depth + 1, kinds=True)
                if sub is None:
                    return None
                rows += [(conds + c2, v2, k2) for c2, v2, k2 in sub]
                continue
            return None
        if selfref:
            return None
        if ve[0] == 'agg' and field in dict(ve[2]):
            rows.append((conds, dict(ve[2])[field], 'base'))
            continue
        return None
    # plain field stores on the local (`v.doc = doc;`) after it was built: later values under the conditions of the store
    if e0[0] == 'var' and not (1 <= e0[1] <= fn.nargs):
        ds0 = fn.defs().get(e0[1], [])
        base_conds = {(b, repr(c), lab) for b, c, lab in _edge_conds(fn, ds0[0][0])} if ds0 else set()
        for (bi, si, kind, payload, span) in fn.stores().get(e0[1], []):
            if kind != 'rv':
                return None
            pr = payload['place']['proj']
            if len(pr) != 1 or pr[0].get('k') != 'Field':
                return None
            if pr[0].get('name') != field:
                continue
            own = [(c, lab) for b, c, lab in _edge_conds(fn, bi) if (b, repr(c), lab) not in base_conds]
            rows.append((own, fn.expr_of_rvalue(payload['rv']), 'over'))
    return rows if kinds else [(c_, v_) for c_, v_, _k in rows]


def rewrapped_option(rows):
    """[(conds, value)] that spell `match x { Some(v) => Some(v), None => None }` (clone / to_string in between allowed): x"""
    if len(rows) != 2:
        return None
    some = [(cs, strip(v)) for cs, v in rows if strip(v)[0] == 'agg' and strip(v)[1].endswith('Option::Some') and strip(v)[2]]
    none = [(cs, strip(v)) for cs, v in rows if strip(v)[0] == 'agg' and strip(v)[1].endswith('Option::None')]
    if len(some) != 1 or len(none) != 1:
        return None
    (cs1, v1), (cs0, v0) = some[0], none[0]
    pl = strip(v1[2][0][1])
    if not (pl[0] == 'payload' and pl[2] == 'Some'):
        return None
    x = strip(pl[1])
    t1 = [(c, l) for c, l in cs1 if c[0] == 'discr' and strip(c[1]) == x]
    t0 = [(c, l) for c, l in cs0 if c[0] == 'discr' and strip(c[1]) == x]
    if len(cs1) == 1 and len(cs0) == 1 and t1 and t0 and t1[0][1] == 'Some' and t0[0][1] == 'None':
        return x
    return None


def final_field_value(fn, e, field):
    """the value field `field` of struct value `e` ends up with, as one expression, when that can be said without a case split: the
    same value in every arm, or an Option that is Some(payload of D) exactly when D is Some and None exactly when D is None (i.e.
    D itself), however the arms and builder calls are arranged.  None otherwise."""
    rows = field_table(fn, e, field, kinds=True)
    if not rows:
        return None
    rows = [([(strip(expand(fn, c[1])) if c[0] == 'discr' else None, c, l) for c, l in cs], strip(v), k) for cs, v, k in rows]
    if all(k == 'base' for cs, v, k in rows) and all(repr(v) == repr(rows[0][1]) for cs, v, k in rows):
        return rows[0][1]
    uncond = [(cs, v, k) for cs, v, k in rows if k == 'over' and not cs]
    if len(uncond) == 1 and len([1 for cs, v, k in rows if k == 'over']) == 1:
        return uncond[0][1]          # `v.f = x;` right after the value was built: x, whatever the constructor put there
    somes = [(cs, v, k) for cs, v, k in rows if v[0] == 'agg' and v[1].endswith('Option::Some') and v[2]]
    nones = [(cs, v, k) for cs, v, k in rows if v[0] == 'agg' and v[1].endswith('Option::None')]
    if not somes or len(somes) + len(nones) != len(rows):
        return None

    def payload_src(v):
        pl = strip(expand(fn, v[2][0][1]))
        while pl[0] == 'call' and len(pl[2]) == 1 and re.search(r'(Box::<T>::new|Box::new)$', pl[1]):
            pl = strip(pl[2][0])
        return strip(pl[1]) if pl[0] == 'payload' and pl[2] == 'Some' else None
    D = payload_src(somes[0][1])
    if D is None or any(payload_src(v) != D for cs, v, k in somes):
        return None
    tests = lambda cs, lab: any(d == D and l == lab for d, c, l in cs)
    if not all(tests(cs, 'Some') for cs, v, k in somes):
        return None
    if all(tests(cs, 'None') for cs, v, k in nones):
        return D
    # a None that is not tied to `D is None` is acceptable only as the starting value that `if let Some(d) = D { .. with_x(d) }`
    # overwrites under exactly that test
    over = [(cs, v, k) for cs, v, k in rows if k == 'over']
    if over and all(v[0] == 'agg' and v[1].endswith('Option::Some') and len(cs) == 1 and tests(cs, 'Some') for cs, v, k in over) and \
            all(k == 'base' for cs, v, k in nones) and all(k == 'over' for cs, v, k in somes):
        return D
    return None


def struct_result_tables(fn, fields):
    """per-field decision tables of the struct a function returns (built by literals, constructors, builders, possibly in several
    arms): {field: [(conds, value)]} or None"""
    out = {k: [] for k in fields}
    exits = [x for x in fn.exits() if x['kind'] not in ('err_own', 'err_prop', 'none_prop', 'diverge')]
    per = [(x, _edge_conds(fn, x['block'])) for x in exits]
    common = None
    for x, cs in per:
        ks = {(b, repr(c), lab) for b, c, lab in cs}
        common = ks if common is None else (common & ks)
    for x, cs in per:
        own = [(c, lab) for b, c, lab in cs if (b, repr(c), lab) not in common]
        for k in fields:
            ft = field_table(fn, x['expr'], k)
            if ft is None:
                return None
            out[k] += [(own + [(expand(fn, c), l) for c, l in c2], v) for c2, v in ft]
    # rows that agree on the value are one row
    for k in fields:
        vals = {repr(strip(v)) for cs, v in out[k]}
        if len(vals) == 1 and out[k]:
            out[k] = [([], out[k][0][1])]
    return out


def unmodified_clone(fn, e, type_frag):
    """`e` is a whole clone of a value of type `type_frag` that is not written afterwards: `x.clone()` itself, or a local that
    is initialised with such a clone and is never mutably borrowed or partially assigned.  Returns (ok, source expression)"""
    e1 = e
    hops = 0
    while isinstance(e1, tuple) and e1 and e1[0] == 'var' and hops < 4:
        hops += 1
        l = e1[1]
        if l in fn.mut_borrowed() or fn.stores().get(l):
            return False, None
        ds = fn.defs().get(l, [])
        if len(ds) != 1:
            return False, None
        e1 = fn.expr_of_def(ds[0])
    if isinstance(e1, tuple) and e1 and e1[0] == 'call' and e1[1].endswith('::clone') and type_frag in e1[4] and e1[2]:
        return True, e1[2][0]
    return False, None


def method_family(P, root, exclude=()):
    """`root` plus the private methods it was split into: in-crate, non-closure callees of root (and of those) that take the same
    `&mut Self` receiver type as root and have no other caller.  Rules about what `root` does look at the whole family."""
    recv = (root.raw.get('inputs') or [''])[0]
    fam = [root]
    callers = {}
    for g in P.fns.values():
        if g.raw.get('derived'):
            continue
        for c in g.calls(lambda r: r['path'] in P.fns):
            base = re.sub(r'(::\{closure#\d+\})+$', '', g.id)
            callers.setdefault(c['path'], set()).add(base)
    changed = True
    while changed:
        changed = False
        for g in list(fam):
            for h in [g] + P.closures_of(g):
                for c in h.calls(lambda r: r['path'] in P.fns):
                    k = P.fns[c['path']]
                    if k in fam or k.kind == 'Closure' or k.public or k.id in exclude or any(k.id.endswith(x) for x in exclude):
                        continue
                    if (k.raw.get('inputs') or [''])[0] == recv and recv.startswith('&mut ') and callers.get(k.id, set()) <= {re.sub(r'(::\{closure#\d+\})+$', '', x.id) for x in fam}:
                        fam.append(k)
                        changed = True
    return fam


def exclusive_family(P, root, exclude=()):
    """`root`, its closures, and the private in-crate functions (with their closures) that are called from this family only —
    the pieces a function is split into by extracting helpers.  Public functions and functions with an outside caller are not part."""
    if not hasattr(P, '_callers'):
        callers = {}
        for g in P.fns.values():
            if g.raw.get('derived'):
                continue
            base = re.sub(r'(::\{closure#\d+\})+$', '', g.id)
            for tgt, kind in P.callgraph().get(g.id, ()):
                if kind in ('call', 'fnref'):
                    callers.setdefault(tgt, set()).add(base)
        P._callers = callers
    fam = [root]
    changed = True
    while changed:
        changed = False
        ids = {re.sub(r'(::\{closure#\d+\})+$', '', x.id) for x in fam}
        for g in list(fam):
            for h in [g] + P.closures_of(g):
                for tgt, kind in P.callgraph().get(h.id, ()):
                    k = P.fns.get(tgt)
                    if k is None or k in fam or k.kind == 'Closure' or k.public or k.raw.get('derived') or any(k.id.endswith(x) for x in exclude):
                        continue
                    if kind in ('call', 'fnref') and P._callers.get(k.id, set()) <= ids:
                        fam.append(k)
                        changed = True
    out = []
    for g in fam:
        out.append(g)
        out.extend(P.closures_of(g))
    return out


def is_membership(P, e, depth=0):
    """`e` tests whether a key is present in the registry's map: contains_key on it, or a call of an in-crate wrapper whose
    only exit is such a test on its receiver's own map (`fn contains(&self, p) -> bool { self.types.contains_key(p) }`)"""
    e = strip(e)
    if e[0] != 'call':
        return False
    if re.search(MAPM('contains_key'), e[1]):
        return True
    if depth < 2 and e[1] in P.fns:
        g = P.fns[e[1]]
        ex = g.exits()
        if len(ex) == 1 and not g.switches() and g.raw.get('output') == 'bool':
            x = strip(ex[0]['expr'])
            return x[0] == 'call' and is_membership(P, x, depth + 1) and strip(x[2][0])[0] == 'field' and strip(strip(x[2][0])[1])[0] == 'arg' and \
                all(strip(a)[0] == 'arg' for a in x[2][1:])
    return False


def state_home(fn, e, depth=0):
    """(function, expression) where a piece of state really lives: a value that is read out of the struct (or tuple) returned
    by an in-crate helper — `let S { flag, .. } = parse_attributes(..)?` — is followed into the helper, whose own local it is"""
    P = fn.prog
    e0 = strip(e)
    if depth > 4 or e0[0] != 'field':
        return fn, e0
    x = strip(e0[1])
    while x[0] in ('try',) or (x[0] == 'payload' and x[2] in ('Some', 'Ok', 'Continue')):
        x = strip(x[1])
    if x[0] == 'call' and x[1] in P.fns:
        H = P.fns[x[1]]
        vals = []
        for ex in H.exits():
            if ex['kind'] in ('err_own', 'err_prop', 'none', 'none_prop', 'diverge'):
                continue
            v = strip(ex['expr'])
            while v[0] == 'agg' and v[1].endswith(('Result::Ok', 'Option::Some')) and v[2]:
                v = strip(v[2][0][1])
            vals.append(v)
        if len(vals) == 1:
            v = vals[0]
            inner = None
            if v[0] == 'agg':
                inner = dict(v[2]).get(e0[2])
            elif v[0] == 'tuple' and str(e0[2]).isdigit() and int(e0[2]) < len(v[1]):
                inner = v[1][int(e0[2])]
            if inner is not None:
                return state_home(H, inner, depth + 1)
    return fn, e0


def opt_norm(fn, e, depth=0):
    """normal form of an Option-valued expression, the same for the combinator spelling and the `?` spelling:
       ('some', v)  — Some(v);  ('opt', x) — another Option-valued expression x;  ('none',) — None.
    Option::map(X, |p| B) -> ('some', B[p := try(X)]);  Option::and_then(X, |p| B) -> opt_norm(B[p := try(X)]);  in B and v a
    value taken out of an Option with `?` is written ('try', X) in both spellings."""
    P = fn.prog
    e = strip(e)
    if depth > 6:
        return ('opt', e)
    if e[0] == 'agg' and e[1].endswith('Option::Some') and e[2]:
        v = untry(e[2][0][1])
        if strip(v)[0] == 'try':
            return ('opt', strip(v)[1])        # Some(x?) is x
        return ('some', v)
    if e[0] == 'agg' and e[1].endswith('Option::None'):
        return ('none',)
    if e[0] == 'call' and re.search(r'Option::<T>::(map|and_then)$', e[1]) and len(e[2]) == 2 and e[2][1][0] in ('closure', 'fnref') and e[2][1][1] in P.fns:
        cf = P.fns[e[2][1][1]]
        ex = [x for x in cf.exits() if x['kind'] not in ('none_prop',)]
        if len(ex) == 1:
            if e[2][1][0] == 'closure':
                body = subst_closure(cf, expand(cf, ex[0]['expr']), [('try', untry(e[2][0]))], e[2][1][2])
            else:
                body = subst_args(expand(cf, ex[0]['expr']), [('try', untry(e[2][0]))])
            if e[1].endswith('::map'):
                return ('some', untry(body)) if strip(untry(body))[0] != 'try' else ('opt', strip(untry(body))[1])
            return opt_norm(fn, body, depth + 1)
    return ('opt', untry(e))


def variant_projection(P, fid):
    """(variant, payload index) when the in-crate function `fid` is `match self { V(.., x, ..) => Some(x), _ => None }` (by value,
    by reference or dereferenced) and nothing else; None otherwise"""
    f = P.fns.get(fid)
    if f is None or f.kind == 'Closure' or f.nargs != 1 or f.loops() or not f.raw.get('output', '').startswith('std::option::Option<'):
        return None
    sws = f.switches()
    if len(sws) != 1 or sws[0]['cond'][0] != 'discr' or strip(sws[0]['cond'][1])[0] != 'arg':
        return None
    hit = None
    for lab, tgt in sws[0]['edges']:
        xs = [x for x in f.exits() if f.dominates(tgt, x['block'])]
        if len(xs) != 1:
            return None
        v = strip(xs[0]['expr'])
        if v[0] == 'agg' and v[1].endswith('Option::None'):
            continue
        if v[0] == 'agg' and v[1].endswith('Option::Some') and v[2]:
            pl = strip(v[2][0][1])
            if pl[0] == 'payload' and strip(pl[1])[0] == 'arg' and pl[2] == lab and hit is None:
                hit = (lab, pl[3] if len(pl) > 3 else 0)
                continue
        return None
    return hit


def _closure_body(P, c, params):
    """the value a closure / function reference returns, in the creator's terms (single exit only)"""
    if not (isinstance(c, tuple) and c and c[0] in ('closure', 'fnref') and c[1] in P.fns):
        return None
    cf = P.fns[c[1]]
    ex = cf.exits()
    if len(ex) != 1 or cf.loops():
        return None
    body = expand(cf, ex[0]['expr'])
    if c[0] == 'closure':
        return subst_closure(cf, body, params, c[2])
    return subst_args(body, params)


def opt_sem(fn, e, depth=0):
    """an Option-valued expression as (conditions, payload): it is Some(payload) exactly when every condition holds and None
    otherwise — one reading for combinator chains (filter / and_then / map / bool::then / then_some / checked_sub) and for the
    explicit tests they abbreviate.  An expression that is not such a chain is ([is_some(e)], unwrap_Some(e))."""
    P = fn.prog
    e = strip(e)
    atom = ([('is_some', e)], ('payload', e, 'Some', 0))
    if depth > 6 or not isinstance(e, tuple) or not e:
        return atom
    if e[0] == 'agg' and e[1].endswith('Option::Some') and e[2]:
        return ([], e[2][0][1])
    if e[0] != 'call':
        return atom
    path, args = e[1], e[2]
    if re.search(r'num::<impl [ui](8|16|32|64|128|size)>::checked_sub$', path) and len(args) == 2:
        return ([('bin', 'Ge', args[0], args[1])], ('bin', 'Sub', args[0], args[1]))
    if re.search(r'Option::<T>::filter$', path) and len(args) == 2:
        cx, vx = opt_sem(fn, args[0], depth + 1)
        b = _closure_body(P, args[1], [vx])
        if b is None:
            return atom
        return (cx + [b], vx)
    if re.search(r'Option::<T>::and_then$', path) and len(args) == 2:
        cx, vx = opt_sem(fn, args[0], depth + 1)
        b = _closure_body(P, args[1], [vx])
        if b is None:
            return atom
        cb, vb = opt_sem(fn, b, depth + 1)
        return (cx + cb, vb)
    if re.search(r'Option::<T>::map$', path) and len(args) == 2:
        cx, vx = opt_sem(fn, args[0], depth + 1)
        b = _closure_body(P, args[1], [vx])
        if b is None:
            return atom
        return (cx, b)
    if re.search(r'bool>?::then$', path) and len(args) == 2:
        b = _closure_body(P, args[1], [])
        if b is None:
            return atom
        return ([args[0]], b)
    if re.search(r'bool>?::then_some$', path) and len(args) == 2:
        return ([args[0]], args[1])
    return atom


def conj_simplify(conds):
    """a ≥ b ∧ a − b ≠ 0 is a > b (the two halves of `checked_sub(..).filter(|d| d != 0)`)"""
    out = list(conds)
    for c in list(out):
        c0 = strip(c)
        if c0[0] == 'bin' and c0[1] in ('Ne', 'Gt') and strip(c0[3])[:2] == ('int', 0) and strip(c0[2])[0] == 'bin' and strip(c0[2])[1] == 'Sub':
            a, b = strip(c0[2])[2], strip(c0[2])[3]
            ge = [g for g in out if strip(g)[0] == 'bin' and strip(g)[1] == 'Ge' and strip(g)[2] == a and strip(g)[3] == b]
            if ge:
                out = [x for x in out if x is not c and x is not ge[0]] + [('bin', 'Gt', a, b)]
    return out


def untry(e):
    """payload-of-try-branch spellings unified: unwrap_Some(try X) / try(X) / unwrap_Continue(branch(X)) -> ('try', X)"""
    def one(x):
        if x and x[0] == 'payload' and x[2] in ('Some', 'Continue') and isinstance(x[1], tuple) and x[1] and x[1][0] == 'try':
            return x[1]
        if x and x[0] == 'try' and isinstance(x[1], tuple) and x[1] and x[1][0] == 'try':
            return x[1]
        return x
    return map_tree(e, one)


def split_values(fn, e, limit=24):
    """the finite set of value trees an expression can stand for, obtained by (1) splitting every local with 2..4 definitions
    (a value merged from the arms of a match / if) into one tree per definition, (2) splitting Option::map(X, closure) into
    None and Some(closure body), and simplifying projections of literal aggregates.  Over-approximates the reachable values
    (independent splits are combined freely); used by rules that compare the SET of outcomes with an expected one."""
    P = fn.prog
    work, done = [e], []
    guard = 0
    while work and guard < 400:
        guard += 1
        cur = simplify(work.pop())
        target = None
        for x in walk(cur):
            if not isinstance(x, tuple) or not x:
                continue
            if x[0] == 'var' and isinstance(x[1], int):
                ds = fn.defs().get(x[1], [])
                if 2 <= len(ds) <= 4 and not (1 <= x[1] <= fn.nargs):
                    exprs = [fn.expr_of_def(d) for d in ds]
                    if not any(any(y == x for y in walk(d_)) for d_ in exprs):   # not loop-carried
                        # locals defined side by side (the parts of one tuple / struct built in each arm) vary together
                        blocks_ = [d[0] for d in ds]
                        mates = []
                        for y in walk(cur):
                            if isinstance(y, tuple) and y and y[0] == 'var' and isinstance(y[1], int) and y != x and y not in [m_[0] for m_ in mates]:
                                dy = fn.defs().get(y[1], [])
                                if [d[0] for d in dy] == blocks_ and len(set(blocks_)) == len(blocks_):
                                    mates.append((y, [fn.expr_of_def(d) for d in dy]))
                        target = ('var', x, exprs, mates)
                        break
            if x[0] == 'call' and re.search(r'Option::<T>::map$', x[1]) and len(x[2]) == 2 and x[2][1][0] == 'closure' and x[2][1][1] in P.fns:
                cf = P.fns[x[2][1][1]]
                ex = cf.exits()
                if len(ex) == 1:
                    body = subst_closure(cf, ex[0]['expr'], [('payload', x[2][0], 'Some', 0)], x[2][1][2])
                    target = ('map', x, [('agg', 'std::option::Option::None', []), ('agg', 'std::option::Option::Some', [('0', body)])])
                    break
        if target is None:
            if cur not in done:
                done.append(cur)
            continue
        node, alts = target[1], target[2]
        mates = target[3] if len(target) > 3 else []
        for i_, a in enumerate(alts):
            sub = [(node, a)] + [(y_, ys_[i_]) for y_, ys_ in mates]
            work.append(map_tree(cur, lambda y, sub=sub: next((v_ for k_, v_ in sub if y == k_), y)))
        if len(work) + len(done) > limit:
            return done + work
    return done + work


def MAPM(methods):
    """regex (string) for a method of a std map type, whatever the container (HashMap or BTreeMap)"""
    return r'(?:HashMap|BTreeMap)::<[^>]*>::(?:%s)$' % methods


def SETM(methods):
    return r'(?:HashSet|BTreeSet)::<[^>]*>::(?:%s)$' % methods


REGISTRY_MAP = r'^std::collections::(?:hash_map::|btree_map::)?(?:HashMap|BTreeMap)::<grammar::ItemPath, semantic::types::ItemDefinition>::'
MODULES_MAP = r'^std::collections::(?:hash_map::|btree_map::)?(?:HashMap|BTreeMap)::<grammar::ItemPath, semantic::module::Module>::'


def subst_args(e, args):
    """rewrite a callee-side expression into the caller's terms: ('arg', i, _) -> args[i-1]"""
    if not isinstance(e, tuple):
        return e
    if e and e[0] == 'arg' and isinstance(e[1], int) and 1 <= e[1] <= len(args):
        return args[e[1] - 1]
    out = []
    for x in e:
        if isinstance(x, tuple):
            out.append(subst_args(x, args))
        elif isinstance(x, list):
            out.append([(y[0], subst_args(y[1], args)) if (isinstance(y, tuple) and len(y) == 2 and isinstance(y[0], str) and isinstance(y[1], tuple))
                        else (subst_args(y, args) if isinstance(y, tuple) else y) for y in x])
        else:
            out.append(x)
    return tuple(out)
