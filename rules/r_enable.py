"""r_enable — R-ENABLE: no rejection is switched off by what happens to be registered already.

Every `reject` guard of the semantic layer (a condition that ends the build with an error) is reached under some branch
conditions (its *enabling conditions*).  Wrapping a check in one more `if` leaves the check itself untouched — every rule about
the check still passes — and switches it off for some inputs.  The variant that static shape rules cannot see through and that a
maintainer plausibly writes is the *state-dependent* one: "skip the comparison if the vftable type is already registered", "only
validate when the cache is cold", "not again if this name was seen".  Whether the check runs then depends on what an earlier pass,
an earlier item or an earlier build left behind, i.e. on resolution order (C09) — and the description it would have rejected is
accepted (C03 / C06 / ..).

Rule: per function, the registry / map / set *queries* (TypeRegistry::get, contains_key, contains, is_resolved, ..) that occur in
enabling conditions of its rejections are a subset of the reviewed ones (spec/guard_enabling.json, from the pinned tree: the name
clash tests of the forwarders and of the impl functions, nothing else).  Container kinds are normalised (a HashSet that becomes a
BTreeSet is the same query).  Conditions on the description itself are the business of the guard rules proper (E1/E2/E5 compare
complete condition sets where that matters)."""
import re, json, os
from mirlib import *
from guards import *

VERIF = os.path.dirname(os.path.dirname(os.path.abspath(__file__)))
REF = os.path.join(VERIF, 'spec', 'guard_enabling.json')
PROPS = [
    (r'type_definition::vftable', ['C06', 'C04', 'C09']),
    (r'type_definition', ['C03', 'C02', 'C07', 'C09']),
    (r'enum_definition', ['C08', 'C09']),
    (r'semantic::function', ['C05', 'C16', 'C09']),
    (r'semantic_state|module|type_registry', ['C10', 'C11', 'C09', 'C19', 'C13', 'C15']),
]
STATE_QUERY = re.compile(r'(TypeRegistry::(get|get_mut|contains|resolved|unresolved)|(?:HashMap|BTreeMap)(?:::)?<.*>::(get|get_mut|contains_key|entry)|'
                         r'(?:HashSet|BTreeSet)(?:::)?<.*>::(contains|get|insert)|Vec::<.*>::contains|slice::<impl \[T\]>::contains|'
                         r'ItemDefinition::(is_resolved|resolved)|RefCell::<.*>::(borrow|borrow_mut)|LocalKey::<.*>::with)$')


def _qname(path):
    m = re.search(r'(TypeRegistry::\w+|ItemDefinition::\w+)$', path)
    if m:
        return m.group(1)
    last = path.split('::')[-1]
    if re.search(r'(HashMap|BTreeMap)', path):
        return 'map.' + last
    if re.search(r'(HashSet|BTreeSet|Vec|slice)', path):
        return 'set.' + ('contains' if last.startswith('contains') else last)
    return last


def state_queries(P):
    """function (closures folded into their creator) -> sorted list of normalised state queries in enabling conditions of its rejections"""
    out, nguards = {}, 0
    for f in P.fns.values():
        if f.raw.get('derived') or not re.match(r'^<?semantic::', f.id):
            continue
        base = re.sub(r'(::\{closure#\d+\})+$', '', f.id)
        try:
            gs = guards_of(f)
        except Exception:
            continue
        for g in gs:
            if g.kind != 'reject':
                continue
            nguards += 1
            try:
                conds = block_conditions(f, g.block)
            except Exception:
                conds = []
            qs = out.setdefault(base, set())
            for c in conds:
                for x in walk(expand(f, c) if isinstance(c, tuple) and c and c[0] in ('call', 'var', 'un', 'bin') else c):
                    if isinstance(x, tuple) and x and x[0] == 'call' and isinstance(x[1], str) and (STATE_QUERY.search(x[1]) or (len(x) > 4 and isinstance(x[4], str) and STATE_QUERY.search(re.sub(r'::<[^<>]*>$', '', x[4])))):
                        qs.add(_qname(x[1]))
    return {k: sorted(v) for k, v in out.items()}, nguards


def run(ctx):
    P = ctx.prog
    try:
        with open(REF) as fh:
            ref = json.load(fh)['functions']
    except Exception as e:
        ctx.fail_closed(['C09'], 'R-ENABLE', 'reference', 'spec/guard_enabling.json missing or unreadable: %s' % e)
        return
    cur, nguards = state_queries(P)
    n = 0
    for fid, qs in sorted(cur.items()):
        if fid not in ref:
            continue
        n += 1
        extra = sorted(set(qs) - set(ref[fid]))
        props = next((pr for rx, pr in PROPS if re.search(rx, fid)), ['C09'])
        ctx.ob(props, 'R-ENABLE', 'enabling|state-queries|%s' % short(fid), not extra,
               'the rejections of %s are reached independently of what is registered / cached, except for the reviewed queries %s%s' % (
                   short(fid), ref[fid], '' if not extra else ': now a rejection also depends on %s — whether the check runs depends on what earlier passes left behind' % extra),
               loc(P.fns[fid].span) if fid in P.fns else '', nontrivial=bool(extra) or bool(ref[fid]))
    selftest = bool(STATE_QUERY.search('semantic::type_registry::TypeRegistry::get')) and bool(STATE_QUERY.search('std::collections::HashSet::<T, S>::contains')) and \
        bool(STATE_QUERY.search('std::collections::HashMap::<K, V, S>::contains_key')) and not STATE_QUERY.search('std::option::Option::<T>::is_some')
    ctx.ob(['C09'], 'R-ENABLE', 'enabling|census', n >= 8 and nguards >= 60 and selftest,
           'functions whose rejections were examined: %d (floor 8), rejections: %d (floor 60); query matcher self-tested' % (n, nguards), nontrivial=False)
