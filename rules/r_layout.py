"""r_layout — structural obligations on the struct-layout code (C01, C02, C03, C20, C13-D4, C05-D5).
Anchors are found by role (signature / data types), obligations are evaluated on MIR-derived
expressions, guards and CFG cuts.  See DESIGN.md section 4 and Appendix D."""
import re
from mirlib import *
from guards import *

REGION = 'semantic::type_definition::Region'
ISR = 'semantic::types::ItemStateResolved'


def anchors(ctx):
    """locate TDB, RR, RP by role; returns dict or None (fail closed recorded)"""
    P = ctx.prog
    A = {}
    tdb = [f for f in P.fns.values() if f.kind != 'Closure' and any('grammar::TypeDefinition' in t for t in f.raw.get('inputs', []))
           and ISR in f.raw.get('output', '')]
    if len(tdb) != 1:
        ctx.fail_closed(['C01', 'C02', 'C03', 'C20'], 'R-ANCHOR', 'TDB', 'expected exactly one function from &grammar::TypeDefinition to ItemStateResolved, found %s' % [f.id for f in tdb])
        return None
    A['TDB'] = tdb[0]
    clo = P.closure_of_calls(tdb[0].id, kinds=('call', 'closure', 'fnref'))
    def returns_regions_and_size(out):
        """Result<..(Vec<Region>, .., usize)..> or Result<..S..> for a crate struct S with a Vec<Region> field and a usize field"""
        if 'Result' not in out:
            return False
        if ('std::vec::Vec<%s>' % REGION) in out and 'usize' in out:
            return True
        for a in P.adts.values():
            if a['kind'] == 'Struct' and len(a['variants']) == 1 and re.search(r'(?<![\w:])' + re.escape(a['path']) + r'(?![\w])', out):
                tys = [f_['ty'] for f_ in a['variants'][0]['fields']]
                if ('std::vec::Vec<%s>' % REGION) in tys and 'usize' in tys and len(tys) >= 3:
                    return True
        return False
    rr = [P.fns[i] for i in clo if P.fns[i].kind != 'Closure' and returns_regions_and_size(P.fns[i].raw.get('output', ''))]
    if len(rr) != 1:
        ctx.fail_closed(['C01', 'C02', 'C03', 'C20'], 'R-ANCHOR', 'RR', 'expected one callee of the type builder returning Result<..(Vec<Region>, .., usize)..>, found %s' % [f.id for f in rr])
        return None
    A['RR'] = rr[0]
    # accumulator ADT: a local struct with a Vec<Region> field and a usize field
    acc = [a for a in P.adts.values() if a['kind'] == 'Struct' and len(a['variants']) == 1
           and any(f['ty'] == 'std::vec::Vec<%s>' % REGION for f in a['variants'][0]['fields'])
           and any(f['ty'] == 'usize' for f in a['variants'][0]['fields'])
           and len(a['variants'][0]['fields']) == 2]
    if len(acc) != 1:
        ctx.fail_closed(['C01', 'C03', 'C20', 'C02'], 'R-ANCHOR', 'RP', 'expected one accumulator struct {Vec<Region>, usize}, found %s' % [a['path'] for a in acc])
        return None
    A['ACC'] = acc[0]
    fl = acc[0]['variants'][0]['fields']
    A['F_REGIONS'] = [f['name'] for f in fl if f['ty'].startswith('std::vec::Vec<')][0]
    A['F_LAST'] = [f['name'] for f in fl if f['ty'] == 'usize'][0]
    rp = [f for f in P.fns.values() if f.kind != 'Closure' and f.raw.get('inputs') and f.raw['inputs'][0] == '&mut ' + acc[0]['path']
          and any(REGION == t for t in f.raw['inputs'])]
    if len(rp) != 1:
        ctx.fail_closed(['C01', 'C03', 'C20', 'C02'], 'R-ANCHOR', 'RP', 'expected one method (&mut accumulator, .., Region), found %s' % [f.id for f in rp])
        return None
    A['RP'] = rp[0]
    return A


def size_of_region(e, region_pred):
    """e == unwrap(Region::size(R, ..)) or unwrap(Type::size(R.type_ref, ..)) with region_pred(R)"""
    u = unwrap_all(e)
    if is_call(u, 'Region::size') and region_pred(strip(u[2][0])):
        return True
    if is_call(u, 'Type::size'):
        r = strip(u[2][0])
        return r[0] == 'field' and r[2] == 'type_ref' and region_pred(strip(r[1]))
    return False


def rp_calls(A, fn):
    return [c for c in fn.calls(lambda r: r['path'] == A['RP'].id)]


def extern_align_guard(ctx):
    """G18: an extern type's declared alignment is rejected unless it is a power of two — unconditionally (every extern type,
    every path): the emitted #[repr(align(N))] does not compile otherwise, and 0 would divide by zero later"""
    P = ctx.prog
    am = [f for f in P.fns.values() if f.id.endswith('SemanticState::add_module')]
    if not am:
        ctx.fail_closed(['C13', 'C02', 'C03'], 'R-GUARD', 'G18|extern-align-power-of-two', 'SemanticState::add_module not found')
        return
    fam_ = method_family(P, am[0], exclude=('SemanticState::add_item',))
    fam_ += [h_ for h_ in exclusive_family(P, am[0], exclude=('SemanticState::add_item',)) if h_ not in fam_ and h_.kind != 'Closure']
    okx, where = False, loc(am[0].span)
    for h_ in fam_:
        for g_ in guards_of(h_):
            if g_.kind == 'reject' and any(isinstance(x, tuple) and x[0] == 'call' and x[1].endswith('::is_power_of_two') for x in walk(g_.pred)):
                # evaluated on every trip of the extern-type loop, or (in a helper whose error the caller propagates) on every
                # path to the helper's success
                cov = covers_each_iteration(h_, g_)[0] if innermost_loop(h_, g_.block) else covers_all_paths(h_, g_)
                if cov:
                    okx, where = True, g_.where()
    ctx.ob(['C13', 'C02', 'C03'], 'R-GUARD', 'G18|extern-align-power-of-two', okx,
           'the `align` of every extern type is tested with is_power_of_two and rejected otherwise, on every path that registers the type', where)


def run(ctx):
    extern_align_guard(ctx)
    A = anchors(ctx)
    if not A:
        return
    ctx.A = A
    p1(ctx, A)
    rr_rules(ctx, A)
    tdb_rules(ctx, A)
    seq_rules(ctx)
    stale_state(ctx)
    type_size_rules(ctx)
    plumbing(ctx)
    accumulating_loops(ctx)
    registry_never_shrinks(ctx)


# ------------------------------------------------------------------------------------------------
def p1(ctx, A):
    """P1 (C01-D1, C20-D1): push of a region <=> accumulator += size of that region"""
    rp = A['RP']
    where = loc(rp.span)
    props = ['C01', 'C20', 'C03']
    pushes = [c for c in rp.calls(lambda r: r['path'] and r['path'].endswith('Vec::<T, A>::push'))
              if strip(rp.expr_of_operand(c['term']['args'][0])) == ('field', ('arg', 1, rp.names.get(1, '_1')), A['F_REGIONS'])]
    stores = []
    for (bi, si, kind, payload, span) in rp.stores().get(1, []):
        p = payload['place'] if kind == 'rv' else payload['dest']
        flds = [e for e in p['proj'] if e['k'] == 'Field']
        if flds and flds[0]['name'] == A['F_LAST']:
            e = rp.expr_of_rvalue(payload['rv']) if kind == 'rv' else rp.expr_of_call(payload)
            stores.append((bi, e, span))
    ok = len(pushes) == 1 and len(stores) == 1
    ctx.ob(props, 'R-PAIR', 'P1|sites', ok, 'Regions::push has exactly one Vec<Region>::push on self.%s and one store to self.%s (found %d / %d)' % (
        A['F_REGIONS'], A['F_LAST'], len(pushes), len(stores)), where)
    if not ok:
        return
    pb = pushes[0]['block']
    sb, sv, ssp = stores[0]
    pushed = strip(rp.expr_of_operand(pushes[0]['term']['args'][1]))
    is_region_arg = pushed[0] == 'arg' and rp.local_ty(pushed[1]) == REGION
    ctx.ob(props, 'R-PAIR', 'P1|pushed-is-parameter', is_region_arg, 'the pushed value is the region parameter itself: %s' % show(pushed), loc(pushes[0]['span']))
    last = ('field', ('arg', 1, rp.names.get(1, '_1')), A['F_LAST'])
    shape = sv[0] == 'bin' and sv[1] == 'Add' and (
        (strip(sv[2]) == last and size_of_region(sv[3], lambda r: r == pushed)) or
        (strip(sv[3]) == last and size_of_region(sv[2], lambda r: r == pushed)))
    if not shape and sv[0] == 'payload' or (sv[0] in ('try',)):
        # checked form: self.last = self.last.checked_add(size)?
        u = unwrap_all(sv)
        shape = is_call(u, 'checked_add') and strip(u[2][0]) == last and size_of_region(u[2][1], lambda r: r == pushed)
    ctx.ob(props, 'R-PAIR', 'P1|advance-by-own-size', shape,
           'the accumulator is advanced by exactly the size of the pushed region: self.%s = %s' % (A['F_LAST'], show(sv)[:160]), loc(ssp))
    paired = (rp.dominates(pb, sb) and rp.postdominates(sb, pb)) or (rp.dominates(sb, pb) and rp.postdominates(pb, sb))
    ctx.ob(props, 'R-PAIR', 'P1|paired', paired, 'push and accumulator update happen on exactly the same paths (dominance + post-dominance)', where)
    # the only other normal path: size == 0 && is_array
    gs = guards_of(rp)
    other_ok = True
    detail = []
    for x in rp.exits():
        if x['kind'] != 'some':
            continue
        if rp.dominates(pb, x['block']):
            continue
        # a Some(()) return that skips the push: must be dominated by size==0 and is_array tests
        doms = [(show(norm_pred(s['cond'], lab)), s, lab) for s in rp.switches() for lab, tgt in s['edges']
                if rp.dominates(tgt, x['block']) and rp.pred(tgt) == [s['block']]]
        has_zero = any(cmp_parts(norm_pred(s['cond'], lab)) and cmp_parts(norm_pred(s['cond'], lab))[0] == 'Eq'
                       and is_int(cmp_parts(norm_pred(s['cond'], lab))[2], 0)
                       and size_of_region(cmp_parts(norm_pred(s['cond'], lab))[1], lambda r: r == pushed) for _, s, lab in doms)
        has_arr = any(is_call(norm_pred(s['cond'], lab), 'Type::is_array') for _, s, lab in doms)
        detail.append([d[0] for d in doms])
        if not (has_zero and has_arr):
            other_ok = False
    # None means "this type cannot be laid out yet, try again later": it may only come from a size that is not known yet
    # (`region.size(..)?`), never from the accumulator itself (a None on the zero-size path would defer the type for ever)
    from mirlib import _edge_conds
    nones_ = [x for x in rp.exits() if x['kind'] in ('none', 'none_prop') or (x['kind'] != 'some' and strip(x['expr'])[0] == 'agg' and strip(x['expr'])[1].endswith('Option::None'))]

    def from_unknown_size(x):
        # `region.size(..)?`, or the None arm of a match / let-else on region.size(..)
        for _b, c_, lab_ in _edge_conds(rp, x['block']):
            if c_[0] == 'discr' and lab_ == 'None' and size_of_region(('payload', c_[1], 'Some', 0), lambda r: r == pushed):
                return True
        if x['kind'] == 'none_prop':
            for s_ in rp.switches():
                c_ = s_['cond']
                if c_[0] == 'discr' and strip(c_[1])[0] == 'call' and strip(c_[1])[3] == TRY_BRANCH and size_of_region(('payload', strip(c_[1])[2][0], 'Some', 0), lambda r: r == pushed) and \
                        any(rp.dominates(tgt, x['block']) for lab_, tgt in s_['edges'] if lab_ not in ('Continue',)):
                    return True
        return False
    own_none = [x for x in nones_ if not from_unknown_size(x)]
    props_ = [x for x in nones_ if from_unknown_size(x)]
    ctx.ob(['C10', 'C03', 'C01'], 'R-ERR', 'P1|none-only-from-unknown-size', not own_none and len(props_) >= 1,
           'Regions::push returns None only by propagating an unknown size (%d `?` sites, %d literal None returns)' % (len(props_), len(own_none)), where)
    skips_ = [x for x in rp.exits() if x['kind'] == 'some' and not rp.dominates(pb, x['block'])]
    other_ok = other_ok and len(skips_) == 1        # and there IS such a path: zero-length padding must vanish (C20: an address equal to
    #                                                 the current end, or a size equal to the natural size, adds no `[u8; 0]` field)
    ctx.ob(['C01', 'C20'], 'R-PAIR', 'P1|skip-only-zero-sized-arrays', other_ok,
           'a region is skipped without being pushed only under size == 0 && is_array (so named zero-sized fields are kept and zero-length padding vanishes): %s' % detail, where)


# ------------------------------------------------------------------------------------------------
def rr_rules(ctx, A):
    rr = A['RR']
    P = ctx.prog
    where = loc(rr.span)
    calls = rp_calls(A, rr)
    # a padding wrapper on the accumulator — fn push_padding(&mut self, registry, n) { self.push(registry, Region::unnamed_field(
    # registry.padding_type(n))) } — counts as a push of that padding region with amount = the argument passed for n
    for w in P.fns.values():
        if w.kind == 'Closure' or w.id == A['RP'].id or not w.raw.get('inputs') or w.raw['inputs'][0] != A['RP'].raw['inputs'][0]:
            continue
        wc = rp_calls(A, w)
        wx = w.exits()
        if len(wc) != 1 or not wx or not all(unreachable_without(w, x['block'], {wc[0]['block']}) for x in wx):
            continue
        if not all(strip(x['expr']) == strip(w.expr_of_call(wc[0]['term'])) for x in wx):
            continue
        reg = strip(w.expr_of_operand(wc[0]['term']['args'][2])) if len(wc[0]['term']['args']) > 2 else None
        if reg is None or not is_call(reg, 'Region::unnamed_field') or not is_call(reg[2][0], 'padding_type'):
            continue
        amt = strip(reg[2][0][2][-1])
        if amt[0] != 'arg':
            continue
        for c in rr.calls(lambda r: r['path'] == w.id):
            args_ = [rr.expr_of_operand(a) for a in c['term']['args']]
            c2 = dict(c)
            c2['synth_region'] = subst_args(reg, args_)
            calls.append(c2)
    calls.sort(key=lambda c: c['block'])
    ctx.ob(['C01', 'C10'], 'R-ERR', 'RP-calls|count', len(calls) >= 3, 'resolve_regions calls Regions::push at %d sites (floor 3: vftable pointer, padding, field)' % len(calls), where, nontrivial=False)
    gs = guards_of(rr)
    # every push result is checked: is_none(push(..)) => Ok(None)
    for i, c in enumerate(calls):
        ce = rr.expr_of_call(c['term'])
        ok = any(g.kind == 'defer' and g.pred[0] == 'is_none' and g.pred[1] == ce for g in gs) or \
            any(g.kind in ('defer', 'reject') and g.pred[0] in ('fails', 'is_none') and ce in list(walk(g.pred)) for g in gs)
        ctx.ob(['C10', 'C01'], 'R-ERR', 'RP-result-checked|%d' % i, ok, 'the Option returned by Regions::push is tested and None defers the type (never ignored)', loc(c['span']), show(ce)[:160])

    # classify the push sites by what they push
    def region_arg(c):
        if c.get('synth_region') is not None:
            return strip(c['synth_region'])
        return strip(rr.expr_of_operand(c['term']['args'][2])) if len(c['term']['args']) > 2 else None
    pad_addr, pad_tail, field_push, vft_push, other = [], [], [], [], []
    for c in calls:
        r = region_arg(c)
        if r is None:
            other.append(c)
            continue
        if is_call(r, 'Region::unnamed_field') or (r[0] == 'agg' and r[1].endswith('Region')):
            inner = r[2][0] if r[0] == 'call' else dict(r[2]).get('type_ref')
            amount = None
            if inner is not None and is_call(inner, 'padding_type'):
                amount = inner[2][-1]
            ds = diff_sem(rr, amount) if amount is not None else None
            if ds is not None and any(is_call(x, 'Iterator::next') for x in walk(ds[0])):
                pad_addr.append((c, amount))
            elif amount is not None:
                pad_tail.append((c, amount))
            else:
                other.append(c)
        elif find_calls(r, 'vftable::build') or (r[0] == 'payload' and find_calls(r, 'vftable::')):
            vft_push.append(c)
        elif any(isinstance(x, tuple) and is_call(x, 'Iterator::next') for x in walk(r)):
            field_push.append(c)
        else:
            other.append(c)
    ctx.ob(['C01', 'C03'], 'R-DOM', 'RR|push-sites-classified', len(pad_addr) == 1 and len(field_push) == 1 and len(vft_push) <= 1 and not other,
           'push sites: %d address padding, %d field, %d vftable pointer, %d trailing padding, %d unclassified' % (
               len(pad_addr), len(field_push), len(vft_push), len(pad_tail), len(other)), where)
    last_acc = lambda e: strip(e)[0] == 'field' and strip(e)[2] == A['F_LAST']
    if len(pad_addr) == 1 and len(field_push) == 1:
        (pc, amount) = pad_addr[0]
        fc = field_push[0]
        # G1: overlap guard
        addr, base, _conds, cs = diff_sem(rr, amount)
        if cs is not None:
            g1 = [g for g in gs if g.kind == 'reject' and g.pred[0] == 'is_none' and g.pred[1] == cs]
        else:
            # the explicit spelling: `if address < end { bail }` in front of `address - end`
            cs = ('bin', 'Sub', addr, base)
            g1 = [g for g in gs if g.kind == 'reject' and cmp_parts(g.pred) and rr.dominates(g.block, pc['block']) and
                  ((cmp_parts(g.pred)[0] == 'Lt' and strip(cmp_parts(g.pred)[1]) == strip(addr) and strip(cmp_parts(g.pred)[2]) == strip(base)) or
                   (cmp_parts(g.pred)[0] == 'Gt' and strip(cmp_parts(g.pred)[2]) == strip(addr) and strip(cmp_parts(g.pred)[1]) == strip(base)))]
        ctx.ob(['C01', 'C03'], 'R-GUARD', 'G1|overlap-rejected', len(g1) == 1,
               'an explicit address below the current end is rejected: is_none(checked_sub(address, end)) ⇒ Err', loc(pc['span']), show(cs)[:200])
        elem_addr = unwrap_all(addr)
        # the address is the element's own Option<usize>, unfiltered: a pure access path from the loop element
        pure_addr = all(re.search(r'Iterator::next$|IntoIterator::into_iter$', c_[3]) for c_ in calls_in(addr)) and \
            not any(isinstance(x, tuple) and x[0] in ('bin', 'un', 'cast') for x in walk(addr))
        ok_e1 = pure_addr and (last_acc(base) and any(is_call(x, 'Iterator::next') for x in walk(addr)) and amount == ('payload', cs, 'Some', 0) or
                               (last_acc(base) and unwrap_all(amount) == cs) or
                               (last_acc(base) and cs[0] == 'bin' and len(g1) == 1))       # a − b spelled otherwise (saturating), under the overlap guard
        # and under no further condition: the push runs whenever the element has an address that is not below the current end
        pcs = push_conditions(rr, pc['block'])
        def _is_room(c_):
            cp_ = cmp_parts(c_)
            return bool(cp_) and ((cp_[0] == 'Ge' and strip(cp_[1]) == strip(addr) and strip(cp_[2]) == strip(base)) or
                                  (cp_[0] == 'Le' and strip(cp_[2]) == strip(addr) and strip(cp_[1]) == strip(base)))
        extra = [c_ for c_ in pcs if not (c_[0] == 'is_some' and strip(c_[1]) == strip(unwrap_all(addr))) and not _is_room(c_) and
                 not (c_[0] == 'is_some' and strip(c_[1]) == cs)]
        ok_e1 = ok_e1 and not _conds and not extra
        # and the padding branch is entered for every Some(address): the switch that guards it tests the element's field itself
        swp = [s_ for s_ in rr.switches() if s_['cond'][0] == 'discr' and any(rr.dominates(tgt, pc['block']) and lab == 'Some' for lab, tgt in s_['edges'])
               and any(is_call(x, 'Iterator::next') for x in walk(s_['cond'][1])) and strip(s_['cond'][1])[0] == 'field']
        ok_e1 = ok_e1 and len(swp) >= 1
        ctx.ob(['C01', 'C03', 'C20'], 'R-EXPR', 'E1|padding-amount', ok_e1,
               'padding before an addressed field is exactly address − current end (same checked_sub result): %s' % show(amount)[:200], loc(pc['span']))
        # the padding is for the same loop element as the field that follows
        same_elem = [x for x in walk(addr) if is_call(x, 'Iterator::next')] and [x for x in walk(region_arg(fc)) if is_call(x, 'Iterator::next')] and \
            [x for x in walk(addr) if is_call(x, 'Iterator::next')][0] == [x for x in walk(region_arg(fc)) if is_call(x, 'Iterator::next')][0]
        ctx.ob(['C01'], 'R-EXPR', 'E1|same-element', bool(same_elem), 'the address and the region pushed after the padding come from the same loop element', loc(fc['span']))
        # order: padding precedes the field in the same iteration
        L = innermost_loop(rr, fc['block'])
        if L:
            h = L[0]
            before = fc['block'] in rr.reach(pc['block'], stop={h}) and pc['block'] not in rr.reach(fc['block'], stop={h})
            ctx.ob(['C01'], 'R-DOM', 'RR|padding-before-field', before and pc['block'] in L[1],
                   'within one iteration the padding push reaches the field push and not the reverse (padding is placed before the field)', loc(pc['span']))
            # the field push happens in every iteration that does not leave with Err / Ok(None)
            from r_panic import cycle_without
            every = not cycle_without(rr, L[1], h, {fc['block']})
            ctx.ob(['C01', 'C14', 'C03', 'C20'], 'R-DOM', 'RR|every-field-pushed', every, 'every trip around the field loop pushes the field region (no field is skipped)', loc(fc['span']))
            sty, src = loop_source(rr, L)
            # the vector's own iterator (an adapter would show up as the iterator type); the element may be a tuple or a struct
            unadapted = sty is not None and re.match(r"^(std::vec::IntoIter<|std::slice::Iter<'_, )[^<>]*(<[^<>]*>[^<>]*)*>$", sty) and not re.search(r'std::iter::', sty)
            srcs = strip(src) if src else None
            direct = srcs is not None and is_call(srcs, 'into_iter') and strip(srcs[2][0])[0] == 'arg'
            ctx.ob(['C01', 'C03'], 'R-ITER', 'RR|field-loop-unadapted', bool(unadapted and direct),
                   'the field loop iterates the pending-region vector itself, in order, without adapters (iterator type %s, source %s)' % (sty, show(src)[:80] if src else None), loc(rr.term(h)['span']))
        else:
            ctx.fail_closed(['C01'], 'R-DOM', 'RR|padding-before-field', 'field push is not inside a loop', loc(fc['span']))
    # D3: vftable pointer region first
    if vft_push:
        vb = vft_push[0]['block']
        others_ = [c for c in calls if c['block'] != vb]
        first = all(vb not in rr.reach(c['block']) for c in others_) and all(c['block'] in rr.reach(vb) for c in others_)
        ctx.ob(['C01', 'C06', 'C04', 'C20'], 'R-DOM', 'RR|vftable-pointer-first', first,
               'the vftable-pointer region is pushed before any other region (no other push can reach it; it reaches all others), i.e. offset 0', loc(vft_push[0]['span']))
    else:
        # the accumulator may start out holding the vftable-pointer region instead: regions = from_iter(<that optional region>) and
        # last_address = its size (0 without one) — the same state as pushing it first onto an empty accumulator
        ok_init, det_init = False, 'no push of the region returned by vftable::build found'
        for l_ in range(rr.nargs + 1, len(rr.raw['locals'])):
            if rr.local_ty(l_) != A.get('ACC_TY', rr.local_ty(l_)) or not re.search(r'Regions$', rr.local_ty(l_)):
                continue
            for d_ in rr.defs().get(l_, []):
                e_ = strip(expand(rr, rr.expr_of_def(d_)))
                if e_[0] != 'agg' or len(e_[2]) != 2:
                    continue
                fl_ = dict(e_[2])
                rg_, la_ = strip(fl_.get(A['F_REGIONS'], ('x',))), strip(fl_.get(A['F_LAST'], ('x',)))
                if not (rg_[0] == 'call' and re.search(r'(FromIterator::from_iter|Iterator::collect)$', rg_[3] if len(rg_) > 3 else rg_[1]) and len(rg_[2]) == 1):
                    continue
                V = strip(rg_[2][0])
                while V[0] == 'call' and len(V[2]) == 1 and re.search(r'(IntoIterator::into_iter|Option::<T>::into_iter)$', V[3] if len(V) > 3 else V[1]):
                    V = strip(V[2][0])
                if not (find_calls(V, 'vftable::build') and V[0] == 'field' and V[2] == '1'):
                    continue
                okla = False
                if la_[0] == 'call' and re.search(r'Option::<T>::unwrap_or$', la_[1]) and len(la_[2]) == 2 and is_int(la_[2][1], 0):
                    conds_, v_ = opt_sem(rr, la_[2][0])
                    v_ = unwrap_all(v_)
                    okla = is_call(v_, 'Region::size') and strip(v_[2][0]) == ('payload', V, 'Some', 0) and \
                        all(c_[0] == 'is_some' and (strip(c_[1]) == V or is_call(strip(c_[1]), 'Region::size')) for c_ in conds_)
                # nothing is pushed in front of it later: every push appends
                ok_init = okla
                det_init = 'initial accumulator {regions: from_iter(vftable region), last_address: its size or 0}: %s' % okla
        ctx.ob(['C01', 'C06', 'C04', 'C20'], 'R-DOM', 'RR|vftable-pointer-first', ok_init, det_init, where)
    # G5 / E2: declared size
    ts = [i for i in range(1, rr.nargs + 1) if rr.local_ty(i) == 'std::option::Option<usize>']
    ret = [x for x in rr.exits() if x['kind'] == 'ok_some']
    size_out = None
    if ret:
        e = ret[0]['expr']
        tup = e[2][0][1][2][0][1] if e[0] == 'agg' else None
        if tup and tup[0] == 'agg' and tup[1] in P.adts and tup[2]:
            # the result as a small struct instead of a tuple: same components
            tup = ('tuple', [v for _k, v in tup[2]])
        if tup and tup[0] == 'tuple':
            us = [x for x in tup[1] if x[0] in ('var', 'arg') and rr.local_ty(x[1]) == 'usize']
            size_out = us[0] if us else None
            ret_regions = [x for x in tup[1] if strip(x)[0] == 'field' and strip(x)[2] == A['F_REGIONS']]
            ctx.ob(['C01', 'C02'], 'R-EXPR', 'RR|returns-accumulated-regions', len(ret_regions) == 1,
                   'the region vector returned is the accumulator\'s own vector: %s' % [show(x) for x in tup[1]], loc(ret[0]['span']))
    if not ts or size_out is None:
        ctx.fail_closed(['C02', 'C03'], 'R-GUARD', 'G5', 'cannot identify the declared-size parameter / returned size of resolve_regions', where)
    else:
        tsv = ('arg', ts[0], rr.names.get(ts[0], '_%d' % ts[0]))
        g5 = []
        for g in gs:
            cp = cmp_parts(g.pred)
            if g.kind == 'reject' and cp:
                op, a, b = cp
                if strip(b) == size_out and unwrap_all(a) == tsv:
                    op, a, b = SWAP[op], b, a
                if strip(a) == size_out and unwrap_all(b) == tsv:
                    g5.append((g, op))
        okop = len(g5) == 1 and g5[0][1] in ('Ne', 'Gt')
        ctx.ob(['C02', 'C03'], 'R-GUARD', 'G5|declared-size', okop,
               'computed size {!=,>} declared size ⇒ Err (found %s)' % [(show(g.pred)[:80], op) for g, op in g5], g5[0][0].where() if g5 else where)
        if g5:
            none_edges = [(s['block'], tgt) for s in rr.switches() if s['cond'][0] == 'discr' and strip(s['cond'][1]) == tsv for lab, tgt in s['edges'] if lab == 'None']
            cov = covers_all_paths(rr, g5[0][0], exempt_edges=none_edges)
            ctx.ob(['C02', 'C03'], 'R-DOM', 'G5|covers-success', cov, 'whenever a size is declared, the size test lies on every path to Ok(Some(..))', g5[0][0].where())
        # size_out is the sum of Region::size over the returned vector
        defs = rr.init_of(size_out[1])
        L = None
        okd7 = False
        for d in defs:
            if d[0] == 'bin' and d[1] == 'Add' and strip(d[2]) == size_out:
                u = unwrap_all(d[3])
                if is_call(u, 'Region::size') or is_call(u, 'Type::size'):
                    okd7 = True
        zero = any(is_int(d, 0) for d in defs)
        ctx.ob(['C01', 'C02'], 'R-EXPR', 'D7|size-is-sum-of-region-sizes', okd7 and zero and len(defs) == 2,
               'the returned size starts at 0 and is only ever advanced by the size of a region: %s' % [show(d)[:100] for d in defs], where)
        # E2 trailing padding
        if pad_tail:
            (tc, amount) = pad_tail[0]
            ds = diff_sem(rr, amount)
            okamt = ds is not None and unwrap_all(ds[0]) == tsv and last_acc(ds[1])
            dom = [g for s in rr.switches() for lab, tgt in s['edges'] for g in [norm_pred(s['cond'], lab)]
                   if rr.dominates(tgt, tc['block']) and rr.pred(tgt) == [s['block']] and cmp_parts(g)]
            # conditions folded into a combinator chain whose payload is the amount
            dom += [canon_pred(c_) for c_ in (ds[2] if ds else []) if cmp_parts(canon_pred(c_))]
            okg = False
            for g in dom:
                op, a, b = cmp_parts(g)
                if last_acc(b) and unwrap_all(a) == tsv:
                    op, a, b = SWAP[op], b, a
                if last_acc(a) and unwrap_all(b) == tsv and op in ('Lt', 'Le'):
                    okg = True
            # and under no further condition
            def _is_short(c_):
                cp_ = cmp_parts(c_)
                if not cp_:
                    return False
                op, a, b = cp_
                if last_acc(b) and unwrap_all(a) == tsv:
                    op, a, b = SWAP[op], b, a
                return last_acc(a) and unwrap_all(b) == tsv and op in ('Lt', 'Le')
            extra2 = [c_ for c_ in push_conditions(rr, tc['block']) if not (c_[0] == 'is_some' and strip(c_[1]) == tsv) and not _is_short(c_)]
            okg = okg and not extra2
            ctx.ob(['C02', 'C20'], 'R-EXPR', 'E2|trailing-padding', okamt and okg,
                   'trailing padding is declared size − current end, under current end {<,<=} declared size: %s' % show(amount)[:120], loc(tc['span']))
        else:
            ctx.ob(['C02', 'C20'], 'R-EXPR', 'E2|trailing-padding', False, 'no trailing-padding push found', where)
    # C20-D2: single normalisation point for unnamed regions
    norm_sites = []
    for f in P.fns.values():
        if f.raw.get('derived'):
            continue
        for bi in f.normal_blocks():
            for op in f.block_operands(bi):
                if op.get('k') == 'Const' and '_field_' in (op.get('text') or '') + (op.get('str') or ''):
                    norm_sites.append(f.id)
    ctx.ob(['C20', 'C17'], 'R-SLP', 'C20-D2|single-naming-site', sorted(set(norm_sites)) == [rr.id],
           'generated `_field_<offset>` names are produced at exactly one place (resolve_regions): %s' % sorted(set(norm_sites)), where)
    st_ok = False
    st_detail = ''
    for l, sts in rr.stores().items():
        for (bi, si, kind, payload, span) in sts:
            if kind != 'rv':
                continue
            e = rr.expr_of_rvalue(payload['rv'])
            if e[0] == 'agg' and e[1] == REGION:
                flds = dict(e[2])
                vis = flds.get('visibility')
                name = flds.get('name')
                st_detail = show(e)[:300]
                name_ok = name is not None and name[0] == 'agg' and name[1].endswith('Option::Some') and size_out is not None and any(x == size_out for x in walk(name))
                st_ok = (vis is not None and vis[0] == 'agg' and vis[1].endswith('Visibility::Private') and
                         flds.get('doc', ('x',))[0] == 'agg' and flds['doc'][1].endswith('Option::None') and
                         flds.get('is_base') == ('int', 0, 'bool') and name_ok)
                # only applied to regions without a name
                dom = any(norm_pred(s['cond'], lab)[0] == 'is_none' and strip(norm_pred(s['cond'], lab)[1])[0] == 'field' and strip(norm_pred(s['cond'], lab)[1])[2] == 'name'
                          and rr.dominates(tgt, bi) and rr.pred(tgt) == [s['block']] for s in rr.switches() for lab, tgt in s['edges'])
                st_ok = st_ok and dom
    if not st_ok:
        # the same rewrite written field by field: all four fields are stored under the name-is-None test
        for l, sts in rr.stores().items():
            fl = {}
            for (bi, si, kind, payload, span) in sts:
                pr = (payload.get('place') or {}).get('proj') or [] if kind == 'rv' else []
                if len(pr) == 2 and pr[0].get('k') == 'Deref' and pr[1].get('k') == 'Field' and pr[1].get('adt') == REGION:
                    fl.setdefault(pr[1]['name'], []).append((bi, rr.expr_of_rvalue(payload['rv'])))
            if not {'visibility', 'name', 'doc', 'is_base'} <= set(fl) or any(len(v) != 1 for v in fl.values()):
                continue

            def under_none(bi):
                for s_ in rr.switches():
                    for lab, tgt in s_['edges']:
                        c_ = s_['cond']
                        hit = (c_[0] == 'discr' and strip(c_[1])[0] == 'field' and strip(c_[1])[2] == 'name' and lab == 'None') or \
                              (is_call(c_, 'Option::<T>::is_none') and strip(c_[2][0])[0] == 'field' and strip(c_[2][0])[2] == 'name' and lab is True) or \
                              (is_call(c_, 'Option::<T>::is_some') and strip(c_[2][0])[0] == 'field' and strip(c_[2][0])[2] == 'name' and lab is False)
                        if hit and rr.dominates(tgt, bi) and rr.pred(tgt) == [s_['block']]:
                            return True
                return False
            vis, name, doc, isb = fl['visibility'][0], fl['name'][0], fl['doc'][0], fl['is_base'][0]
            name_ok = name[1][0] == 'agg' and name[1][1].endswith('Option::Some') and size_out is not None and any(x == size_out for x in walk(name[1]))
            st_detail = 'field-wise: ' + ', '.join('%s := %s' % (k, show(v[0][1])[:50]) for k, v in sorted(fl.items()))
            st_ok = (vis[1][0] == 'agg' and vis[1][1].endswith('Visibility::Private') and doc[1][0] == 'agg' and doc[1][1].endswith('Option::None') and
                     isb[1] == ('int', 0, 'bool') and name_ok and all(under_none(x[0]) for x in (vis, name, doc, isb)))
    ctx.ob(['C20', 'C17'], 'R-SLP', 'C20-D2|normal-form', st_ok,
           'an unnamed region is rewritten to {Private, name from the running offset, no doc, not base} only when its name is None: %s' % st_detail, where)
    # E6 first base
    vb = [c for c in rr.calls(lambda r: r['path'] and r['path'].endswith('vftable::build'))]
    if vb:
        args = [rr.expr_of_operand(a) for a in vb[0]['term']['args']]
        fb = [a for a in args if is_call(a, 'Iterator::find')]
        if not fb:
            # find(..) followed by a pure projection of the found pair: find(|(_, r)| r.is_base).map(|(_, r)| r)
            for a in args:
                a2 = strip(expand(rr, a))
                if is_call(a2, 'Option::<T>::map') and len(a2[2]) == 2 and is_call(strip(a2[2][0]), 'Iterator::find'):
                    pf_ = predicate_fn(P, a2[2][1])
                    ex_ = [strip(x_['expr']) for x_ in pf_.exits()] if pf_ is not None else []
                    proj = len(ex_) == 1 and not pf_.switches() and (ex_[0][0] in ('field', 'arg') and all(y[0] in ('field', 'arg') for y in walk(ex_[0]) if isinstance(y, tuple) and y))
                    if proj:
                        fb = [strip(a2[2][0])]
        ok = False
        det = ''
        if fb:
            src = fb[0][2][0]
            if src[0] == 'var':
                ini = rr.init_of(src[1])
                if len(ini) == 1:
                    src = ini[0]
            det = show(('call', fb[0][1], [src, fb[0][2][1]], fb[0][3], fb[0][4]))[:200]
            chain = [c[1] for c in calls_in(src)]
            adapters = [short(c) for c in chain]
            bad = [c for c in chain if re.search(r'Iterator::(rev|skip|take|filter|step_by|skip_while|chain|map_while|scan|take_while|fuse|cycle)$|::last$', c)]
            cl = fb[0][2][1]
            pred_ok = False
            if cl[0] == 'closure' and cl[1] in P.fns:
                cf = P.fns[cl[1]]
                pred_ok = any(strip(x['expr'])[0] == 'field' and strip(x['expr'])[2] == 'is_base' for x in cf.exits())
            ok = not bad and pred_ok and any(strip(x)[0] == 'arg' for x in walk(src))
        ctx.ob(['C06', 'C04', 'C07', 'C20'], 'R-EXPR', 'E6|first-base', ok, 'the base consulted for a vftable is the first pending region with is_base, found over the unadapted list: %s' % det, loc(vb[0]['span']))
    else:
        ctx.fail_closed(['C06'], 'R-EXPR', 'E6|first-base', 'no call to vftable::build in resolve_regions', where)


# ------------------------------------------------------------------------------------------------
def tdb_rules(ctx, A):
    tdb = A['TDB']
    rr = A['RR']
    P = ctx.prog
    where = loc(tdb.span)
    gs = guards_of(tdb) + lifted_guards(tdb, skip={rr.id})
    ok_exit = [x for x in tdb.exits() if x['kind'] == 'ok_some']
    if len(ok_exit) != 1:
        ctx.fail_closed(['C01', 'C02', 'C03', 'C05', 'C07'], 'R-ANCHOR', 'TDB|success-exit', 'expected one Ok(Some(ItemStateResolved{..})) exit, found %d' % len(ok_exit), where)
        return
    isr = ok_exit[0]['expr'][2][0][1][2][0][1]
    if isr[0] != 'agg' or not isr[1].endswith('ItemStateResolved'):
        ctx.fail_closed(['C01', 'C02', 'C03', 'C05', 'C07'], 'R-ANCHOR', 'TDB|success-exit', 'success value is not an ItemStateResolved literal: %s' % show(isr)[:100], where)
        return
    F = dict(isr[2])
    S, AL, inner = F.get('size'), F.get('alignment'), F.get('inner')
    td = None
    for x in walk(inner):
        if isinstance(x, tuple) and x[0] == 'agg' and x[1].endswith('type_definition::TypeDefinition'):
            td = dict(x[2])
    if td is None:
        ctx.fail_closed(['C01', 'C02', 'C03', 'C05', 'C07'], 'R-ANCHOR', 'TDB|success-exit', 'no TypeDefinition literal in the success value', where)
        return
    R = strip(td['regions'])
    packed = strip(td['packed'])
    # the type's own doc text is the doc of its own attribute list (C17), handed on as it is
    d0 = strip(td.get('doc', ('x',)))
    hops_ = 0
    while d0[0] == 'var' and len(tdb.defs().get(d0[1], [])) == 1 and not (1 <= d0[1] <= tdb.nargs) and hops_ < 4:
        d0, hops_ = strip(tdb.expr_of_def(tdb.defs()[d0[1]][0])), hops_ + 1
    dcall = unwrap_all(d0)
    okdoc = is_call(dcall, 'Attributes::doc') and dcall[2] and strip(dcall[2][0])[0] == 'field' and strip(dcall[2][0])[2] == 'attributes' and \
        strip(strip(dcall[2][0])[1])[0] in ('arg', 'var') and not any(isinstance(y, tuple) and y and y[0] == 'payload' for y in walk(strip(dcall[2][0])))
    # the functions stored in the type are the very list that the impl-function loop (and the base-function injector) filled
    af = strip(td.get('associated_functions', ('x',)))
    okaf, detaf = False, show(af)[:60]
    if af[0] == 'var':
        npush = 0
        for g_ in [tdb] + P.closures_of(tdb):
            for c_ in g_.calls(lambda r: r['path'] and r['path'].endswith('Vec::<T, A>::push')):
                recv = strip(g_.expr_of_operand(c_['term']['args'][0]))
                if g_ is tdb and recv[:2] == af[:2]:
                    npush += 1
                elif g_ is not tdb and recv[0] == 'upvar':
                    # the closure captured the list: its creation site in the builder names the captured local
                    for bi_ in tdb.normal_blocks():
                        for st_ in tdb.blocks[bi_]['stmts']:
                            if st_['k'] == 'Assign' and st_['rv']['k'] == 'Aggregate' and st_['rv'].get('closure_id') == g_.id and recv[1] < len(st_['rv']['ops']):
                                cap = strip(tdb.expr_of_operand(st_['rv']['ops'][recv[1]]))
                                while cap[0] in ('ref', 'deref'):
                                    cap = strip(cap[1])
                                if cap[:2] == af[:2]:
                                    npush += 1
        # a helper that is handed `&mut <the list>` fills it too
        for c_ in tdb.calls(lambda r: r['path'] in P.fns):
            for a_ in c_['term']['args']:
                ae = strip(tdb.expr_of_operand(a_))
                while ae[0] in ('ref', 'deref'):
                    ae = strip(ae[1])
                if ae[:2] == af[:2] and str((a_.get('place') or {}).get('ty', '')).startswith('&mut '):
                    npush += 1
        inits = tdb.init_of(af[1])
        okaf = npush >= 2 and len(inits) == 1 and is_call(strip(inits[0]), 'Vec::') and re.search(r'::new$', strip(inits[0])[1]) is not None
        detaf = '%s: %d push site(s) fill it, starts as %s' % (show(af)[:40], npush, [show(i_)[:30] for i_ in inits])
    ctx.ob(['C05', 'C07', 'C14'], 'R-SLP', 'TDB|associated-functions-stored', okaf, 'TypeDefinition.associated_functions is the list the impl-function loop and the base-function injector push into: %s' % detaf, where)
    ctx.ob(['C17'], 'R-SLP', 'TDB|doc-from-own-attributes', okdoc, 'TypeDefinition.doc is Attributes::doc of the definition\'s own attribute list, unchanged: %s' % show(d0)[:100], where)
    rrcall = [x for x in walk(R) if is_call(x, rr.id)]

    def pure_projection(e):
        # a component of the value resolve_regions returned, taken out as it is: nothing computed on it, no second source merged in
        for _ in range(12):
            e = strip(e)
            if e[0] == 'call' and e[1] == rr.id:
                return True
            if e[0] in ('field', 'payload', 'try'):
                e = e[1]
            elif e[0] == 'call' and (e[3].endswith('Context::with_context') or e[3].endswith('Context::context')) and e[2]:
                e = e[2][0]
            elif e[0] == 'var' and len(tdb.defs().get(e[1], [])) == 1 and not (1 <= e[1] <= tdb.nargs):
                e = tdb.expr_of_def(tdb.defs()[e[1]][0])
            else:
                return False
        return False
    ctx.ob(['C01', 'C02'], 'R-SLP', 'TDB|regions-from-resolve_regions', bool(rrcall) and pure_projection(R), 'TypeDefinition.regions is the vector returned by resolve_regions, unchanged: %s' % show(R)[:120], where)
    ctx.ob(['C02', 'C03'], 'R-SLP', 'TDB|size-from-resolve_regions', any(is_call(x, rr.id) for x in walk(S)) and pure_projection(S), 'ItemStateResolved.size is the size returned by resolve_regions, unchanged: %s' % show(S)[:120], where)
    # alignment role: var with defs {1 on the packed path, A otherwise}
    Aexpr = None
    if AL[0] == 'var':
        defs = tdb.init_of(AL[1])
        consts = [d for d in defs if is_int(d)]
        non = [d for d in defs if not is_int(d)]
        okal = len(defs) == 2 and len(consts) == 1 and consts[0][1] == 1 and len(non) == 1
        Aexpr = non[0] if non else None
        ctx.ob(['C02', 'C03', 'C17'], 'R-SLP', 'TDB|alignment-role', okal,
               'ItemStateResolved.alignment is 1 on the packed path and the checked alignment otherwise: %s' % [show(d)[:120] for d in defs], where)
        # the const-1 def is under packed == true
        if okal and packed[0] in ('var', 'arg'):
            for (bi, si, kind, payload, span) in tdb.defs()[AL[1]]:
                e = tdb.expr_of_def((bi, si, kind, payload, span))
                dom_packed = [lab for s in tdb.switches() if strip(s['cond']) == packed for lab, tgt in s['edges'] if tdb.dominates(tgt, bi) and tdb.pred(tgt) == [s['block']]]
                if is_int(e):
                    ctx.ob(['C02', 'C17'], 'R-SLP', 'TDB|alignment-1-iff-packed', dom_packed == [True], 'alignment 1 is chosen exactly on the packed branch', loc(span))
                else:
                    ctx.ob(['C02', 'C17'], 'R-SLP', 'TDB|alignment-checked-iff-not-packed', dom_packed == [False], 'the checked alignment is chosen exactly on the non-packed branch', loc(span))
    else:
        ctx.fail_closed(['C02', 'C03'], 'R-SLP', 'TDB|alignment-role', 'alignment operand is not a two-way variable: %s' % show(AL)[:100], where)
    if Aexpr is None or packed[0] not in ('var', 'arg'):
        return
    psw = [s for s in tdb.switches() if strip(s['cond']) == packed]
    if len(psw) > 1 and AL[0] == 'var':
        # several tests of `packed` (e.g. the packed/align exclusion written as its own statement): the one that chooses the alignment
        one_defs = [d_[0] for d_ in tdb.defs().get(AL[1], []) if is_int(tdb.expr_of_def(d_))]
        psw = [s for s in psw if any(lab is True and any(tdb.dominates(tgt, b_) for b_ in one_defs) for lab, tgt in s['edges'])]
    if len(psw) != 1:
        ctx.fail_closed(['C03'], 'R-GUARD', 'TDB|packed-switch', 'expected one branch on `packed`, found %d' % len(psw), where)
        return
    ptrue = [(psw[0]['block'], tgt) for lab, tgt in psw[0]['edges'] if lab is True]
    pfalse = [(psw[0]['block'], tgt) for lab, tgt in psw[0]['edges'] if lab is False]
    Astr = strip(Aexpr)

    def isA(e):
        return strip(e) == Astr

    # A itself: explicit align, else sole field's alignment, else pointer size
    a_ok = is_call(Astr, 'Option::<T>::unwrap_or') and is_call(Astr[2][1], 'pointer_size') and is_call(Astr[2][0], 'Option::<T>::or')
    sole_det = ''
    if a_ok:
        first, second = strip(Astr[2][0][2][0]), strip(Astr[2][0][2][1])
        # precedence: the explicit #[align(N)] first, the sole field's alignment only as a fallback
        from r_function import attr_assignments as _aa
        align_state = {l_ for lit_, as_, _sp in _aa(tdb) if lit_ == 'align' for l_ in as_ if tdb.local_ty(l_) == 'std::option::Option<usize>'}
        explicit_first = first[0] == 'var' and tdb.local_ty(first[1]) == 'std::option::Option<usize>' and not find_calls(first, 'then') and \
            (any(any(isinstance(x, tuple) and x[0] == 'payload' and x[2] == 'IntLiteral' for x in walk(d)) for d in tdb.init_of(first[1])) or first[1] in align_state)
        sole, sole_det = sole_field_alignment(tdb, second)
        a_ok = explicit_first and sole
    ctx.ob(['C02', 'C03', 'C20'], 'R-EXPR', 'TDB|alignment-selection', a_ok, 'effective alignment = explicit align, else the sole field\'s alignment, else the pointer size: %s (%s)' % (show(Astr)[:120], sole_det), where)
    # G3
    g3 = []
    for g in gs:
        cp = cmp_parts(g.pred)
        if g.kind == 'reject' and cp:
            op, a, b = cp
            if is_call(strip(b), 'util::lcm') and isA(a):
                op, a, b = SWAP[op], b, a
            if is_call(strip(a), 'util::lcm') and isA(b):
                g3.append((g, op, strip(a)))
    ok3 = len(g3) == 1 and g3[0][1] == 'Gt'
    ctx.ob(['C02', 'C03', 'C01', 'C13'], 'R-GUARD', 'G3|alignment-at-least-fields', ok3, 'lcm(field alignments) > alignment ⇒ Err, strictly (found %s)' % [(op, show(a)[:60]) for g, op, a in g3],
           g3[0][0].where() if g3 else where)
    if g3:
        g, op, lc = g3[0]
        ctx.ob(['C02', 'C03'], 'R-DOM', 'G3|covers-non-packed', covers_all_paths(tdb, g, exempt_edges=ptrue) and not covers_all_paths(tdb, g, exempt_edges=pfalse) or covers_all_paths(tdb, g, exempt_edges=ptrue),
               'on the non-packed branch the test lies on every path to Ok(Some(..))', g.where())
        src = lc[2][0]
        chain = [c[1] for c in calls_in(src)]
        bad = [short(c) for c in chain if re.search(r'Iterator::(rev|skip|take|filter|step_by|skip_while|take_while|chain|filter_map|map_while|scan|fuse|cycle)$', c)]
        over_R = any(strip(x) == R for x in walk(src))
        calls_align = False
        for x in walk(src):
            if isinstance(x, tuple) and x[0] == 'closure' and x[1] in P.fns:
                cf = P.fns[x[1]]
                calls_align = calls_align or any(c['path'] and c['path'].endswith('Type::alignment') for c in cf.calls())
        ctx.ob(['C02', 'C03'], 'R-ITER', 'G3|over-all-regions', over_R and not bad and calls_align,
               'the lcm ranges over Type::alignment of every region of the final vector (adapters: %s)' % [short(c) for c in chain], g.where())
    # G4
    g4 = []
    for g in gs:
        cp = cmp_parts(g.pred)
        if g.kind == 'reject' and cp and cp[1][0] == 'bin' and cp[1][1] == 'Rem' and is_int(cp[2], 0) and cp[0] in ('Ne', 'Gt'):
            if strip(cp[1][2]) == strip(S) and isA(cp[1][3]):
                g4.append(g)
    ctx.ob(['C02', 'C03', 'C01'], 'R-GUARD', 'G4|size-multiple-of-alignment', len(g4) == 1, 'size % alignment != 0 ⇒ Err on the very size and alignment that are returned', g4[0].where() if g4 else where)
    if g4:
        ctx.ob(['C02', 'C03', 'C01'], 'R-DOM', 'G4|covers-non-packed', covers_all_paths(tdb, g4[0], exempt_edges=ptrue), 'on the non-packed branch the test lies on every path to Ok(Some(..))', g4[0].where())
    # G2 per-field alignment (in the builder itself, or in a helper whose error the builder propagates)
    def is_g2(g):
        cp = cmp_parts(g.pred)
        if g.kind == 'reject' and cp and cp[1][0] == 'bin' and cp[1][1] == 'Rem' and is_int(cp[2], 0) and cp[0] in ('Ne', 'Gt'):
            rem = cp[1]
            if find_calls(rem[3], 'Type::alignment') and rem[2][0] == 'var':
                return rem
        return None
    g2 = [(g, is_g2(g), None) for g in guards_of(tdb) if is_g2(g)]
    if not g2:
        for callee, pg, call in propagated_calls(tdb):
            for g in guards_of(callee):
                if is_g2(g):
                    g2.append((g, is_g2(g), (callee, pg, call)))
    ctx.ob(['C01', 'C03', 'C02'], 'R-GUARD', 'G2|field-offset-aligned', len(g2) == 1, 'running offset % alignment(field type) != 0 ⇒ Err', g2[0][0].where() if g2 else where)
    if g2:
        g, rem, via = g2[0]
        G = tdb if via is None else via[0]
        if via is None:
            okit, L = covers_each_iteration_exempt(tdb, g, ptrue)
        else:
            okit, L = covers_each_iteration(G, g)
            okit = okit and covers_all_paths(tdb, via[1], exempt_edges=ptrue)
        sty, src = (loop_source(G, L) if L else (None, None))
        if src is not None and via is not None:
            src = subst_args(expand(G, src), via[2][2])
        elem_align = find_calls(rem[3], 'Type::alignment')[0]
        elem = [x for x in walk(elem_align[2][0]) if is_call(x, 'Iterator::next')]
        over_R = src is not None and any(strip(x) == R for x in walk(src)) and sty and re.match(r"^std::slice::Iter<'_, %s>$" % re.escape(REGION), sty)
        ctx.ob(['C01', 'C03', 'C02'], 'R-ITER', 'G2|every-region-every-iteration', bool(okit and over_R and elem),
               'the test runs in every iteration of a loop over all regions of the final vector (iterator %s), on the non-packed branch on every path to success%s' % (
                   sty, '' if via is None else ' (in helper %s)' % short(G.id)), g.where())
        acc = rem[2]
        defs = G.init_of(acc[1])
        okacc = len(defs) == 2 and any(is_int(d, 0) for d in defs) and any(
            d[0] == 'bin' and d[1] == 'Add' and strip(d[2]) == acc and size_of_region(d[3], lambda r: bool(elem) and any(x == elem[0] for x in walk(r))) for d in defs)
        ctx.ob(['C01', 'C03', 'C02'], 'R-EXPR', 'G2|offset-is-prefix-sum', okacc, 'the tested offset starts at 0 and advances by the size of the current region: %s' % [show(d)[:120] for d in defs], g.where())
        # update happens after the test in the iteration
    # G15 effective alignment is a power of two (in particular non-zero)
    g15 = [g for g in gs if g.kind == 'reject' and find_calls(g.pred, 'is_power_of_two') and any(isA(x) for c in find_calls(g.pred, 'is_power_of_two') for x in c[2])]
    ok15 = len(g15) >= 1 and covers_all_paths(tdb, g15[0], exempt_edges=ptrue)
    ctx.ob(['C03', 'C02', 'C13'], 'R-GUARD', 'G15|alignment-power-of-two', ok15,
           'the effective alignment must be tested to be a power of two (rustc accepts nothing else in align(N); N = 0 divides by zero) before Ok(Some(..)); ' +
           ('found' if ok15 else 'no such test dominates the success return'), g15[0].where() if g15 else where)
    # G6 packed & align
    # (the test may hang off the alignment-choosing branch on `packed` or off a separate `if packed && align.is_some()`)
    all_psw = [s for s in tdb.switches() if strip(s['cond']) == packed]
    all_ptrue = [(s['block'], tgt) for s in all_psw for lab, tgt in s['edges'] if lab is True]
    g6 = [g for g in gs if g.kind == 'reject' and g.pred[0] == 'is_some' and any(isinstance(x, tuple) and x[0] == 'var' and tdb.local_ty(x[1]) == 'std::option::Option<usize>' for x in walk(g.pred))
          and any(tdb.dominates(t, g.block) for (_, t) in all_ptrue)]
    pfalse6 = pfalse
    if len(g6) == 1:
        own_sw = [s for s in all_psw if any(lab is True and tdb.dominates(tgt, g6[0].block) for lab, tgt in s['edges'])]
        if own_sw:
            pfalse6 = [(own_sw[0]['block'], tgt) for lab, tgt in own_sw[0]['edges'] if lab is False]
    ctx.ob(['C03', 'C17', 'C02'], 'R-GUARD', 'G6|packed-and-align-rejected', len(g6) == 1 and covers_all_paths(tdb, g6[0], exempt_edges=pfalse6),
           'packed together with an explicit align is always rejected', g6[0].where() if g6 else where)
    # alignment guards are absent on the packed branch: no reject guard mentioning alignment/lcm dominated by packed-true
    stray = [g for g in gs if g.kind == 'reject' and any(tdb.dominates(t, g.block) for (_, t) in ptrue) and (find_calls(g.pred, 'alignment') or find_calls(g.pred, 'lcm') or (cmp_parts(g.pred) and 'Rem' in show(g.pred)))]
    ctx.ob(['C03'], 'R-GUARD', 'TDB|packed-exempt', not stray, 'no alignment condition rejects a packed type (%d stray guards)' % len(stray), where)
    # G7 defaultable (C13-D4)
    dsw = [s for s in tdb.switches() if strip(s['cond']) == strip(td['defaultable'])]
    dtrue = [(s['block'], tgt) for s in dsw for lab, tgt in s['edges'] if lab is True]
    dfalse = [(s['block'], tgt) for s in dsw for lab, tgt in s['edges'] if lab is False]
    is7a = lambda g: g.kind == 'reject' and g.pred[0] == 'is_none' and is_call(g.pred[1], 'get_defaultable_type_path')
    is7b = lambda g: g.kind == 'reject' and bool(find_calls(g.pred, 'ItemDefinitionInner::defaultable')) and (g.pred[0] == 'un' and g.pred[1] == 'Not')
    g7a = [g for g in gs if is7a(g)]
    g7b = [g for g in gs if is7b(g)]
    helper7 = None
    if not g7a and not g7b:
        # the whole per-region check may live in a helper whose error is propagated
        for callee, pg, call in propagated_calls(tdb):
            ha, hb = [g for g in guards_of(callee) if is7a(g)], [g for g in guards_of(callee) if is7b(g)]
            if ha or hb:
                g7a, g7b, helper7 = ha, hb, (callee, pg, call)
    ok7 = len(g7a) == 1 and len(g7b) == 1 and len(dsw) == 1
    # the projection behind 7a: the path of a named type, the element's path for arrays (at any depth), nothing for pointers,
    # functions and unresolved types
    pj = P.fns.get('semantic::type_definition::build::get_defaultable_type_path')
    okpj, detpj = False, 'helper not found'
    if pj is not None:
        sw_ = [s_ for s_ in pj.switches() if s_['cond'][0] == 'discr' and strip(s_['cond'][1])[0] == 'arg']
        if len(sw_) == 1:
            arms = {}
            for lab, tgt in sw_[0]['edges']:
                for x_ in pj.exits():
                    if pj.dominates(tgt, x_['block']):
                        for one in lab.split('|'):
                            arms.setdefault(one, []).append(strip(x_['expr']))
            def raw_ok(v):
                return v[0] == 'agg' and v[1].endswith('Option::Some') and strip(v[2][0][1])[0] == 'payload' and strip(v[2][0][1])[2] == 'Raw' and strip(strip(v[2][0][1])[1])[0] == 'arg'
            def arr_ok(v):
                return is_call(v, pj.id.split('::')[-1]) and v[1] == pj.id and any(isinstance(y, tuple) and y[0] == 'payload' and y[2] == 'Array' and y[3] == 0 for y in walk(v[2][0]))
            none_ok = lambda v: v[0] == 'agg' and v[1].endswith('Option::None')
            okpj = len(arms.get('Raw', [])) == 1 and raw_ok(arms['Raw'][0]) and len(arms.get('Array', [])) == 1 and arr_ok(arms['Array'][0]) and \
                all(len(arms.get(k_, [])) == 1 and none_ok(arms[k_][0]) for k_ in ('Unresolved', 'ConstPointer', 'MutPointer', 'Function')) and \
                set(arms) == {'Raw', 'Array', 'Unresolved', 'ConstPointer', 'MutPointer', 'Function'}
            detpj = {k_: [show(v)[:40] for v in vs] for k_, vs in sorted(arms.items())}
        else:
            detpj = 'expected one match on the type'
    ctx.ob(['C13'], 'R-EXPR', 'G7|defaultable-path-projection', okpj, 'the type whose defaultability decides is the named type itself, the element type for (nested) arrays, none for pointers / functions / unresolved: %s' % (detpj,), loc(pj.span) if pj is not None else where)
    ctx.ob(['C13'], 'R-GUARD', 'G7|defaultable-fields', ok7, 'a defaultable type rejects fields that are not (arrays of) named types and fields whose type is not defaultable%s' % (
        ' (in helper %s)' % short(helper7[0].id) if helper7 else ''), g7a[0].where() if g7a else where)
    if ok7 and helper7 is None:
        okit, L = covers_each_iteration_exempt(tdb, g7a[0], dfalse)
        sty, src = (loop_source(tdb, L) if L else (None, None))
        over_R = src is not None and any(strip(x) == R for x in walk(src)) and sty and re.match(r"^std::slice::Iter<'_, %s>$" % re.escape(REGION), sty)
        ctx.ob(['C13'], 'R-ITER', 'G7|every-region', bool(okit and over_R), 'the defaultable check visits every region (iterator %s) whenever defaultable is set' % sty, g7a[0].where())
    elif ok7:
        callee, pg, call = helper7
        okit, L = covers_each_iteration(callee, g7a[0])
        sty, src = (loop_source(callee, L) if L else (None, None))
        src = subst_args(expand(callee, src), call[2]) if src is not None else None
        over_R = src is not None and any(strip(x) == R for x in walk(src)) and sty and re.match(r"^std::slice::Iter<'_, %s>$" % re.escape(REGION), sty)
        called = covers_all_paths(tdb, pg, exempt_edges=dfalse)
        ctx.ob(['C13'], 'R-ITER', 'G7|every-region', bool(okit and over_R and called),
               'the defaultable check (helper %s, called on every path to success when defaultable is set: %s) visits every region (iterator %s)' % (short(callee.id), called, sty), g7a[0].where())
    # G8 duplicate method names
    g8 = [g for g in gs if g.kind == 'reject' and (g.pred[0] == 'call' and re.search(SETM('contains'), g.pred[1]))]
    ok8 = False
    if len(g8) == 1:
        L = innermost_loop(tdb, g8[0].block)
        from r_panic import cycle_without
        ok8 = bool(L) and not cycle_without(tdb, L[1], L[0], {g8[0].block})
    ctx.ob(['C05', 'C14', 'C13'], 'R-GUARD', 'G8|duplicate-method-rejected', ok8, 'an impl function whose name is already taken (by a vftable, base or earlier function) is rejected, tested in every iteration', g8[0].where() if g8 else where)
    # ... and "earlier function" needs the name of every function that passed the test to be recorded in that very set, on every trip
    ok8i, det8i = False, 'no insert into the tested set found in the loop'
    if len(g8) == 1:
        L = innermost_loop(tdb, g8[0].block)
        tested = strip(g8[0].pred[2][0]) if g8[0].pred[2] else None
        if L and tested is not None:
            for c_ in tdb.calls(lambda r: r['path'] and re.search(SETM('insert'), r['path'])):
                if c_['block'] not in L[1] or len(c_['term']['args']) != 2:
                    continue
                recv = strip(tdb.expr_of_operand(c_['term']['args'][0]))
                if recv != tested:
                    continue
                val = strip(expand(tdb, tdb.expr_of_operand(c_['term']['args'][1])))
                named = val[0] == 'field' and val[2] in ('name', '0') or any(isinstance(y, tuple) and y[0] == 'field' and y[2] == 'name' for y in walk(val))
                own = bool(find_calls(val, 'function::build')) or any(is_call(y, 'Iterator::next') for y in walk(val) if isinstance(y, tuple))
                every = not cycle_without(tdb, L[1], L[0], {c_['block']})
                det8i = 'insert(%s) of %s, every trip %s' % (show(recv)[:40], show(val)[:60], every)
                ok8i = bool(named and own and every)
    ctx.ob(['C05', 'C14', 'C13'], 'R-PAIR', 'G8|accepted-name-recorded', ok8i,
           'every impl function that passes the duplicate test has its name recorded in the tested set before the next one is looked at: %s' % det8i, g8[0].where() if g8 else where)
    # a declared field keeps its own name; only the placeholder name `_` (exactly) makes it anonymous
    from r_panic import agg_sites
    regs_ = [(bi, st) for (g_, bi, st) in agg_sites(P, r'type_definition::Region$') if g_ is tdb]
    okn = False
    detn = 'no Region literal for a declared field found'
    name_tables = []
    for bi, st in regs_:
        d_ = dict(tdb.expr_of_rvalue(st['rv'])[2])
        nm = d_.get('name')
        if nm is None:
            continue
        name_tables.append(value_table(tdb, nm))
    if not name_tables:
        # the region is built with the crate's constructors / builders: the `name` of the value that is queued for layout
        for c_ in tdb.calls(lambda r: r['path'] and r['path'].endswith('Vec::<T, A>::push')):
            if len(c_['term']['args']) != 2:
                continue
            pe = strip(tdb.expr_of_operand(c_['term']['args'][1]))
            if pe[0] == 'tuple' and len(pe[1]) == 2:
                reg_ = strip(pe[1][1])
                if (reg_[0] == 'var' and tdb.local_ty(reg_[1]) == REGION) or (reg_[0] == 'call' and REGION.split('::')[-1] + '::' in reg_[1]):
                    ft = field_table(tdb, reg_, 'name')
                    if ft is not None:
                        name_tables.append(ft)
    for rows in name_tables:
        somes = [(cs, v) for cs, v in rows if strip(v)[0] == 'agg' and strip(v)[1].endswith('Option::Some')]
        nones = [(cs, v) for cs, v in rows if strip(v)[0] == 'agg' and strip(v)[1].endswith('Option::None')]
        if len(rows) != 2 or len(somes) != 1 or len(nones) != 1:
            detn = 'name is not a two-way choice: %s' % show(nm)[:120]
            continue
        cs, v = somes[0]
        okc = False
        subj = None
        if len(cs) == 1:
            c_, lab = strip(cs[0][0]), cs[0][1]
            neg = False
            while c_[0] == 'un' and c_[1] == 'Not':
                c_, neg = strip(c_[2]), not neg
            if c_[0] == 'call' and re.search(r'::(ne|eq)$', c_[1]) and len(c_[2]) == 2:
                is_ne = c_[1].endswith('::ne')
                a_, b_ = strip(c_[2][0]), strip(c_[2][1])
                lit = [x for x in (a_, b_) if x[0] == 'str']
                oth = [x for x in (a_, b_) if x[0] != 'str']
                if len(lit) == 1 and lit[0][1] == '_' and len(oth) == 1:
                    # Some exactly when the identifier differs from "_"
                    okc = ((lab is True) != neg) == is_ne
                    subj = oth[0]
        val = strip(strip(v)[2][0][1])
        alts_ = [subj]
        if subj is not None and subj[0] == 'call' and subj[1].endswith('Ident::as_str') and len(subj[2]) == 1:
            alts_.append(('field', strip(subj[2][0]), '0'))        # `ident.as_str()` is `ident.0`
        okv = subj is not None and any(strip(y) in alts_ for y in walk(val)) and (subj[0] == 'field' or len(alts_) == 2) and any(
            isinstance(y, tuple) and y[0] == 'payload' and y[2] == 'Field' for y in walk(subj))
        okn = okc and okv
        detn = 'Some(%s) iff %s' % (show(val)[:60], [(show(c)[:80], l) for c, l in cs])
    ctx.ob(['C17', 'C01', 'C20'], 'R-EXPR', 'TDB|field-name-kept', okn,
           'a field keeps its declared name unless that name is exactly `_` (then it is an anonymous gap named after its offset later): %s' % detn, where)
    # the address queued with a field's region is the one its `address` attribute gave, on every path (whatever the field is called)
    from r_function import attr_assignments
    addr_locals = {l for lit, assigned, _sp in attr_assignments(tdb) if lit == 'address' for l in assigned if tdb.local_ty(l) == 'std::option::Option<usize>'}
    qrows, nq = [], 0
    for c_ in tdb.calls(lambda r: r['path'] and r['path'].endswith('Vec::<T, A>::push')):
        if len(c_['term']['args']) != 2:
            continue
        pe = strip(tdb.expr_of_operand(c_['term']['args'][1]))
        if pe[0] == 'agg' and len(pe[2]) == 2:
            pe = ('tuple', [v_ for _k, v_ in pe[2]])        # a small struct instead of the tuple: same two components
        if pe[0] == 'tuple' and len(pe[1]) == 2:
            is_reg_ = lambda r_: (r_[0] == 'var' and tdb.local_ty(r_[1]) == REGION) or (r_[0] == 'agg' and r_[1].endswith('type_definition::Region')) or \
                (r_[0] == 'call' and 'Region::' in r_[1])
            if is_reg_(strip(pe[1][0])) and not is_reg_(strip(pe[1][1])):
                pe = ('tuple', [pe[1][1], pe[1][0]])
            if not is_reg_(strip(pe[1][1])):
                continue
            nq += 1
            def chase(v_):
                v_ = strip(simplify(v_))
                hops = 0
                while v_[0] == 'var' and v_[1] not in addr_locals and len(tdb.defs().get(v_[1], [])) == 1 and hops < 4:
                    v_, hops = strip(simplify(tdb.expr_of_def(tdb.defs()[v_[1]][0]))), hops + 1
                return v_
            a0 = chase(pe[1][0])
            if a0[0] == 'var' and a0[1] in addr_locals:
                qrows.append(([], a0))
            elif a0[0] == 'var' and 2 <= len(tdb.defs().get(a0[1], [])) <= 6:
                # merged from the arms of a branch: every arm must hand on the attribute's value
                for d_ in tdb.defs()[a0[1]]:
                    qrows.append(([], chase(tdb.expr_of_def(d_))))
            else:
                qrows.append(([], a0))
    okq = nq == 1 and bool(addr_locals) and bool(qrows) and all(v_[0] == 'var' and v_[1] in addr_locals for cs_, v_ in qrows)
    # ... and the region queued with it carries the field's own doc text and base marker whatever else is set on the field
    queued_region_fields(ctx, tdb, where)
    ctx.ob(['C01', 'C03', 'C20'], 'R-SLP', 'TDB|queued-address', okq,
           'the address queued with a field is the value of its `address` attribute on every path (named or `_`): %s' % [(show(v_)[:40], [(show(c)[:40], l) for c, l in cs_]) for cs_, v_ in qrows][:4], where)
    # a vftable block anywhere but in first position is rejected (the pointer is laid out at offset 0 whatever the description says,
    # so a later position would silently contradict the written order): the test sits in front of the conversion of the block's
    # functions, on the Vftable arm of the statement match
    gvf = [g for g in gs if g.kind == 'reject' and cmp_parts(g.pred) and cmp_parts(g.pred)[0] == 'Ne' and is_int(cmp_parts(g.pred)[2], 0) and
           strip(cmp_parts(g.pred)[1])[0] == 'field' and strip(cmp_parts(g.pred)[1])[2] == '0' and find_calls(g.pred, 'Iterator::enumerate')]
    okvf = False
    if len(gvf) == 1:
        conv = [c_ for c_ in tdb.calls(lambda r: r['path'] and r['path'].endswith('convert_grammar_functions_to_semantic_functions'))]
        arm = [(s_, tgt) for s_ in tdb.switches() if s_['cond'][0] == 'discr' for lab, tgt in s_['edges'] if lab == 'Vftable' and tdb.dominates(tgt, gvf[0].block)]
        okvf = bool(arm) and bool(conv) and all(tdb.dominates(gvf[0].block, c_['block']) for c_ in conv)
    ctx.ob(['C06', 'C04', 'C01'], 'R-GUARD', 'G19|vftable-block-first', okvf,
           'a vftable block whose statement index is not 0 is rejected before its functions are converted (%d such test(s))' % len(gvf), gvf[0].where() if gvf else where)
    # every function of the type's impl block is built (its types resolved, its address required) — none is filtered out before
    fam_ = [tdb] + [h_ for h_ in method_family(P, tdb) if h_ is not tdb]
    okf = False
    detf = 'no loop over the impl block that calls function::build'
    for g_ in fam_:
        for c_ in g_.calls(lambda r: r['path'] and r['path'].endswith('function::build')):
            L = innermost_loop(g_, c_['block'])
            if not L:
                continue
            sty, src = loop_source(g_, L)
            src_e = expand(g_, src)
            over_impl = sty is not None and re.match(r"^std::slice::Iter<'_, grammar::Function>$", sty) is not None and \
                any(isinstance(y, tuple) and y[0] == 'field' and y[2] == 'functions' for y in walk(src_e)) and \
                any(isinstance(y, tuple) and y[0] == 'field' and y[2] == 'impls' for y in walk(src_e))
            if not over_impl:
                continue
            from r_panic import cycle_without
            every = not cycle_without(g_, L[1], L[0], {c_['block']})
            elem = any(isinstance(y, tuple) and y[0] == 'payload' and y[2] == 'Some' and is_call(strip(y[1]), 'Iterator::next') for y in walk(g_.expr_of_operand(c_['term']['args'][-1])))
            prop = any(g.kind == 'reject' and g.pred[0] == 'fails' and find_calls(g.pred, 'function::build') and g.block in L[1] for g in guards_of(g_))
            okf = every and elem and prop and not any(re.search(r'Iterator::(rev|skip|take|filter|step_by|skip_while|take_while|filter_map|map_while|scan|fuse|cycle)$', x[3]) for x in calls_in(src_e))
            detf = 'iterator %s, build on every trip %s, of the element %s, error propagated %s' % (sty, every, elem, prop)
    # ... and only once the type's own regions are resolved: function::build turns an unknown name into a hard error, and names such
    # as `<Base>Vftable` come into being while other types are being resolved — a hard error raised on a visit that would otherwise
    # be deferred makes the outcome depend on the order in which the resolver happens to visit the types
    rrsw = [s_ for s_ in tdb.switches() if s_['cond'][0] == 'discr' and find_calls(s_['cond'], 'resolve_regions') and
            not (strip(s_['cond'][1])[0] == 'call' and strip(s_['cond'][1])[3] == TRY_BRANCH)]
    some_edges = [tgt for s_ in rrsw for lab, tgt in s_['edges'] if lab == 'Some']
    sites = []
    for g_ in [tdb] + P.closures_of(tdb) + [h_ for h_ in method_family(P, tdb) if h_ is not tdb]:
        for c_ in g_.calls(lambda r: r['path'] and r['path'].endswith('function::build')):
            isv = strip(g_.expr_of_operand(c_['term']['args'][2])) if len(c_['term']['args']) > 2 else None
            if isv != ('int', 0, 'bool'):
                continue            # virtual functions are converted with the vftable block
            # the block of the type builder from which this call is reached
            if g_ is tdb:
                sites.append(c_['block'])
            else:
                root = re.sub(r'(::\{closure#\d+\})+$', '', g_.id)
                for t_ in tdb.calls(lambda r: r['path'] == root or r['path'] == g_.id):
                    sites.append(t_['block'])
                if g_.kind == 'Closure' and g_.parent == tdb.id:
                    for bi_ in tdb.normal_blocks():
                        for st_ in tdb.blocks[bi_]['stmts']:
                            if st_['k'] == 'Assign' and st_['rv']['k'] == 'Aggregate' and st_['rv'].get('closure_id') == g_.id:
                                sites.append(bi_)
    okafter = bool(sites) and bool(some_edges) and all(any(tdb.dominates(t_, b_) for t_ in some_edges) for b_ in sites)
    ctx.ob(['C09', 'C10'], 'R-DOM', 'TDB|impl-functions-after-regions', okafter,
           'impl functions are built (and their unknown names turned into errors) only on visits on which the type\'s regions resolved: %d call site(s), all dominated by the Some edge of resolve_regions: %s' % (len(sites), okafter), where)
    ctx.ob(['C05', 'C10', 'C14'], 'R-ITER', 'TDB|all-impl-functions-built', okf,
           'every function of the type\'s impl block goes through function::build (unfiltered loop, every trip, error propagated): %s' % detf, where)
    # bail census (C03-D2)
    census(ctx, A)


def queued_region_fields(ctx, tdb, where):
    """doc and is_base of the region that `build` queues for a declared field: each is the value read from the field's attributes,
    on every path — `doc: doc` in a literal, or a constructor followed by `if let Some(d) = doc { r = r.with_doc(d) }` / `if is_base
    { r = r.marked_as_base() }`, each under its own test only"""
    from r_function import attr_assignments
    P = ctx.prog
    base_locals = {l for lit, assigned, _sp in attr_assignments(tdb) if lit == 'base' for l in assigned if tdb.local_ty(l) == 'bool'}
    regs = []
    for c_ in tdb.calls(lambda r: r['path'] and r['path'].endswith('Vec::<T, A>::push')):
        if len(c_['term']['args']) != 2:
            continue
        pe = strip(tdb.expr_of_operand(c_['term']['args'][1]))
        comps = [v_ for _k, v_ in pe[2]] if pe[0] == 'agg' else (pe[1] if pe[0] == 'tuple' else [])
        for r_ in comps:
            r_ = strip(r_)
            if (r_[0] == 'var' and tdb.local_ty(r_[1]) == REGION) or (r_[0] == 'agg' and r_[1].endswith('type_definition::Region')) or (r_[0] == 'call' and 'Region::' in r_[1]):
                regs.append(r_)
    if len(regs) != 1:
        ctx.ob(['C17', 'C07'], 'R-SLP', 'TDB|queued-doc-and-base', False, 'expected one region queued per declared field, found %d' % len(regs), where)
        return
    reg = regs[0]

    def final(field, is_source, over_ok):
        rows = field_table(tdb, reg, field, kinds=True)
        if rows is None:
            return False, 'not readable'
        base = [(cs, strip(v)) for cs, v, k in rows if k == 'base']
        over = [(cs, strip(v)) for cs, v, k in rows if k == 'over']
        det = '%s: base %s; later %s' % (field, sorted({show(v)[:30] for cs, v in base}), [(show(v)[:30], [(show(expand(tdb, c))[:40], l) for c, l in cs]) for cs, v in over])
        if not over:
            return bool(base) and all(is_source(v) for cs, v in base), det
        return len(over) == 1 and over_ok(over[0][0], over[0][1], [v for cs, v in base]), det

    def doc_source(v):
        v = strip(v)
        while v[0] == 'var' and len(tdb.defs().get(v[1], [])) == 1 and not (1 <= v[1] <= tdb.nargs):
            v = strip(tdb.expr_of_def(tdb.defs()[v[1]][0]))
        return bool(find_calls(v, 'Attributes::doc')) and unwrap_all(v)[0] == 'call' and unwrap_all(v)[1].endswith('Attributes::doc')

    def doc_over(cs, v, bases):
        # Some(payload of D) exactly under `D is Some`, over a base that is None
        if not all(b[0] == 'agg' and b[1].endswith('Option::None') for b in bases):
            return False
        if not (v[0] == 'agg' and v[1].endswith('Option::Some') and v[2]):
            return False
        pl = strip(v[2][0][1])
        if not (pl[0] == 'payload' and pl[2] == 'Some'):
            return False
        D = strip(pl[1])
        return len(cs) == 1 and cs[0][0][0] == 'discr' and strip(cs[0][0][1]) == D and cs[0][1] == 'Some' and doc_source(D)

    def base_source(v):
        v = strip(v)
        return v[0] == 'var' and v[1] in base_locals

    def base_over(cs, v, bases):
        if not all(b == ('int', 0, 'bool') for b in bases) or v != ('int', 1, 'bool'):
            return False
        return len(cs) == 1 and cs[0][1] is True and base_source(cs[0][0])
    okd, detd = final('doc', doc_source, doc_over)
    okb, detb = final('is_base', base_source, base_over)
    ctx.ob(['C17', 'C07', 'C06'], 'R-SLP', 'TDB|queued-doc-and-base', bool(okd and okb and base_locals),
           'the region queued for a field has the field\'s own doc text and base marker, each set under its own test only: %s ;; %s' % (detd, detb), where)


def diff_sem(fn, amount):
    """a padding amount as a difference: (minuend, subtrahend, conditions folded into the expression, the checked_sub call or None)
    for `a.checked_sub(b)` taken out of its Some, for `a - b`, and for the payload of a combinator chain ending in one of them"""
    from mirlib import opt_sem, conj_simplify
    x = strip(amount)
    if x[0] == 'payload' and x[2] == 'Some':
        inner = strip(x[1])
        if is_call(inner, 'checked_sub') and len(inner[2]) == 2 and re.search(r'::checked_sub$', inner[1]):
            return inner[2][0], inner[2][1], [], inner
        conds, v = opt_sem(fn, inner)
        v = strip(v)
        if v[0] == 'bin' and v[1] == 'Sub':
            conds = [c for c in conj_simplify(conds) if not (c[0] == 'is_some' and strip(c[1])[0] in ('var', 'arg', 'field'))]
            return v[2], v[3], conds, None
        return None
    u = unwrap_all(x)
    if is_call(u, 'checked_sub') and len(u[2]) == 2:
        return u[2][0], u[2][1], [], u
    if x[0] == 'bin' and x[1] == 'Sub':
        return x[2], x[3], [], None
    if x[0] == 'call' and re.search(r'num::<impl [ui](8|16|32|64|128|size)>::saturating_sub$', x[1]) and len(x[2]) == 2:
        # a − b wherever a ≥ b, which the rules that use the difference require of a dominating test anyway
        return x[2][0], x[2][1], [], None
    return None


def covers_each_iteration_exempt(fn, g, exempt_edges):
    """like covers_each_iteration, but the loop needs to lie on every path to success only outside exempt edges"""
    L = innermost_loop(fn, g.block)
    if not L:
        return False, None
    h, body, latches = L
    from r_panic import cycle_without
    if cycle_without(fn, body, h, {g.block}):
        return False, L
    ex = success_exits(fn)
    if not ex or not all(unreachable_without(fn, x['block'], {h}, exempt_edges) for x in ex):
        return False, L
    return True, L


def _no_rem(g):
    return 'Rem(' not in show(g.pred)


EXPECTED_OWN = [
    # (tag, matcher on Guard, clause of the statement it implements); first match wins
    ('field-align', lambda g: bool(cmp_parts(g.pred)) and not _no_rem(g) and bool(find_calls(g.pred, 'Type::alignment')), 'field offset aligned'),
    ('size-mult', lambda g: bool(cmp_parts(g.pred)) and not _no_rem(g), 'size multiple of alignment'),
    ('lcm', lambda g: bool(find_calls(g.pred, 'util::lcm')), 'alignment >= field alignments'),
    ('pow2', lambda g: bool(find_calls(g.pred, 'is_power_of_two')), 'alignment is a power of two'),
    ('overlap', lambda g: (g.pred[0] == 'is_none' and is_call(g.pred[1], 'checked_sub')) or
     (bool(cmp_parts(g.pred)) and _no_rem(g) and cmp_parts(g.pred)[0] in ('Lt', 'Gt') and
      any(is_call(x, 'Iterator::next') for x in walk(cmp_parts(g.pred)[1 if cmp_parts(g.pred)[0] == 'Lt' else 2])) and
      strip(cmp_parts(g.pred)[2 if cmp_parts(g.pred)[0] == 'Lt' else 1])[0] == 'field' and strip(cmp_parts(g.pred)[2 if cmp_parts(g.pred)[0] == 'Lt' else 1])[2] == 'last_address'), 'overlap'),
    ('vftable-first', lambda g: bool(cmp_parts(g.pred)) and cmp_parts(g.pred)[0] == 'Ne' and is_int(cmp_parts(g.pred)[2], 0) and bool(find_calls(g.pred, 'Iterator::enumerate')), 'vftable block must come first'),
    ('dup-method', lambda g: is_call(g.pred, 'contains'), 'duplicate method'),
    ('defaultable-path', lambda g: g.pred[0] == 'is_none' and is_call(g.pred[1], 'get_defaultable_type_path'), 'defaultable field kind'),
    ('defaultable-inner', lambda g: bool(find_calls(g.pred, 'ItemDefinitionInner::defaultable')), 'defaultable field type'),
    ('packed-align', lambda g: g.pred[0] == 'is_some' and g.pred[1][0] == 'var', 'packed+align'),
    ('declared-size', lambda g: bool(cmp_parts(g.pred)) and cmp_parts(g.pred)[0] in ('Ne', 'Gt', 'Lt') and _no_rem(g) and any(
        isinstance(x, tuple) and x[0] == 'arg' and g.fn.local_ty(x[1]) == 'std::option::Option<usize>' for x in walk(g.pred)), 'declared size'),
]
EXPECTED_PROP = ['get_module_for_path', 'Attributes::doc', 'try_into', 'TryFrom', 'convert_grammar_functions_to_semantic_functions', 'resolve_regions',
                 'get_region_name_and_type_definition', 'function::build', 'TypeRegistry::get', 'vftable::build', 'try_from', 'checked_']


def _head(e):
    while e[0] == 'call' and (e[3].endswith('Context::with_context') or e[3].endswith('Context::context') or e[1].endswith('::map_err') or e[1].endswith('ok_or_else') or e[1].endswith('ok_or')):
        e = e[2][0]
    return short(e[1]) if e[0] == 'call' else show(e)[:60]


def _census_fn(ctx, fn, via, depth, emit):
    """classify every Err-producing branch of `fn`; a propagated error from an in-crate helper that is not one of the expected
    fallible steps is judged by the helper's own branches (recursively), so that moving checks into a helper changes nothing.
    Returns the list of (ok, key, what, where)"""
    out = []
    for g in guards_of(fn):
        if g.kind != 'reject':
            continue
        label = short(fn.id) if not via else short(via[-1])
        prop_none = g.pred[0] == 'is_none' and strip(g.pred[1])[0] == 'call' and any(s in _head(g.pred[1]) for s in EXPECTED_PROP) and \
            not any(m(g) for t, m, _ in EXPECTED_OWN)
        if (g.kinds <= {'err_prop'} and g.pred[0] == 'fails') or prop_none:
            src = _head(g.pred[1])
            ok = any(s in src for s in EXPECTED_PROP)
            if not ok and depth < 3:
                e_ = g.pred[1]
                while e_[0] == 'call' and (e_[3].endswith('Context::with_context') or e_[3].endswith('Context::context')):
                    e_ = e_[2][0]
                cal = fn.prog.fns.get(e_[1]) if e_[0] == 'call' else None
                if cal is not None and cal.id != fn.id and cal.raw.get('output', '').startswith('std::result::Result<'):
                    sub = _census_fn(ctx, cal, via + [cal.id], depth + 1, emit)
                    if sub and all(o[0] for o in sub):
                        out.extend(sub)
                        continue
            out.append((ok, 'propagated|%s|%s' % (label, src if ok else 'unexpected:' + src[:60]),
                        'error propagated from %s' % src[:100] if ok else 'a new fallible step can reject a type description: %s' % src[:160], g.where()))
            continue
        tags = [t for t, m, _ in EXPECTED_OWN if m(g)]
        out.append((bool(tags), 'own|%s|%s' % (label, tags[0] if tags else 'unexpected:' + show(g.pred)[:60]),
                    ('rejection%s implements: ' % (' (in helper %s)' % label if via else '') + [c for t, m, c in EXPECTED_OWN if t == tags[0]][0]) if tags else
                    'a rejection that no clause of the statement calls for (possible spurious rejection): %s' % show(g.pred)[:200], g.where()))
    if via:
        # a helper may also hand on the Result of a fallible step as its own (`usize::try_from(v).with_context(..)` as the tail
        # expression): that step is judged like a propagated one
        for x in fn.exits():
            if x['kind'] == 'passthrough' and fn.raw.get('output', '').startswith('std::result::Result<'):
                e_ = strip(expand(fn, x['expr']))
                src = _head(e_) if e_[0] == 'call' else show(e_)[:60]
                ok = any(s in src for s in EXPECTED_PROP)
                out.append((ok, 'propagated|%s|%s' % (short(via[-1]), src if ok else 'unexpected:' + src[:60]),
                            'error handed on from %s' % src[:100] if ok else 'a new fallible step can reject a type description: %s' % src[:160], loc(x['span'])))
    return out


EXPECTED_DEFER = ['resolve_grammar_type', 'Type::size', 'Type::alignment', 'Region::size', 'Regions::push', 'resolve_regions', 'ItemDefinition::resolved',
                  'ItemDefinition::size', 'ItemDefinition::alignment', 'get_region_name_and_type_definition', 'vftable::build', 'region_name_and_vftable']


# how many rejections of each kind the statement of C03 calls for (one each; the declared size is compared once)
OWN_MULTIPLICITY = {t: 1 for t, _m, _c in EXPECTED_OWN}


def census(ctx, A):
    sites = {}
    for fn in (A['TDB'], A['RR']):
        for ok, key, what, where in _census_fn(ctx, fn, [], 0, True):
            ctx.ob(['C03', 'C10'], 'R-CENSUS', key, ok, what, where)
            if ok and key.startswith('own|'):
                sites.setdefault(key.split('|')[-1], set()).add(where)
    # a second rejection of a kind that the statement calls for once is a rejection under other conditions than the reviewed
    # one (an "early" alignment test that forgets the packed exemption): the description it rejects may be realisable
    for tag, ws in sorted(sites.items()):
        ctx.ob(['C03'], 'R-CENSUS', 'own-count|%s' % tag, len(ws) <= OWN_MULTIPLICITY.get(tag, 1),
               'rejections of kind `%s`: %d site(s), the statement calls for %d: %s' % (tag, len(ws), OWN_MULTIPLICITY.get(tag, 1), sorted(ws)[:3]), sorted(ws)[-1] if ws else '',
               nontrivial=len(ws) > OWN_MULTIPLICITY.get(tag, 1))
    # the other way to get rid of a description: "not yet" (Ok(None)).  A type is deferred only because something it depends on has
    # no size / is not resolved yet; any other deferral leaves a resolvable type unresolved for ever (the build then fails with
    # "type resolution will not terminate")
    P = ctx.prog
    n = 0
    for fn in P.fns.values():
        if fn.raw.get('derived') or fn.kind == 'Closure' or not re.match(r'^semantic::(type_definition|enum_definition)', fn.id):
            continue
        if not re.match(r'^std::result::Result<std::option::Option<', fn.raw.get('output', '')):
            continue
        # the builders proper (their Some is a resolved item, or the laid-out regions): in a lookup helper `Ok(None)` means "there
        # is none", and what the builder does with that is seen at its call site
        # (.. except the base lookup, whose only `Ok(None)` is "the base type is not resolved yet": the forwarders, the AsRef
        # conversions and the hierarchy walk all skip a base for which it answers None)
        if 'ItemStateResolved' not in fn.raw.get('output', '') and fn.id != A['RR'].id and not fn.id.endswith('type_definition::get_region_name_and_type_definition'):
            continue
        seen = {}
        for g in guards_of(fn):
            if g.kind != 'defer':
                continue
            n += 1
            src = None
            if g.pred[0] in ('is_none', 'fails'):
                src = _head(unwrap_all(g.pred[1])) if strip(unwrap_all(g.pred[1]))[0] == 'call' else None
                if src is None:
                    inner = [short(c_[1]) for c_ in calls_in(g.pred[1])]
                    src = inner[0] if inner else None
            ok = src is not None and any(s_ in src for s_ in EXPECTED_DEFER)
            key = 'deferred|%s|%s' % (short(fn.id), (src or 'unexpected:' + show(g.pred)[:50]) if ok else 'unexpected:' + show(g.pred)[:50])
            seen[key] = seen.get(key, 0) + 1
            if seen[key] > 1:
                key += '#%d' % seen[key]
            ctx.ob(['C10', 'C03'] + (['C07', 'C06', 'C04'] if fn.id.endswith('get_region_name_and_type_definition') else []), 'R-CENSUS', key, ok,
                   ('deferred because %s gave no value yet' % src) if ok else 'a description is deferred ("not yet") for a reason that is not an unresolved dependency: %s' % show(g.pred)[:160], g.where(),
                   nontrivial=not ok)
    ctx.ob(['C10'], 'R-CENSUS', 'deferred|census', n >= 7, 'deferral points examined: %d (floor 7)' % n, nontrivial=False)


def sole_field_alignment(tdb, e):
    """decision table of the fallback alignment: Some(alignment of the only region's type) exactly when the region list has one
    element, None otherwise — whatever the spelling (bool::then + flatten, match on a slice pattern, if/else)"""
    x = strip(e)
    if x[0] == 'call' and re.search(r'::flatten$', x[1]) and x[2]:
        x = strip(x[2][0])

    def length_of(c):
        c = strip(expand(tdb, c))
        if not (c[0] == 'bin' and c[1] == 'Eq' and is_int(c[3], 1)):
            return None
        l = strip(c[2])
        if is_call(l, '::len') and l[2]:
            l = strip(l[2][0])
        elif l[0] == 'un' and l[1] == 'PtrMetadata':
            l = strip(l[2])
        else:
            return None
        while l[0] == 'call' and l[2] and re.search(r'(::as_slice|::deref|::as_ref|::borrow)$', l[1]):
            l = strip(l[2][0])
        return l
    rows = value_table(tdb, x)
    if len(rows) != 2:
        return False, '%d rows' % len(rows)
    seen = {}
    for cs, v in rows:
        if len(cs) != 1:
            return False, 'compound condition'
        L = length_of(cs[0][0])
        if L is None:
            return False, 'condition is not `number of regions == 1`: %s' % show(cs[0][0])[:60]
        v = strip(v)
        while (v[0] == 'agg' and v[1].endswith('Option::Some') and v[2]):
            v = strip(v[2][0][1])
        seen[cs[0][1]] = (L, v)
    if set(seen) != {True, False}:
        return False, 'rows %s' % sorted(seen)
    Lt, vt = seen[True]
    Lf, vf = seen[False]
    okn = vf[0] == 'agg' and vf[1].endswith('Option::None')
    oka = is_call(vt, 'Type::alignment') and vt[2]
    if oka:
        r = strip(vt[2][0])
        # <regions>[0].type_ref
        elem = strip(r[1]) if r[0] == 'field' and r[2] == 'type_ref' else None
        src = None
        if elem is not None and elem[0] in ('index', 'cindex'):
            src = strip(elem[1])
            oka = (elem[0] == 'cindex' and elem[2] == 0) or (elem[0] == 'index' and is_int(elem[2], 0))
        elif elem is not None and elem[0] == 'call' and re.search(r'Index', elem[1] + elem[3]) and len(elem[2]) == 2 and is_int(elem[2][1], 0):
            src = strip(elem[2][0])
        else:
            oka = False
        if oka and src is not None:
            while src[0] == 'call' and src[2] and re.search(r'(::as_slice|::deref|::as_ref|::borrow)$', src[1]):
                src = strip(src[2][0])
            oka = show(expand(tdb, src)) == show(expand(tdb, Lt)) and show(expand(tdb, Lt)) == show(expand(tdb, Lf))
    return bool(okn and oka), 'one region -> alignment of its type %s, otherwise None %s' % (bool(oka), okn)


# ------------------------------------------------------------------------------------------------
ORDER_BEARING = [REGION, 'grammar::TypeStatement', 'semantic::function::Function', 'grammar::Function', '(std::string::String, isize)',
                 'grammar::EnumStatement', 'semantic::function::Argument', 'grammar::Argument', 'grammar::Attribute', 'semantic::types::Backend',
                 'grammar::Backend', 'grammar::ItemPath', 'semantic::types::ExternValue', 'grammar::ItemDefinition', 'grammar::ExternValue',
                 # field paths of the hierarchy walk and of the AsRef / AsMut bodies, (path, type) pairs
                 "std::slice::Iter<'_, std::string::String>", "std::slice::Iter<'_, &str>", "std::slice::Iter<'_, proc_macro2::Ident>",
                 "std::slice::Iter<'_, (std::vec::Vec<proc_macro2::Ident>, syn::Type)>", "std::slice::Iter<'_, (std::vec::Vec<std::string::String>, semantic::types::Type)>",
                 # the same sequences consumed by value
                 'std::vec::IntoIter<std::string::String>', 'std::vec::IntoIter<proc_macro2::Ident>',
                 'std::vec::IntoIter<(std::vec::Vec<std::string::String>, semantic::types::Type)>', 'std::vec::IntoIter<(std::vec::Vec<proc_macro2::Ident>, syn::Type)>']
ORDER_CHANGING = re.compile(r'(slice::<impl \[T\]>::(sort\w*|reverse|swap|rotate_\w+|select_nth\w*)|Vec::<T, A>::(insert|remove|retain\w*|dedup\w*|drain|swap_remove|pop|truncate|split_off|clear)|'
                            r'Iterator::(rev|skip|take|step_by|skip_while|take_while|map_while|scan|fuse|cycle)|DoubleEndedIterator::\w+|Iterator::(last|max\w*|min\w*))$')
# reviewed order-changing calls: (function, callee fragment, element type fragment) -> reason
SEQ_ALLOW = [
    ('backends::rust::write_module', '::sort', 'ItemDefinition', 'definitions are sorted by path: this is what makes the output independent of hash order (C09/C20); the key is checked by R-ORDER'),
    ('backends::rust::write_module', '::sort', 'ExternValue', 'extern accessors are sorted (by name); no property fixes their relative order, any sort of a Vec is a deterministic function of it'),
    ('semantic::type_registry::TypeRegistry::resolve_string', 'Iterator::rev', 'ItemPath', 'last `use` of a type wins (C11 precedence)'),
    ('semantic::type_registry::TypeRegistry::resolve_string', 'DoubleEndedIterator::rfind', 'ItemPath',
     'last `use` of a type wins (C11 precedence): rfind is find over the reversed list; where it stands is decided by C11-D3|candidate-order'),
]


SEQ_PROPS = {
    REGION: ['C01', 'C14', 'C17'], 'grammar::TypeStatement': ['C01', 'C14'], 'semantic::function::Function': ['C04', 'C06', 'C14'], 'grammar::Function': ['C04', 'C05', 'C14'],
    '(std::string::String, isize)': ['C08'], 'grammar::EnumStatement': ['C08'], 'semantic::function::Argument': ['C04', 'C05'], 'grammar::Argument': ['C04', 'C05', 'C18'],
    'grammar::Attribute': ['C17', 'C18', 'C20'], 'semantic::types::Backend': ['C14'], 'grammar::Backend': ['C14', 'C18'], 'grammar::ItemPath': ['C11', 'C09'],
    'semantic::types::ExternValue': ['C09', 'C14'], 'grammar::ItemDefinition': ['C14', 'C09'], 'grammar::ExternValue': ['C14', 'C15'],
    "std::slice::Iter<'_, std::string::String>": ['C07', 'C13'], "std::slice::Iter<'_, &str>": ['C07', 'C13'], "std::slice::Iter<'_, proc_macro2::Ident>": ['C07', 'C13'],
    "std::slice::Iter<'_, (std::vec::Vec<proc_macro2::Ident>, syn::Type)>": ['C07', 'C13'],
    "std::slice::Iter<'_, (std::vec::Vec<std::string::String>, semantic::types::Type)>": ['C07', 'C13'],
    'std::vec::IntoIter<std::string::String>': ['C07', 'C13'], 'std::vec::IntoIter<proc_macro2::Ident>': ['C07', 'C13'],
    'std::vec::IntoIter<(std::vec::Vec<std::string::String>, semantic::types::Type)>': ['C07', 'C13'], 'std::vec::IntoIter<(std::vec::Vec<proc_macro2::Ident>, syn::Type)>': ['C07', 'C13'],
}


ACCUM = re.compile(r'(Vec::<T, A>::(push|extend|insert|extend_from_slice|append)|Extend::extend|HashMap::<K, V, S>::insert|HashSet::<T, S>::insert|BTreeMap::<K, V, A>::insert|'
                   r'String::push_str|String::push|fmt::Write::write_fmt|io::Write::write_fmt|io::Write::write_all|Entry::<.*>::or_default|Entry::<.*>::or_insert\w*)$')
EARLY_OK = {'err_own', 'err_prop', 'diverge', 'ok_none', 'none_prop'}
# loops that may stop early although they accumulate: (function, why)
EARLY_ALLOWED = {}


def _loop_props(fid):
    if 'dfs_hierarchy' in fid:
        return ['C07', 'C13']
    if 'enum_definition' in fid:
        return ['C08', 'C14']
    if 'vftable' in fid:
        return ['C04', 'C06', 'C14']
    if 'semantic::function' in fid:
        return ['C05', 'C16']
    if 'type_definition' in fid:
        return ['C01', 'C07', 'C14', 'C03']
    if 'semantic_state' in fid or 'module' in fid or 'type_registry' in fid:
        return ['C10', 'C14', 'C15']
    if fid.startswith('backends'):
        return ['C14', 'C13']
    if fid.startswith('grammar'):
        return ['C17', 'C14']
    return ['C14']


def accumulating_loops(ctx):
    """a `for` loop that builds something up (pushes, inserts, writes) visits EVERY element: it is left only when the iterator is
    exhausted, or with an error / a deferral.  A `break` or an early `return Ok(..)` in such a loop silently drops the remaining
    fields / functions / variants / bases / items (a `continue` turned into a `break` passes every other per-trip rule, because no
    trip skips anything).  Search loops (nothing accumulated) may of course return as soon as they have found something."""
    P = ctx.prog
    n = 0
    for f in P.fns.values():
        if f.raw.get('derived') or not re.match(r'^(semantic|grammar|backends|util|build)', f.id):
            continue
        for (h, body, latches) in f.loops():
            drv = [bi for bi in body if f.term(bi)['k'] == 'Call' and f.term(bi).get('callee') and f.term(bi)['callee']['path'].endswith('Iterator::next')]
            drv = [bi for bi in drv if (innermost_loop(f, bi) or (None,))[0] == h]       # the `for` loop itself, not an outer `loop {}` around it
            if not drv:
                continue
            acc = [c for c in f.calls(lambda r: r['block'] in body and r['path'] and (ACCUM.search(r['path']) or ACCUM.search(r.get('gpath') or '')))]
            # calls of the crate's own functions that take `&mut` state count too (the per-item work is done in a helper)
            acc += [c for c in f.calls(lambda r: r['block'] in body and r['path'] in P.fns and any(str(t_).startswith('&mut ') for t_ in P.fns[r['path']].raw.get('inputs', [])))]
            # ... and so do calls of closures (`add_functions(..)`), and loops that check every element (an Err exit in the body)
            acc += [c for c in f.calls(lambda r: r['block'] in body and r['path'] and re.search(r'ops::(FnMut|Fn|FnOnce)::call(_mut|_once)?$', r['path']))]
            checks = any(s_ not in body and f.exit_kinds_from(s_) and f.exit_kinds_from(s_) <= {'err_own', 'err_prop'} for b in body for s_ in f.succ(b))
            if not acc and not checks:
                continue
            n += 1
            bad = []
            for b in sorted(body):
                for s_ in f.succ(b):
                    if s_ in body:
                        continue
                    sw = [x for x in f.switches() if x['block'] == b]
                    exhaust = bool(sw) and sw[0]['cond'][0] == 'discr' and strip(sw[0]['cond'][1])[0] == 'call' and str(strip(sw[0]['cond'][1])[3]).endswith('Iterator::next')
                    if exhaust:
                        continue
                    ks = f.exit_kinds_from(s_)
                    if ks <= EARLY_OK:
                        continue
                    bad.append((b, sorted(ks)))
            key = 'no-early-exit|%s|loop' % re.sub(r'\{closure#\d+\}', '{closure}', f.id)
            k2 = key
            i = 1
            while any(o.key.endswith(k2) for o in ctx.obs):
                i += 1
                k2 = '%s#%d' % (key, i)
            why = EARLY_ALLOWED.get(re.sub(r'(::\{closure#\d+\})+$', '', f.id))
            ctx.ob(_loop_props(f.id), 'R-ITER', k2, not bad or why is not None,
                   ('accumulating loop is left only when its iterator is exhausted, with an error, or deferring' if not bad else
                    'an accumulating loop can be left early with a normal result (a `break` / early return drops the remaining elements): exits %s' % bad[:3]) +
                   (' — reviewed: ' + why if (bad and why) else ''), loc(f.term(h)['span']), nontrivial=bool(bad))
    ctx.ob(['C14'], 'R-ITER', 'no-early-exit|census', n >= 15, 'accumulating `for` loops examined: %d (floor 15)' % n, nontrivial=False)


MAP_REMOVAL = re.compile(r'(HashMap|HashSet|BTreeMap|BTreeSet)::<[^<>]*>::(remove|remove_entry|retain|clear|drain|extract_if|take)$')


def registry_never_shrinks(ctx):
    """modules, registered items, impl blocks and backend sections are only ever added: nothing removes an entry from one of the
    crate's maps between parsing and emission (a removed module is a missing output file, a removed item a missing definition)"""
    P = ctx.prog
    sites = []
    for f in P.fns.values():
        if f.raw.get('derived') or not re.match(r'^(semantic|backends|build|grammar)', f.id):
            continue
        for c in f.calls(lambda r: r['path'] and MAP_REMOVAL.search(r['path'])):
            full = (c['callee'].get('rfull') or c['callee'].get('full') or '') + ' ' + ' '.join(c['callee'].get('gargs', []))
            if re.search(r'semantic::|grammar::', full):
                sites.append('%s: %s' % (short(f.id), short(c['path'])))
    ok = not sites
    selftest = bool(MAP_REMOVAL.search('std::collections::HashMap::<K, V, S, A>::retain')) and bool(MAP_REMOVAL.search('std::collections::HashSet::<T, S>::remove'))
    ctx.ob(['C14', 'C10', 'C19'], 'R-STATE', 'maps-only-grow', ok and selftest, 'no entry is ever removed from a map of modules / items / impl blocks / backends: %s' % sites[:3], nontrivial=not ok)


STALE_REVIEWED = {
    # function -> {type of the local: how many (loop, local) pairs}; what is carried and why it is meant to be
    'semantic::enum_definition::build': {'std::option::Option<usize>': 1},
    # default_index: the one `#[default]` variant of the enum is found in the attribute scan of its variants (state of the whole
    # enum, not of one variant)
}
STALE_PROPS = [(r'enum_definition', ['C08', 'C20']), (r'type_definition::vftable', ['C04', 'C06', 'C16']), (r'type_definition', ['C01', 'C03', 'C07', 'C17']),
               (r'semantic::function', ['C05', 'C16', 'C04']), (r'semantic_state|module|type_registry', ['C14', 'C02', 'C15', 'C11']),
               (r'^<?parser', ['C18']), (r'^<?backends', ['C14', 'C13']), (r'^<?grammar', ['C17', 'C18'])]


def stale_state(ctx):
    """per-element state that is not reset per element: a named local that is assigned only inside an *inner* loop (the scan over
    one element's attributes / parts), initialised only outside the *outer* loop (the loop over the elements), and read inside the
    outer loop.  What the outer trip for element k reads is then what the scan of element k-1 left behind whenever the scan of
    element k assigns nothing — an `#[index]` that sticks to the following functions, a `size` attribute inherited by the next
    extern type.  (Whole-collection state gathered by nested scans is the same shape and legitimate: the `#[default]` variant of an
    enum is found in the attribute scan of its variants.  Those are reviewed — one on the pinned tree.)"""
    from r_resolve import uses_of_local
    P = ctx.prog
    nloops = 0
    per = {}
    for f in P.fns.values():
        if f.raw.get('derived') or not re.match(r'^<?(semantic|grammar|backends|parser)::|^build', f.id):
            continue
        base = re.sub(r'(::\{closure#\d+\})+$', '', f.id)
        loops = [(h, set(body) | {h}) for (h, body, latches) in f.loops()]
        nloops += len(loops)
        for (h1, B1) in loops:
            inner = [(h2, B2) for (h2, B2) in loops if h2 != h1 and B2 < B1]
            if not inner:
                continue
            for l, ds in f.defs().items():
                if 1 <= l <= f.nargs:
                    continue
                nm = f.names.get(l)
                if not nm:
                    continue
                in1 = [d for d in ds if d[0] in B1]
                out1 = [d for d in ds if d[0] not in B1]
                if not in1 or not out1:
                    continue
                if not all(any(d[0] in B2 for (h2, B2) in inner) for d in in1):
                    continue        # (re)assigned in the outer body itself: reset or refreshed per element
                if all(any(isinstance(y, tuple) and len(y) > 1 and y[0] == 'var' and y[1] == l for y in walk(f.expr_of_def(d))) for d in in1):
                    continue        # accumulator
                if not [1 for (bi, si) in uses_of_local(f, l) if bi in B1]:
                    continue
                ty = re.sub(r"'\w+ ?", '', f.local_ty(l))
                per.setdefault(base, {}).setdefault(ty, set()).add(nm)
    for base, tys in sorted(per.items()):
        for ty, names in sorted(tys.items()):
            allowed = STALE_REVIEWED.get(base, {}).get(ty, 0)
            props = next((pr for rx, pr in STALE_PROPS if re.search(rx, base)), ['C09'])
            ctx.ob(props, 'R-STATE', 'stale-state|%s|%s' % (short(base), ty[:50]), len(names) <= allowed,
                   'locals of type %s that an inner scan assigns and that are not reset for each element of the outer loop: %s; reviewed: %d' % (ty[:50], sorted(names)[:4], allowed),
                   loc(P.fns[base].span) if base in P.fns else '', nontrivial=len(names) > allowed)
    ctx.ob(['C09'], 'R-STATE', 'stale-state|census', nloops >= 40, 'loops examined for per-element state that is not reset: %d (floor 40)' % nloops, nontrivial=False)


ELEMENT_EDIT = re.compile(r'(slice::<impl \[T\]>::(first_mut|last_mut|iter_mut|get_mut|get_unchecked_mut|split_first_mut|split_last_mut|split_at_mut|chunks_mut|swap|fill\w*)|'
                          r'Vec::<T, A>::(first_mut|last_mut|iter_mut|get_mut)|slice::IterMut<.*> as std::iter::Iterator>::next|IndexMut<.*>>::index_mut|Option::<T>::as_mut|mem::(swap|replace|take))$')
ELEMENT_EDIT_ALLOWED = [
    # (function, element type fragment, operation fragment, why)
    ('semantic::type_definition::resolve_regions', 'type_definition::Region', 'IterMut', 'anonymous fields get their `_field_<offset>` name once the offsets are known (R-EXPR G-NAME rules)'),
    ('semantic::module::Module::resolve_extern_values', 'ExternValue', 'IterMut', 'every extern value gets its resolved type'),
]


def element_edits(ctx):
    """the elements of the sequences that carry the description to the output (regions, functions, arguments, attributes, extern
    values, ..) are built once and pushed; after that nobody reaches into the sequence and edits an element in place.  The reviewed
    exceptions are the two passes that complete every element of a list.  (`regions.first_mut().doc = ..` on the assumption that
    the first region is the vftable pointer overwrites the doc of a `#[base]` field that shares its base's pointer.)"""
    P = ctx.prog
    n = 0
    for f in P.fns.values():
        if f.raw.get('derived') or not re.match(r'^<?(semantic|backends|grammar)::|^build', f.id):
            continue
        base = re.sub(r'(::\{closure#\d+\})+$', '', f.id)
        for c in f.calls():
            p = c['path'] or ''
            if not c['callee'] or not ELEMENT_EDIT.search(p):
                continue
            full = c['callee'].get('rfull') or c['callee'].get('full') or ''
            args = ' '.join(c['callee'].get('gargs', [])) + ' ' + full + ' ' + ' '.join(a.get('place', {}).get('ty', '') for a in c['term']['args'] if isinstance(a, dict))
            hit = [t for t in ORDER_BEARING if t in args and not t.startswith('std::')]
            if not hit:
                continue
            n += 1
            # (the reviewed completion passes may be spelled `for r in &mut v` / `v.iter_mut()` / `for i in 0..v.len() { v[i] .. }`)
            allow = [a for a in ELEMENT_EDIT_ALLOWED if a[0] == base and a[1] in args and (a[2] in p or re.search(r'IterMut|iter_mut|index_mut', p))]
            ctx.ob(SEQ_PROPS.get(hit[0], ['C09']) + ['C17'], 'R-SEQ', 'element-edit|%s|%s|%s' % (short(base), short(p), hit[0].split('::')[-1]), bool(allow),
                   ('reviewed: ' + allow[0][3]) if allow else 'an element of a sequence of %s is edited in place by %s after it was built' % (hit[0], short(p)), loc(c['span']))
    ctx.ob(['C17'], 'R-SEQ', 'element-edit|census', n >= 2, 'in-place edits of elements of order-bearing sequences examined: %d (floor 2: the two reviewed completion passes)' % n, nontrivial=False)


def seq_rules(ctx):
    P = ctx.prog
    element_edits(ctx)
    n = 0
    for f in P.fns.values():
        if f.raw.get('derived'):
            continue
        for c in f.calls():
            if not c['callee']:
                continue
            p = c['path'] or ''
            if not ORDER_CHANGING.search(p):
                continue
            full = c['callee'].get('rfull') or c['callee'].get('full') or ''
            args = ' '.join(c['callee'].get('gargs', [])) + ' ' + full + ' ' + ' '.join(a.get('place', {}).get('ty', '') for a in c['term']['args'] if isinstance(a, dict))
            hit = [t for t in ORDER_BEARING if t in args]
            if not hit:
                continue
            n += 1
            base = re.sub(r'::\{closure#\d+\}', '', f.id)
            allow = [a for a in SEQ_ALLOW if a[0] == base and a[1] in p and a[2] in args]
            if not allow and re.search(r'::sort\w*$', p):
                # sorting a sequence that was collected from a hash container imposes an order, it does not change one
                recv = expand(f, f.expr_of_operand(c['term']['args'][0]))
                if any(isinstance(x, tuple) and x[0] == 'call' and re.search(r'collections::(HashMap|HashSet|hash_map|hash_set)', x[4] if len(x) > 4 else '') for x in walk(recv)):
                    allow = [(base, p, '', 'sorts a collection that was gathered from a hash container (imposes an order on an unordered set)')]
            ctx.ob(SEQ_PROPS.get(hit[0], ['C09']), 'R-SEQ', '%s|%s|%s' % (base, short(p), hit[0].split('::')[-1]), bool(allow),
                   ('reviewed: ' + allow[0][3]) if allow else 'order-changing operation %s on a sequence of %s between parse and emit' % (short(p), hit[0]), loc(c['span']))
    ctx.ob(['C01'], 'R-SEQ', 'census', True, '%d order-changing calls on order-bearing sequences examined' % n, nontrivial=False)


# ------------------------------------------------------------------------------------------------
def type_size_rules(ctx):
    """C02-D2 / C10-D3: Type::size and Type::alignment per variant"""
    P = ctx.prog
    for name in ('size', 'alignment'):
        fs = [f for f in P.fns.values() if f.id == 'semantic::types::Type::' + name]
        if not fs:
            ctx.fail_closed(['C02', 'C10', 'C03', 'C01'], 'R-EXPR', 'Type::%s' % name, 'function not found')
            continue
        f = fs[0]
        sw = [s for s in f.switches() if s['cond'][0] == 'discr' and strip(s['cond'][1])[0] == 'arg']
        if len(sw) != 1:
            ctx.fail_closed(['C02', 'C10', 'C03', 'C01'], 'R-EXPR', 'Type::%s' % name, 'expected one match on self')
            continue
        arms = {}
        for lab, tgt in sw[0]['edges']:
            # the values this arm can return, in Option normal form (the `?` spelling and the combinator spelling coincide);
            # exits that only propagate a None are left out
            vals = []
            for x in f.exits():
                if x['block'] in f.reach(tgt) and f.dominates(tgt, x['block']) and x['kind'] != 'none_prop':
                    vals.append(opt_norm(f, expand(f, x['expr'])))
            arms[lab] = vals
        shw = lambda vals: [v[0] + ' ' + show(v[1])[:100] if len(v) > 1 else v[0] for v in vals]
        for v in ('ConstPointer', 'MutPointer', 'Function'):
            vals = arms.get(v, [])
            ok = len(vals) == 1 and vals[0][0] == 'some' and is_call(strip(vals[0][1]), 'pointer_size') and not any(
                isinstance(x, tuple) and x[0] == 'payload' and x[2] in ('ConstPointer', 'MutPointer', 'Function') for x in walk(vals[0][1]))
            ctx.ob(['C02', 'C10', 'C03'], 'R-EXPR', 'Type::%s|%s' % (name, v), ok, '%s of a %s is Some(pointer_size) and never looks at the pointee: %s' % (name, v, shw(vals)), loc(f.span))
        vals = arms.get('Raw', [])
        ok = False
        if len(vals) == 1 and vals[0][0] == 'opt':
            q = strip(vals[0][1])
            ok = is_call(q, 'ItemDefinition::' + name) and strip(q[2][0])[0] == 'try' and is_call(strip(strip(q[2][0])[1]), 'TypeRegistry::get') and \
                any(isinstance(x, tuple) and x[0] == 'payload' and x[2] == 'Raw' for x in walk(strip(strip(q[2][0])[1])[2][1]))
        ctx.ob(['C02', 'C11', 'C03'], 'R-EXPR', 'Type::%s|Raw' % name, ok, '%s of a named type is the registry entry\'s resolved %s (entry looked up by the full path): %s' % (name, name, shw(vals)), loc(f.span))
        vals = arms.get('Array', [])
        elem_of_self = lambda x: any(isinstance(y, tuple) and y[0] == 'payload' and y[2] == 'Array' and y[3] == 0 for y in walk(x))
        if name == 'size':
            ok = False
            if len(vals) == 1 and vals[0][0] == 'some':
                e = strip(vals[0][1])
                # s * count (operator trait call or MIR Mul)
                if is_call(e, 'Mul') or (e[0] == 'bin' and e[1] == 'Mul'):
                    ops = [strip(o) for o in (e[2] if e[0] == 'call' else [e[2], e[3]])]
                    sz = [o for o in ops if o[0] == 'try' and is_call(strip(o[1]), 'Type::size') and elem_of_self(strip(o[1])[2][0])]
                    cnt = [o for o in ops if any(isinstance(y, tuple) and y[0] == 'payload' and y[2] == 'Array' and y[3] == 1 for y in walk(o))]
                    ok = len(ops) == 2 and len(sz) == 1 and len(cnt) == 1
            elif len(vals) == 1 and vals[0][0] == 'opt':
                e = strip(vals[0][1])
                if is_call(e, 'checked_mul'):
                    ops = [strip(o) for o in e[2]]
                    ok = any(o[0] == 'try' and is_call(strip(o[1]), 'Type::size') and elem_of_self(strip(o[1])[2][0]) for o in ops) and \
                        any(any(isinstance(y, tuple) and y[0] == 'payload' and y[2] == 'Array' and y[3] == 1 for y in walk(o)) for o in ops)
            ctx.ob(['C02', 'C10', 'C03', 'C01'], 'R-EXPR', 'Type::size|Array', ok, 'size of an array is element size × count: %s' % shw(vals), loc(f.span))
        else:
            ok = len(vals) == 1 and vals[0][0] == 'opt' and is_call(strip(vals[0][1]), 'Type::alignment') and elem_of_self(strip(vals[0][1])[2][0])
            ctx.ob(['C02', 'C03'], 'R-EXPR', 'Type::alignment|Array', bool(ok), 'alignment of an array is its element\'s alignment: %s' % shw(vals), loc(f.span))


# ------------------------------------------------------------------------------------------------
def plumbing(ctx):
    """small accessors every layout argument goes through: each must hand on exactly the value it is named after"""
    P = ctx.prog

    def one(suffix):
        c = [f for f in P.fns.values() if f.id.endswith(suffix)]
        return c[0] if len(c) == 1 else None

    def single_exit(f):
        ex = [x for x in f.exits()]
        return ex[0]['expr'] if len(ex) == 1 else None

    def ob(props, key, ok, what, f):
        ctx.ob(props, 'R-EXPR', 'plumbing|' + key, bool(ok), what, loc(f.span) if f else '')

    f = one('TypeRegistry::pointer_size')
    e = single_exit(f) if f else None
    ob(['C01', 'C02', 'C04'], 'pointer_size', e is not None and strip(e) == ('field', ('arg', 1, 'self'), 'pointer_size'), 'pointer_size() returns the configured pointer size unchanged: %s' % (show(e) if e else None), f)
    f = one('TypeRegistry::new')
    e = single_exit(f) if f else None
    okn = e is not None and e[0] == 'agg' and strip(dict(e[2]).get('pointer_size', ('x',)))[0] == 'arg'
    ob(['C01', 'C02'], 'registry-new', okn, 'TypeRegistry::new stores its pointer_size argument', f)
    f = one('SemanticState::new')
    okc = False
    if f:
        cs = [c for c in f.calls(lambda r: r['path'] and r['path'].endswith('TypeRegistry::new'))]
        okc = len(cs) == 1 and strip(f.expr_of_operand(cs[0]['term']['args'][0]))[0] == 'arg'
    ob(['C01', 'C02'], 'state-new', okc, 'SemanticState::new passes its pointer_size argument to the registry', f)
    f = P.fns.get('build')
    okb = False
    if f:
        cs = [c for c in f.calls(lambda r: r['path'] and r['path'].endswith('SemanticState::new'))]
        okb = len(cs) == 1 and strip(f.expr_of_operand(cs[0]['term']['args'][0]))[0] == 'arg'
    ob(['C01', 'C02'], 'lib-build', okb, 'build() passes its pointer_size argument to SemanticState::new', f)
    f = P.fns.get('build_script')
    okbs = False
    det = ''
    if f:
        cs = [c for c in f.calls(lambda r: r['path'] == 'build')]
        if len(cs) == 1:
            a = f.expr_of_operand(cs[0]['term']['args'][2])
            det = show(a)[:160]
            okbs = a[0] == 'bin' and a[1] == 'Div' and is_int(a[3], 8) and ('str', 'CARGO_CFG_TARGET_POINTER_WIDTH') in list(walk(a[2])) and \
                bool(find_calls(a[2], 'env::var')) and bool(find_calls(a[2], 'parse'))
    ob(['C01', 'C02'], 'build_script', okbs, 'build_script takes the pointer size from the TARGET (CARGO_CFG_TARGET_POINTER_WIDTH / 8), not from the host: %s' % det, f)
    # util::lcm / util::gcd: the minimum required alignment is computed with them (G3); small enough to be checked exactly
    f = one('util::lcm')
    okl = False
    if f:
        e = single_exit(f)
        if e is not None and is_call(e, 'Iterator::fold') and len(e[2]) == 3 and strip(e[2][0])[0] == 'arg' and is_int(e[2][1], 1) and e[2][2][0] == 'closure' and e[2][2][1] in P.fns:
            cf_ = P.fns[e[2][2][1]]
            ce = single_exit(cf_)
            if ce is not None and not cf_.switches():
                ce = strip(ce)
                acc, x = ('arg', 2), ('arg', 3)
                is_ = lambda v, w: strip(v)[:2] == w
                if ce[0] == 'bin' and ce[1] == 'Div' and strip(ce[2])[0] == 'bin' and strip(ce[2])[1] == 'Mul' and \
                        {strip(strip(ce[2])[2])[:2], strip(strip(ce[2])[3])[:2]} == {acc, x} and is_call(strip(ce[3]), 'util::gcd') and \
                        {strip(a_)[:2] for a_ in strip(ce[3])[2]} == {acc, x} and len(strip(ce[3])[2]) == 2:
                    okl = True
    if f and not okl and len(f.loops()) == 1 and len(f.exits()) == 1:
        # the same fold written as a loop: `let mut r = 1; for x in iter { r = r * x / gcd(r, x) } r`
        R_ = strip(f.exits()[0]['expr'])
        if R_[0] == 'var':
            defs_ = f.defs().get(R_[1], [])
            exprs_ = [(d_, strip(f.expr_of_def(d_))) for d_ in defs_]
            one_ = [d_ for d_, e_ in exprs_ if is_int(e_, 1)]
            upd_ = [(d_, e_) for d_, e_ in exprs_ if e_[0] == 'bin' and e_[1] == 'Div']
            h_, body_, _l = f.loops()[0]
            if len(defs_) == 2 and len(one_) == 1 and len(upd_) == 1:
                d_, e_ = upd_[0]
                num, den = strip(e_[2]), strip(e_[3])
                el_ok = lambda v: strip(v)[0] == 'payload' and strip(v)[2] == 'Some' and is_call(strip(strip(v)[1]), 'Iterator::next')
                isR = lambda v: strip(v)[:2] == R_[:2]
                okn_ = num[0] == 'bin' and num[1] == 'Mul' and ((isR(num[2]) and el_ok(num[3])) or (isR(num[3]) and el_ok(num[2])))
                okd_ = is_call(den, 'util::gcd') and len(den[2]) == 2 and ((isR(den[2][0]) and el_ok(den[2][1])) or (isR(den[2][1]) and el_ok(den[2][0])))
                from r_panic import cycle_without
                sty_, src_ = loop_source(f, f.loops()[0])
                srcs_ = strip(src_) if src_ else None
                while srcs_ is not None and srcs_[0] == 'call' and srcs_[2] and re.search(r'IntoIterator::into_iter$', srcs_[3] if len(srcs_) > 3 else srcs_[1]):
                    srcs_ = strip(srcs_[2][0])
                okl = bool(okn_ and okd_ and d_[0] in body_ and not cycle_without(f, body_, h_, {d_[0]}) and one_[0][0] not in body_ and srcs_ is not None and srcs_[0] == 'arg')
    ob(['C03', 'C02'], 'util::lcm', okl, 'lcm(xs) = fold(1, |acc, x| acc * x / gcd(acc, x)): starts at 1, every element folded in', f)
    f = one('util::gcd')
    okg_ = False
    isl = lambda e_, i_: strip(e_)[0] in ('var', 'arg') and strip(e_)[1] == i_
    if f and f.nargs == 2 and len(f.loops()) == 1:
        h_, body_, _l = f.loops()[0]
        sw_ = [s_ for s_ in f.switches()]
        ex_ = f.exits()
        if len(sw_) == 1 and sw_[0]['block'] in body_ and len(ex_) == 1 and isl(ex_[0]['expr'], 1):
            c_ = strip(sw_[0]['cond'])
            cont = c_[0] == 'bin' and c_[1] in ('Ne', 'Eq') and isl(c_[2], 2) and is_int(c_[3], 0) and \
                all(((tgt in body_) == ((lab is True) == (c_[1] == 'Ne'))) for lab, tgt in sw_[0]['edges'])
            # one trip round the loop, executed symbolically from a = A, b = B: it must end with a = B, b = A % B
            st = {1: 'A', 2: 'B'}

            def val(op):
                if op.get('k') in ('Copy', 'Move') and not op['place']['proj']:
                    return st.get(op['place']['local'], ('?', op['place']['local']))
                if op.get('k') in ('Copy', 'Move') and len(op['place']['proj']) == 1 and op['place']['proj'][0].get('k') == 'Field':
                    t_ = st.get(op['place']['local'])
                    i_ = op['place']['proj'][0].get('idx', op['place']['proj'][0].get('name'))
                    if isinstance(t_, tuple) and t_ and t_[0] == 'tuple' and str(i_).isdigit() and int(i_) < len(t_[1]):
                        return t_[1][int(i_)]          # `(a, b) = (b, a % b)`
                if op.get('k') == 'Const':
                    return ('const', op.get('val'))
                return ('?',)
            cur = [tgt for lab, tgt in sw_[0]['edges'] if tgt in body_]
            cur = cur[0] if cur else None
            steps = 0
            straight = True
            while cur is not None and cur != h_ and steps < 20:
                steps += 1
                for st_ in f.blocks[cur]['stmts']:
                    if st_['k'] != 'Assign' or st_['place']['proj']:
                        continue
                    rv = st_['rv']
                    if rv['k'] == 'Use':
                        st[st_['place']['local']] = val(rv['op'])
                    elif rv['k'] == 'BinaryOp':
                        st[st_['place']['local']] = (rv['op'], val(rv['a']), val(rv['b']))
                    elif rv['k'] == 'Aggregate' and rv.get('agg') == 'Tuple':
                        st[st_['place']['local']] = ('tuple', [val(o_) for o_ in rv['ops']])
                    else:
                        st[st_['place']['local']] = ('?',)
                nxt = [y for y in f.succ(cur) if y in body_ or y == h_]
                if len(nxt) != 1:
                    straight = False
                    break
                cur = nxt[0]
            okg_ = bool(cont and straight and cur == h_ and st.get(1) == 'B' and st.get(2) == ('Rem', 'A', 'B'))
    ob(['C03', 'C02'], 'util::gcd', okg_, 'gcd is Euclid\'s algorithm: while b != 0 { t = b; b = a % b; a = t }; a', f)
    f = one('type_definition::Region::size')
    e = single_exit(f) if f else None
    okr = e is not None and is_call(e, 'Type::size') and strip(e[2][0]) == ('field', ('arg', 1, 'self'), 'type_ref')
    ob(['C01', 'C02'], 'Region::size', okr, 'Region::size is the size of the region\'s own type_ref: %s' % (show(e) if e else None), f)
    for nm in ('size', 'alignment'):
        f = one('types::ItemDefinition::' + nm)
        ok = False
        if f:
            vs = [opt_norm(f, expand(f, x['expr'])) for x in f.exits() if x['kind'] != 'none_prop']
            if len(vs) == 1 and vs[0][0] == 'some':
                q = strip(vs[0][1])
                ok = q[0] == 'field' and q[2] == nm and strip(q[1])[0] == 'try' and is_call(strip(strip(q[1])[1]), 'ItemDefinition::resolved') and \
                    strip(strip(strip(q[1])[1])[2][0])[0] == 'arg'
        ob(['C01', 'C02', 'C10'], 'ItemDefinition::' + nm, ok, 'ItemDefinition::%s() is the resolved state\'s `%s` field (None for anything unresolved: by-value embedding waits for the embedded type)' % (nm, nm), f)
    f = one('types::ItemDefinition::resolved')
    okr = False
    if f:
        sm = [x['expr'] for x in f.exits() if x['kind'] == 'some']
        okr = len(sm) == 1 and any(isinstance(y, tuple) and y[0] == 'payload' and y[2] == 'Resolved' for y in walk(sm[0]))
    ob(['C02', 'C10'], 'ItemDefinition::resolved', okr, 'resolved() is Some exactly for ItemState::Resolved and returns that state', f)
    f = one('TypeRegistry::padding_type')
    e = single_exit(f) if f else None
    okp = False
    if e is not None and e[0] == 'agg' and e[1].endswith('Type::Array'):
        d = dict(e[2])
        cnt = strip(d.get('1', ('x',)))
        el = d.get('0')
        okp = cnt[0] == 'arg' and el is not None and bool(find_calls(el, 'resolve_string')) and ('str', 'u8') in list(walk(el))
    ob(['C01', 'C02', 'C20'], 'padding_type', okp, 'padding of n bytes is [u8; n] with exactly the requested n: %s' % (show(e)[:120] if e else None), f)
    f = one('TypeRegistry::get')
    e = single_exit(f) if f else None
    okg = e is not None and e[0] == 'call' and re.search(MAPM('get'), e[1]) and strip(e[2][1])[0] == 'arg' and strip(e[2][0]) == ('field', ('arg', 1, 'self'), 'types')
    ob(['C11', 'C02', 'C19'], 'TypeRegistry::get', okg, 'registry lookup is by the full path given', f)
    f = one('type_registry::TypeRegistry::resolve_grammar_type')
    okg = False
    detg = ''
    if f:
        # every value the function can return, in Option normal form (`x.map(|t| C(t))` and `Some(C(x?))` read the same); a value
        # merged from the arms of a match is taken apart into its definitions
        rows = []
        for x in f.exits():
            if x['kind'] == 'none_prop':
                continue
            vals = [expand(f, x['expr'])]
            for _round in range(2):
                nxt = []
                for v in vals:
                    mv = [y for y in walk(v) if isinstance(y, tuple) and y and y[0] == 'var' and isinstance(y[1], int) and
                          2 <= len(f.defs().get(y[1], [])) <= 8 and not (1 <= y[1] <= f.nargs)]
                    if mv:
                        y = mv[0]
                        for d in f.defs()[y[1]]:
                            de = expand(f, f.expr_of_def(d))
                            nxt.append(map_tree(v, lambda z, y=y, de=de: de if z == y else z))
                    else:
                        nxt.append(v)
                vals = nxt
            rows += [opt_norm(f, v) for v in vals]
        arg_t = [i_ for i_ in range(1, f.nargs + 1) if f.local_ty(i_) == '&grammar::Type']
        tv = ('arg', arg_t[0]) if arg_t else None

        def pl(e, variant, idx=0):
            e = strip(e)
            return e[0] == 'payload' and e[2] == variant and (e[3] if len(e) > 3 else 0) == idx and tv is not None and strip(e[1])[:2] == tv

        def rec_of(b, variant):
            # Box::new(try(resolve_grammar_type(self, scope, <payload 0 of the same variant>)))
            b = strip(b)
            if not (is_call(b, 'Box::<T>::new') or is_call(b, 'Box::new')) or len(b[2]) != 1:
                return False
            t = strip(untry(b[2][0]))
            if t[0] != 'try':
                return False
            r = strip(t[1])
            return r[0] == 'call' and r[1] == f.id and len(r[2]) == 3 and strip(r[2][0])[0] == 'arg' and strip(r[2][1])[0] == 'arg' and pl(r[2][2], variant)
        seen = {}
        for r in rows:
            kind = None
            if r[0] == 'some':
                v = strip(r[1])
                if v[0] == 'agg' and v[1].endswith('Type::ConstPointer') and len(v[2]) == 1 and rec_of(v[2][0][1], 'ConstPointer'):
                    kind = 'ConstPointer'
                elif v[0] == 'agg' and v[1].endswith('Type::MutPointer') and len(v[2]) == 1 and rec_of(v[2][0][1], 'MutPointer'):
                    kind = 'MutPointer'
                elif v[0] == 'agg' and v[1].endswith('Type::Array') and len(v[2]) == 2 and rec_of(dict(v[2])['0'], 'Array') and pl(dict(v[2])['1'], 'Array', 1):
                    kind = 'Array'
                elif is_call(v, 'TypeRegistry::padding_type') and len(v[2]) == 2 and pl(v[2][1], 'Unknown'):
                    kind = 'Unknown'
            elif r[0] == 'opt':
                v = strip(r[1])
                if is_call(v, 'TypeRegistry::resolve_string') and len(v[2]) == 3 and strip(v[2][1])[0] == 'arg' and any(pl(y, 'Ident') for y in walk(v[2][2]) if isinstance(y, tuple)) and \
                        not any(isinstance(y, tuple) and y and y[0] in ('bin', 'un') for y in walk(v[2][2])):
                    kind = 'Ident'
            seen.setdefault(kind, []).append(r)
        sw = [s_ for s_ in f.switches() if s_['cond'][0] == 'discr' and strip(s_['cond'][1])[0] == 'arg']
        okg = len(sw) == 1 and set(seen) == {'ConstPointer', 'MutPointer', 'Array', 'Unknown', 'Ident'} and all(len(v_) == 1 for v_ in seen.values())
        detg = '; '.join('%s: %s' % (k_, show(v_[0][-1])[:50] if v_ and len(v_[0]) > 1 else v_) for k_, v_ in sorted(seen.items(), key=lambda kv: str(kv[0])) if k_ is None)
    ob(['C01', 'C02', 'C11', 'C18', 'C15', 'C05', 'C20'], 'resolve_grammar_type', okg,
       'grammar types map structurally: *const→ConstPointer, *mut→MutPointer, [T; n]→Array(T, n) with n unchanged, unknown<n>→padding, names→resolve_string%s' % (
           (' (not understood: %s)' % detg) if detg else ''), f)
