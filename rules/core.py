"""core — obligations, findings, known-findings handling, evidence writing."""
import json, os, time, hashlib

VERIF = os.path.dirname(os.path.dirname(os.path.abspath(__file__)))


class Ob:
    __slots__ = ('props', 'rule', 'key', 'ok', 'what', 'where', 'detail', 'nontrivial')

    def __init__(self, props, rule, key, ok, what, where, detail, nontrivial):
        self.props = props
        self.rule = rule
        self.key = key
        self.ok = ok
        self.what = what
        self.where = where
        self.detail = detail
        self.nontrivial = nontrivial


class Ctx:
    def __init__(self, prog=None, syn=None, repo='/repo', tier='quick'):
        self.prog = prog
        self.syn = syn
        self.repo = repo
        self.tier = tier
        self.obs = []
        self.notes = {}          # property -> list of strings for evidence
        self.stats = {}

    def ob(self, props, rule, key, ok, what, where='', detail='', nontrivial=True):
        """record one evaluated obligation.  `key` identifies the construct without line numbers."""
        if isinstance(props, str):
            props = [props]
        self.obs.append(Ob(list(props), rule, '%s|%s' % (rule, key), bool(ok), what, where, detail, nontrivial))
        return bool(ok)

    def fail_closed(self, props, rule, key, why, where=''):
        return self.ob(props, rule, key, False, 'cannot decide: ' + why, where)

    def note(self, prop, text):
        self.notes.setdefault(prop, []).append(text)


def load_known(path=None):
    path = path or os.path.join(VERIF, 'known_findings.jsonl')
    known, fixed = {}, {}
    if os.path.exists(path):
        for line in open(path):
            line = line.strip()
            if not line or line.startswith('#'):
                continue
            r = json.loads(line)
            (known if r.get('status') == 'known' else fixed)[(r['property'], r['key'])] = r
    return known, fixed


def report(ctx, prop, meta, t0, seed=0, write=True, replay_dir=None):
    """print findings for one property, write evidence, return exit code"""
    known, fixed = load_known()
    mine = [o for o in ctx.obs if prop in o.props]
    bad = [o for o in mine if not o.ok]
    viol, kn = [], []
    for o in bad:
        if (prop, o.key) in known:
            kn.append(o)
        else:
            viol.append(o)
    for o in kn:
        r = known[(prop, o.key)]
        print('KNOWN-FINDING: property=%s %s %s' % (prop, o.key, r.get('what', o.what)))
    code = 0
    replay = None
    if viol:
        rd = replay_dir or os.path.join(VERIF, 'reports')
        os.makedirs(rd, exist_ok=True)
        h = hashlib.sha1(('\n'.join(sorted(o.key for o in viol))).encode()).hexdigest()[:10]
        replay = os.path.join(rd, '%s-%s.json' % (prop, h))
        with open(replay, 'w') as fh:
            json.dump({'property': prop, 'violations': [
                {'key': o.key, 'rule': o.rule, 'what': o.what, 'where': o.where, 'detail': o.detail} for o in viol]}, fh, indent=1)
        for o in viol:
            print('%s  %s  %s' % (o.where or '-', o.key, o.what))
            if o.detail:
                print('      ' + str(o.detail)[:600])
        print('VIOLATION property=%s replay=%s' % (prop, replay))
        code = 1
    if write:
        samples = []
        for o in mine:
            if o.nontrivial and len(samples) < 40:
                samples.append({'obligation': o.key, 'holds': o.ok, 'what': o.what, 'where': o.where,
                                'detail': str(o.detail)[:300]})
        distinct = len({o.key for o in mine if o.nontrivial})
        ev = {
            'property_id': prop,
            'tier': ctx.tier,
            'seed': seed,
            'level': 'other',
            'coverage': {
                'explanation': meta.get('explanation', ''),
                'obligations': len(mine),
                'discharged': len([o for o in mine if o.ok]),
                'evaluations': len(mine),
                'distinct_nontrivial': distinct,
                'rule': 'one evaluation = one rule instance (obligation) decided on the facts extracted from /repo\'s '
                        'current source; non-trivial = the instance matched a real construct (function, call site, '
                        'branch, template node) rather than being a count or presence check; distinct by obligation key',
                'samples': samples,
                'rules_applied': sorted({o.rule for o in mine}),
                'functions_analysed': ctx.stats.get('functions', 0),
                'call_edges': ctx.stats.get('call_edges', 0),
                'templates': ctx.stats.get('templates', 0),
                'facts_normalised': ctx.stats.get('normalised', {}),
                'known_findings': [o.key for o in kn],
                'not_decided': meta.get('not_decided', []),
                'notes': ctx.notes.get(prop, []),
                'checker_cmd': './check %s --tier %s' % (prop, ctx.tier),
                'trusted_base': meta.get('trusted_base', []),
            },
            'assumptions': meta.get('assumptions', []),
            'wall_s': round(time.time() - t0, 2),
            'violations': len(viol),
        }
        ev['coverage'].update(ctx.stats.get('extra_' + prop, {}))
        os.makedirs(os.path.join(VERIF, 'evidence'), exist_ok=True)
        with open(os.path.join(VERIF, 'evidence', prop + '.json'), 'w') as fh:
            json.dump(ev, fh, indent=1)
    return code
