"""guards — rejection / deferral guards of a function, normalised predicates, coverage (cut) tests,
and the call-closure view (guards of in-crate callees whose error is propagated)."""
import re
from mirlib import *

REJECT = {'err_own', 'err_prop', 'diverge'}
DEFER = {'ok_none', 'none', 'none_prop'}
FLIP = {'Lt': 'Ge', 'Le': 'Gt', 'Gt': 'Le', 'Ge': 'Lt', 'Eq': 'Ne', 'Ne': 'Eq'}
SWAP = {'Lt': 'Gt', 'Le': 'Ge', 'Gt': 'Lt', 'Ge': 'Le', 'Eq': 'Eq', 'Ne': 'Ne'}


def negate(p):
    k = p[0]
    if k == 'bin' and p[1] in FLIP:
        return ('bin', FLIP[p[1]], p[2], p[3])
    if k == 'un' and p[1] == 'Not':
        return p[2]
    if k == 'is_none':
        return ('is_some', p[1])
    if k == 'is_some':
        return ('is_none', p[1])
    if k == 'call' and re.search(r'Option::<T>::is_none$', p[1]):
        return ('is_some', p[2][0])
    if k == 'call' and re.search(r'Option::<T>::is_some$', p[1]):
        return ('is_none', p[2][0])
    return ('un', 'Not', p)


def canon_pred(p, depth=0):
    """one spelling for equivalent conditions: negations pushed inward (`!(a == b)` is `a != b`, `!(a < b)` is `a >= b`,
    `!x.is_none()` is `x.is_some()`, `!!c` is `c`), a constant on the left moved to the right (`0 < x` is `x > 0`),
    `x >= 1` is `x > 0`"""
    if not isinstance(p, tuple) or not p or depth > 8:
        return p
    p0 = strip(p)
    if p0[0] == 'un' and p0[1] == 'Not':
        inner = canon_pred(p0[2], depth + 1)
        n = negate(inner)
        return n
    if p0[0] == 'call' and re.search(r'Option::<T>::is_none$', p0[1]) and p0[2]:
        return ('is_none', p0[2][0])
    if p0[0] == 'call' and re.search(r'Option::<T>::is_some$', p0[1]) and p0[2]:
        return ('is_some', p0[2][0])
    if p0[0] == 'bin' and p0[1] in FLIP:
        op, a, b = p0[1], p0[2], p0[3]
        if strip(a)[0] == 'int' and strip(b)[0] != 'int':
            op, a, b = SWAP[op], b, a
        if op == 'Ge' and strip(b)[0] == 'int' and strip(b)[1] >= 1:
            op, b = 'Gt', ('int', strip(b)[1] - 1) + tuple(strip(b)[2:])
        if op == 'Lt' and strip(b)[0] == 'int' and strip(b)[1] >= 1:
            op, b = 'Le', ('int', strip(b)[1] - 1) + tuple(strip(b)[2:])
        # unsigned: x > 0 is x != 0, x <= 0 is x == 0
        if op in ('Gt', 'Le') and strip(b)[0] == 'int' and strip(b)[1] == 0 and len(strip(b)) > 2 and str(strip(b)[2]).startswith('u'):
            op = 'Ne' if op == 'Gt' else 'Eq'
        return ('bin', op, a, b)
    return p


OPTION_TO_ERR = re.compile(r'(for std::option::Option<T>>::(with_context|context)|Option::<T>::ok_or(_else)?)$')


def none_form(p):
    """`x.context(..)?` / `x.ok_or_else(..)?` on an Option fails exactly when x is None: the same guard as
    `let Some(..) = x else { bail!(..) }`"""
    if p[0] != 'fails':
        return p
    e, n = strip(p[1]), 0
    while e[0] == 'call' and e[2] and OPTION_TO_ERR.search(e[1]):
        e, n = strip(e[2][0]), n + 1
    return ('is_none', e) if n else p


def option_test_form(fn, p):
    """`if let Some(v) = x.filter(|v| c(v))` is `if let Some(v) = x { if c(v) {..} }`: a test for Some of a combinator chain
    over one tested Option and one further condition is that condition (on the payload of the tested Option)"""
    if p[0] != 'is_some' or strip(p[1])[0] != 'call':
        return p
    from mirlib import opt_sem, conj_simplify
    conds, _v = opt_sem(fn, p[1])
    conds = conj_simplify(conds)
    rest = [c for c in conds if not (c[0] == 'is_some' and strip(c[1])[0] in ('var', 'arg', 'field'))]
    if len(rest) == 1 and len(conds) >= 1 and rest[0][0] != 'is_some':
        return canon_pred(rest[0])
    return p


def norm_pred(cond, label):
    """predicate that is true exactly when the edge `label` of a switch on `cond` is taken"""
    if cond[0] == 'discr':
        x = cond[1]
        if label == 'None':
            return ('is_none', x)
        if label == 'Some':
            return ('is_some', x)
        if label == 'Break' and x[0] == 'call' and x[3] == TRY_BRANCH:
            return ('fails', x[2][0])
        if label == 'Continue' and x[0] == 'call' and x[3] == TRY_BRANCH:
            return ('succeeds', x[2][0])
        if label == 'Err':
            return ('fails', x)
        if label == 'Ok':
            return ('succeeds', x)
        return ('variant', x, label)
    p = cond
    if p[0] == 'call' and re.search(r'Option::<T>::is_none$', p[1]):
        p = ('is_none', p[2][0])
    elif p[0] == 'call' and re.search(r'Option::<T>::is_some$', p[1]):
        p = ('is_some', p[2][0])
    if label is True:
        return canon_pred(p)
    if label is False:
        return canon_pred(negate(canon_pred(p)))
    return ('eqlit', cond, label)


class Guard:
    def __init__(self, fn, block, cond, label, tgt, kind, kinds, span, others):
        self.fn = fn
        self.block = block
        self.cond = cond
        self.label = label
        self.tgt = tgt
        self.kind = kind          # 'reject' | 'defer'
        self.kinds = kinds
        self.span = span
        self.pred = option_test_form(fn, none_form(norm_pred(cond, label)))
        self.others = others      # [(label, tgt)] of the sibling edges

    def where(self):
        return loc(self.span)

    def __repr__(self):
        return 'Guard(%s %s ⇒ %s @%s)' % (self.fn.id, show(self.pred)[:120], self.kind, self.where())


def guards_of(fn):
    memo = fn.__dict__.setdefault('_guards', None)
    if memo is not None:
        return memo
    out = []
    for s in fn.switches():
        ek = [(lab, tgt, fn.exit_kinds_from(tgt)) for lab, tgt in s['edges']]
        for lab, tgt, ks in ek:
            if not ks:
                continue
            sib = [k for (l2, t2, k) in ek if t2 != tgt]
            if ks <= REJECT and any(not (k <= REJECT) for k in sib):
                out.append(Guard(fn, s['block'], s['cond'], lab, tgt, 'reject', ks, s['span'], [(l2, t2) for (l2, t2, k) in ek if t2 != tgt]))
            elif ks <= DEFER and any(not (k <= DEFER) for k in sib):
                out.append(Guard(fn, s['block'], s['cond'], lab, tgt, 'defer', ks, s['span'], [(l2, t2) for (l2, t2, k) in ek if t2 != tgt]))
    fn._guards = out
    return out


def success_exits(fn):
    return [x for x in fn.exits() if x['kind'] in ('ok_some', 'ok', 'some', 'passthrough', 'other')]


def unreachable_without(fn, dst, removed_blocks=(), removed_edges=(), src=0):
    """True iff `dst` cannot be reached from `src` once the given blocks/edges are removed"""
    removed_blocks = set(removed_blocks)
    removed_edges = set(removed_edges)
    if src in removed_blocks:
        return True
    seen = set()
    st = [src]
    while st:
        x = st.pop()
        if x == dst:
            return False
        if x in seen:
            continue
        seen.add(x)
        for y in fn.succ(x):
            if y in removed_blocks or (x, y) in removed_edges:
                continue
            st.append(y)
    return True


def innermost_loop(fn, block):
    best = None
    for (h, body, latches) in fn.loops():
        if block in body:
            if best is None or len(body) < len(best[1]):
                best = (h, body, latches)
    return best


def covers_all_paths(fn, g, exits=None, exempt_edges=()):
    """every path from entry to every success exit evaluates guard g (outside exempt edges)"""
    exits = exits if exits is not None else success_exits(fn)
    if not exits:
        return False
    return all(unreachable_without(fn, x['block'], {g.block}, exempt_edges) for x in exits)


def covers_each_iteration(fn, g):
    """g sits in a loop and every trip around its innermost loop evaluates g; the loop itself
    lies on every path to the success exits.  Returns (ok, loop)"""
    L = innermost_loop(fn, g.block)
    if not L:
        return False, None
    h, body, latches = L
    from r_panic import cycle_without
    if cycle_without(fn, body, h, {g.block}):
        return False, L
    ex = success_exits(fn)
    if not ex or not all(unreachable_without(fn, x['block'], {h}) for x in ex):
        return False, L
    return True, L


def loop_source(fn, L):
    """(self type of the driving Iterator::next, expression of the iterator) for loop L"""
    h, body, latches = L
    for bi in sorted(body):
        t = fn.term(bi)
        if t['k'] == 'Call' and t.get('callee') and t['callee']['path'].endswith('Iterator::next'):
            c = t['callee']
            return (c.get('self_ty') or (c.get('gargs') or ['?'])[0]), fn.expr_of_operand(t['args'][0])
    return None, None


def propagated_calls(fn):
    """in-crate calls whose failure is propagated with `?` (possibly through with_context/map_err)
    and whose propagation guard lies on every path to the success exits: [(callee fn, guard)]"""
    out = []
    for g in guards_of(fn):
        if g.kind != 'reject' or g.pred[0] != 'fails':
            continue
        e = g.pred[1]
        # peel context/map_err wrappers
        while e[0] == 'call' and re.search(r'(Context<.*>>::(with_context|context)|anyhow::Context::(with_context|context)|context::<impl .*>::(with_context|context)|Result::<T, E>::map_err)$', e[1] + '|' + e[3]) or \
                (e[0] == 'call' and (e[3].endswith('Context::with_context') or e[3].endswith('Context::context') or e[1].endswith('::map_err'))):
            e = e[2][0]
        if e[0] == 'call' and e[1] in fn.prog.fns:
            out.append((fn.prog.fns[e[1]], g, e))
    return out


def closure_guards(fn, depth=0, seen=None):
    """guards of fn plus guards of in-crate callees whose Err is propagated: list of (Guard, chain)"""
    seen = seen or set()
    if fn.id in seen or depth > 6:
        return []
    seen = seen | {fn.id}
    out = [(g, [fn.id]) for g in guards_of(fn)]
    for callee, pg, e in propagated_calls(fn):
        for (g, chain) in closure_guards(callee, depth + 1, seen):
            out.append((g, [fn.id] + chain))
    # closures created here (iterator adapters, then(), map()) may contain guards too
    for c in fn.prog.closures_of(fn, recursive=False):
        for (g, chain) in closure_guards(c, depth + 1, seen):
            out.append((g, [fn.id] + chain))
    return out


# ---- small matchers ---------------------------------------------------------------------------
def is_call(e, frag):
    return isinstance(e, tuple) and e and e[0] == 'call' and (frag in e[1] or frag in e[3])


def find_calls(e, frag):
    return [x for x in walk(e) if is_call(x, frag)]


def is_int(e, v=None):
    return isinstance(e, tuple) and e and e[0] == 'int' and (v is None or e[1] == v)


def cmp_parts(p):
    """(op, lhs, rhs) of a comparison predicate, or None"""
    if p[0] == 'bin' and p[1] in FLIP:
        return p[1], p[2], p[3]
    return None


def unwrap_all(e):
    """strip unwrap/try/payload/clone wrappers"""
    while True:
        e = strip(e)
        if e[0] in ('try',):
            e = e[1]
        elif e[0] == 'payload' and e[2] in ('Some', 'Ok', 'Continue'):
            e = e[1]
        elif e[0] == 'call' and re.search(r'(Option::<T>|Result::<T, E>)::(unwrap|expect|unwrap_or_default)$', e[1]):
            e = e[2][0]
        else:
            return e


def lifted_guards(fn, skip=()):
    """reject guards of in-crate helpers whose error the function propagates with `?`: a guard that lies on every path to
    the helper's success exits is lifted into the caller (predicate rewritten to the caller's operands, block = the block of
    the propagating `?`), so that extracting a check into a helper function does not change any verdict"""
    out = []
    for callee, pg, call in propagated_calls(fn):
        if callee.id in skip or callee.id == fn.id:
            continue
        cs = success_exits(callee)
        if not cs:
            continue
        for g in guards_of(callee):
            if g.kind != 'reject' or g.pred[0] == 'fails':
                continue
            if not covers_all_paths(callee, g, exits=cs):
                continue
            lg = Guard(fn, pg.block, g.cond, g.label, pg.tgt, 'reject', g.kinds, g.span, pg.others)
            lg.pred = subst_args(expand(callee, g.pred), call[2])
            lg.lifted_from = callee.id
            out.append(lg)
    return out


def block_conditions(fn, block):
    """the atomic conditions under which `block` runs (every dominating switch edge outside `?` and loop drivers), combinator
    chains unfolded: [predicate]"""
    from mirlib import _edge_conds, opt_sem, conj_simplify
    out = []
    for _b, c, lab in _edge_conds(fn, block):
        p = norm_pred(c, lab)
        if p[0] == 'is_some' and strip(p[1])[0] == 'call':
            conds, _v = opt_sem(fn, p[1])
            out.extend(canon_pred(x) for x in conj_simplify(conds))
        else:
            out.append(p)
    return out


push_conditions = block_conditions
