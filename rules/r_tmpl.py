"""r_tmpl — rules on the extracted output templates (R-TMPL, R-SYNTAX): struct / enum / wrapper / accessor
shapes and the provenance of every interpolated value.  C01-D6, C02-D3/D4/D7, C04-D4, C05-D3/D4, C06-D5,
C07-D2/D3, C08-D3/D4, C11-D4, C13-D2/D3, C15-D1, C16-D4, C17."""
import re, os, json, subprocess, tempfile
from mirlib import *
from tmpl import *
from guards import is_int, is_call, find_calls

H = r'⟨H(\d+)⟩'
AT = r'(?:# \[ (?!repr|derive|doc |default)(?:[^\[\]]|\[[^\[\]]*\])* \] )*'      # harmless extra attributes (#[allow(..)], #[inline], ..)
VIS = AT + r'ALT(\d+)\{  \|\| pub \}'
DOCS = r'ALT\d+\{  \|\| REP(\d+)\( (?:⟨E\d+:)?# \[ doc = ⟨H\d+⟩ \](?:⟩)? \)\* \}'

WRAP = re.compile(r'(rust::str_to_ident|rust::sa_type_to_syn_type|rust::hex_literal|convert::Into::into|::into|Deref::deref|deref|as_str|as_deref|ItemPathSegment::as_str|'
                  r'Option::<T>::as_ref|context::context|Context::context|CallingConvention::as_str|clone|to_string)$')


def core(e):
    """strip constructor helpers and value-preserving wrappers; returns (path string | None if impure, kinds)"""
    kinds = []
    while True:
        e = strip(e)
        if e[0] in ('try',):
            e = e[1]
            continue
        if e[0] == 'payload' and e[2] in ('Some', 'Ok', 'Continue'):
            e = e[1]
            continue
        if e[0] == 'call' and e[2] and (WRAP.search(e[1]) or WRAP.search(e[3])):
            nm = e[1].split('::')[-1]
            kinds.append(nm)
            e = e[2][0]
            continue
        break
    return e, kinds


def path_of(e):
    e, kinds = core(e)
    parts = []
    cur = e
    while True:
        cur = strip(cur)
        if cur[0] == 'field':
            parts.append(cur[2])
            cur = cur[1]
        elif cur[0] == 'payload' and cur[2] == 'Some' and cur[3] == 0 and strip(cur[1])[0] == 'call' and re.search(r'ItemDefinition::resolved$', strip(cur[1])[1]):
            cur = cur[1]            # `let Some(r) = d.resolved() else { bail }` is `d.resolved().context(..)?`
        elif cur[0] == 'payload':
            parts.append('%s#%d' % (cur[2], cur[3]))
            cur = cur[1]
        elif cur[0] in ('try',):
            cur = cur[1]
        elif cur[0] == 'call' and cur[2] and (WRAP.search(cur[1]) or WRAP.search(cur[3]) or re.search(r'ItemDefinition::resolved$|ItemDefinition::category$|Option::<T>::unwrap$|ItemPath::last$', cur[1])):
            if re.search(r'ItemDefinition::resolved$', cur[1]):
                parts.append('resolved()')
            if re.search(r'ItemPath::last$', cur[1]):
                parts.append('last()')
            cur = cur[2][0]
        else:
            break
    if cur[0] in ('arg', 'var', 'upvar', 'carg'):
        root = cur[2] if cur[0] != 'upvar' else 'upvar%d' % cur[1]
        return root + ''.join('.' + p for p in reversed(parts)), kinds, cur
    if cur[0] == 'call' and (cur[3].endswith('Iterator::next') or cur[1].endswith('Iterator::next')):
        # the element of a `for` loop: same role as the parameter of a map closure
        if parts and parts[-1] == 'Some#0':
            parts = parts[:-1]
        return 'elem' + ''.join('.' + p for p in reversed(parts)), kinds, ('carg', -1, 'elem', cur)
    return None, kinds, cur


class T:
    """flattened template of one entry function with lookup helpers"""

    def __init__(self, prog, R, suffix):
        self.f, self.t, self.fl, self.s = template_of(prog, suffix, R)
        # docs written as `if let Some(doc) { for line in doc.lines() { ts.extend(quote!{#[doc = #line]}) } }` flatten to
        # OPT[ REP( # [ doc = H ] )* ]; the shape patterns below are written for the equivalent ALT{ ε || REP( ⟨E:..⟩ )* } form
        self.s = re.sub(r'OPT(\d+)\[ REP(\d+)\( (# (?:! )?\[ doc = ⟨H(\d+)⟩ \]) \)\* \]',
                        lambda m: 'ALT9%s{  || REP%s( ⟨E%s:%s⟩ )* }' % (m.group(1), m.group(2), m.group(4), m.group(3)), self.s)
        self.holes = {h[0]: h for h in self.fl.holes if not (isinstance(h[1], tuple) and h[1][0] in ('elem', 'vec') and h[2] in ('stream', 'vec'))}
        self.reps = {r[0]: r for r in self.fl.reps}
        self.alts = {a[0]: a for a in self.fl.alts}
        self.opts = {o[0]: o for o in self.fl.opts}

    def hp(self, i):
        h = self.holes.get(int(i))
        if not h:
            return None, [], None, ''
        p, kinds, root = path_of(h[1])
        return p, kinds, root, h[2]

    def vis_path(self, i):
        """for an `ALT{  || pub }` alternative: the access path of the value whose variant decides it, and whether `pub`
        is emitted exactly for Public"""
        a = self.alts.get(int(i))
        if not a or len(a) < 4 or len(a[3]) != 2:
            return None, False
        out = []
        for arm_conds in a[3]:
            last = [c for c in arm_conds if c[0][0] == 'discr']
            if not last:
                return None, False
            c, lab = last[-1]
            p, _, _ = path_of(c[1])
            out.append((p, lab))
        if out[0][0] != out[1][0]:
            return None, False
        return out[0][0], (out[0][1] == 'Private' and out[1][1] == 'Public')

    def rep_info(self, i):
        r = self.reps[int(i)]
        info = (r[3] or [None])[0]
        return r, info


def run(ctx):
    P = ctx.prog
    R = Resolver(P)
    try:
        item = T(P, R, 'backends::rust::build_item')
        fn = T(P, R, 'backends::rust::build_function')
        ev = T(P, R, 'backends::rust::build_extern_value')
    except LookupError as e:
        ctx.fail_closed(['C01', 'C04', 'C05', 'C13', 'C15', 'C17'], 'R-ANCHOR', 'backend', str(e))
        return
    ctx.stats['templates'] = 3
    ctx.templates = {'item': item, 'fn': fn, 'extern': ev}
    opaque = item.fl.opaque + fn.fl.opaque + ev.fl.opaque
    ctx.ob(['C13', 'C01', 'C04', 'C05', 'C17'], 'R-TMPL', 'no-opaque', not opaque,
           'every token the backend can emit was reconstructed (no part of a template is opaque to the extractor): %s' % opaque[:3], loc(item.f.span))
    item_alts(ctx, item)
    struct_rules(ctx, item)
    enum_rules(ctx, item)
    fn_rules(ctx, fn)
    extern_rules(ctx, ev)
    type_printer(ctx)
    helpers(ctx)
    hole_kinds(ctx, item, fn, ev)
    syntax(ctx, item, fn, ev)


# ------------------------------------------------------------------------------------------------
def item_alts(ctx, item):
    """C14/C13-D3: Defined -> struct|enum, Predefined/Extern -> nothing"""
    a0 = item.alts.get(0)
    ok = False
    det = ''
    if a0 and item.s.startswith('ALT0{'):
        labs = a0[1]
        det = labs
        body = item.s
        # split top-level alternatives
        parts = split_alt(body)
        ok = False
        if len(parts) == len(labs) and len(parts) >= 3:
            en = [i for i, p_ in enumerate(parts) if ' enum ' in p_]
            st = [i for i, p_ in enumerate(parts) if ' struct ' in p_ and i not in en]
            rest = [i for i in range(len(parts)) if i not in en + st]
            cats = set()
            for i in rest:
                cats |= set(re.findall(r'=(\w+)', labs[i])) - {'Some', 'None', 'True', 'False', 'Ok'}     # (an enclosing `let Some(..) = d.resolved()` is not a category)
            ok = len(en) == 1 and len(st) == 1 and 'Defined' in labs[en[0]] and 'Enum' in labs[en[0]] and 'Defined' in labs[st[0]] and 'Type' in labs[st[0]] \
                and all(parts[i].strip() == '' for i in rest) and cats == {'Predefined', 'Extern'} and not any('Defined' in re.findall(r'=(\w+)', labs[i]) for i in rest)
            if ok and (en[0], st[0]) != (0, 1):
                # arms written in another order (or the two empty ones merged): later rules address the alternatives as
                # [enum, struct, nothing, nothing]
                parts = [parts[en[0]], parts[st[0]], '', '']
        if not ok and len(parts) == 2 and len(labs) == 2 and getattr(ctx, 'items_defined_only', False):
            # no branch on the category here: items without a Rust definition never reach this function, because the loop that
            # writes the module takes only `category() == Defined` (C14-D5|all-items-written saw that filter, and only that one)
            en = [i for i, p_ in enumerate(parts) if ' enum ' in p_]
            st = [i for i, p_ in enumerate(parts) if ' struct ' in p_ and i not in en]
            ok = len(en) == 1 and len(st) == 1 and 'Enum' in labs[en[0]] and 'Type' in labs[st[0]]
            if ok:
                # later rules address the alternatives as [enum, struct, nothing, nothing]
                parts = [parts[en[0]], parts[st[0]], '', '']
        item.parts = parts
    ctx.ob(['C14', 'C13'], 'R-MATCH', 'item|categories', ok, 'a Defined type emits a struct, a Defined enum an enum, Predefined and Extern items emit nothing: %s' % [str(x)[:60] for x in det], loc(item.f.span))


def split_alt(s):
    """top-level `ALT0{ a || b || c }` -> [a, b, c]"""
    assert s.startswith('ALT0{')
    depth = 0
    i = s.index('{')
    parts = []
    cur = ''
    j = i + 1
    depth = 1
    while j < len(s):
        if s.startswith('||', j) and depth == 1:
            parts.append(cur)
            cur = ''
            j += 2
            continue
        c = s[j]
        if c == '{' and re.search(r'ALT\d+$', s[:j]):
            depth += 1
        elif c == '{':
            depth += 0
        if c == '}' and _closes_alt(s, j):
            depth -= 1
            if depth == 0:
                parts.append(cur)
                break
        cur += c
        j += 1
    return parts


def _closes_alt(s, j):
    # a '}' closes an ALT when it is preceded by ' ' and the matching opener was 'ALTn{'
    # brace groups of real tokens are written '{ ... }' with spaces as well, so match openers explicitly
    depth = 0
    k = j
    while k >= 0:
        c = s[k]
        if c == '}':
            depth += 1
        elif c == '{':
            depth -= 1
            if depth == 0:
                return bool(re.search(r'ALT\d+$', s[:k]))
        k -= 1
    return False


def struct_rules(ctx, item):
    parts = getattr(item, 'parts', None)
    where = loc(item.f.span)
    if not parts:
        ctx.fail_closed(['C01', 'C02', 'C17'], 'R-TMPL', 'struct', 'item template has unexpected top-level shape', where)
        return
    s = parts[1]
    item.struct = s
    n = len(re.findall(r'(?<![\w⟩]) struct ', ' ' + s))
    ctx.ob(['C01', 'C14'], 'R-TMPL', 'struct|exactly-one', n == 1, 'the struct arm emits exactly one `struct` item (%d)' % n, where)
    # repr
    m = re.search(r'# \[ repr \( C ALT(\d+)\{ , packed \|\|  \} ALT(\d+)\{  \|\| , align \( ' + H + r' \) \} \) \]', s)
    ok = False
    det = ''
    if m:
        a1, a2, h = m.group(1), m.group(2), m.group(3)
        l1, l2 = item.alts[int(a1)][1], item.alts[int(a2)][1]
        p, kinds, root, ty = item.hp(h)
        det = 'packed alt %s / align alt %s; align(⟨%s: %s⟩)' % (l1, l2, ty, p)
        same = l1 == l2 and len(l1) == 2 and all('packed' in x for x in l1) and l1[0].endswith('=True') and l1[1].endswith('=False')
        ok = same and p is not None and p.endswith('resolved().alignment') and 'syn::Index' in ty
    else:
        det = 'no `#[repr(C <packed|align>)]` attribute of the expected shape before the struct'
    before = s.split(' struct ')[0] if ' struct ' in s else ''
    ok = ok and m is not None and m.start() < len(before)
    ctx.ob(['C01', 'C02', 'C17', 'C04', 'C06'], 'R-TMPL', 'struct|repr', ok,
           'the struct is always #[repr(C, ..)]; packed types get `, packed` and no align, all others `, align(N)` with N = the resolved alignment of this very item, printed unsuffixed: %s' % det, where)
    # derives
    m = re.search(r'^\s*ALT(\d+)\{  \|\| # \[ derive \( REP(\d+)\( ⟨V(\d+):([^⟩]*)⟩ \),\* \) \] \}', s)
    if not m:
        # `(!derives.is_empty()).then(|| quote!{ #[derive(..)] })`: the attribute is present exactly when the list is not empty
        m2 = re.search(r'^\s*OPT(\d+)\[ # \[ derive \( REP(\d+)\( ⟨V(\d+):([^⟩]*)⟩ \),\* \) \] \]', s)
        if m2:
            c_ = item.opts[int(m2.group(1))][1]
            x_ = strip(c_)
            neg = False
            while x_[0] == 'un' and x_[1] == 'Not':
                x_, neg = strip(x_[2]), not neg
            if neg and x_[0] == 'call' and x_[1].endswith('::is_empty'):
                m = m2
    okd = False
    det = ''
    if m:
        vi = int(m.group(3))
        vec = [h for h in item.fl.holes if h[0] == vi and h[1][0] == 'vec']
        if vec:
            ents = vec[0][1][1][1]
            got = []
            for cond, toks in ents:
                nm = ' '.join(t[1] for t in toks if t[0] == 'tok')
                cs = show(cond[0]) + '=' + str(cond[1]) if cond else 'always'
                got.append((nm, cs))
            det = got
            want = {'Copy': 'copyable', 'Clone': 'cloneable', 'Default': 'defaultable'}
            okd = len(got) == 3 and all(nm in want and want[nm] in cs and cs.endswith('=True') for nm, cs in got) and sorted(nm for nm, _ in got) == ['Clone', 'Copy', 'Default']
            if m.re.pattern.startswith('^\\s*ALT'):
                # the attribute is left out exactly when the list is empty (the first alternative is the empty one)
                labs_ = item.alts[int(m.group(1))][1]
                okd = okd and len(labs_) == 2 and re.search(r'(^|::)is_empty\(', labs_[0]) is not None and labs_[0].endswith('=True')
                det = '%s; empty when %s' % (det, labs_[0][:60])
    ctx.ob(['C17', 'C13'], 'R-TMPL', 'struct|derives', okd, 'derive list = Copy iff copyable, Clone iff cloneable, Default iff defaultable, comma separated; no attribute when empty: %s' % det, where)
    # header: docs vis struct name
    m = re.search(DOCS + ' ' + VIS + r' struct ' + H + r' \{ REP(\d+)\( ⟨E\d+:' + DOCS + ' ' + VIS + ' ' + H + ' : ' + H + r'⟩ \),\* \}', s)
    okh = False
    det = 'header/field list of unexpected shape'
    if m:
        drep, valt, hname, frep, fdrep, fvalt, fh, ft = m.groups()
        pname = item.hp(hname)
        dsrc = show(item.reps[int(drep)][1][0])
        vlab = item.alts[int(valt)][1]
        r, info = item.rep_info(frep)
        chain = [c[0] for c in (info or {}).get('chain', [])]
        base = show((info or {}).get('base', ('?',)))
        pn, kn, rn, _ = item.hp(fh)
        pt, kt, rt, _ = item.hp(ft)
        fd = show(item.reps[int(fdrep)][1][0])
        fv = item.alts[int(fvalt)][1]
        det = 'name %s doc %s | fields over %s %s: name %s type %s doc %s' % (pname[0], dsrc[:60], base[-40:], chain, pn, pt, fd[:50])
        okh = (pname[0] is not None and pname[0].endswith('path.last()') and 'str_to_ident' in pname[1] and
               re.search(r'unwrap_Type\(.*resolved.*\)\.doc|td\.doc|type_definition\.doc', dsrc) is not None and
               base.endswith('.regions') and chain == ['iter', 'map', 'collect'] and r[2] == ',' and
               pn is not None and pn.endswith('.name') and 'str_to_ident' in kn and pt is not None and pt.endswith('.type_ref') and 'sa_type_to_syn_type' in kt and
               rn == rt and rn is not None and rn[0] in ('arg', 'carg') and re.search(r'lines\(.*\br\.doc|lines\(.*\.doc', fd) is not None)
        # the struct's visibility alternative is keyed on the item's visibility, the field's on the region's
        vp, vok = item.vis_path(valt)
        fp, fok = item.vis_path(fvalt)
        det += ' | struct vis %s field vis %s' % (vp, fp)
        okh = okh and vok and vp == 'definition.visibility' and fok and fp is not None and fp.endswith('.visibility') and fp.split('.')[0] == (pn or '').split('.')[0]
    ctx.ob(['C01', 'C17', 'C14'], 'R-TMPL', 'struct|fields', okh,
           'struct <item name> { one field per region of the item\'s own region list, in order, comma separated; each with the region\'s own docs, visibility, name and type }: %s' % det, where)
    vis_checks(ctx, item, s, 'struct')
    # size check
    m = re.search(r'OPT(\d+)\[ fn ' + H + r' \(  \) \{ unsafe \{ (?::: )?(?:std|core) :: mem :: transmute :: < \[ u8 ; ' + H + r' \] , ' + H + r' > \( \[ 0u8 ; ' + H + r' \] \) ; \} unreachable ! \(  \) \} \]', s)
    oks = False
    det = 'no size check of the expected shape'
    if m:
        o, hf, h1, hn, h2 = m.groups()
        from guards import canon_pred
        cond = show(canon_pred(item.opts[int(o)][1]))
        p1, p2, pn = item.hp(h1), item.hp(h2), item.hp(hn)
        det = 'cond %s sizes %s %s type %s' % (cond[:80], p1[0], p2[0], pn[0])
        oks = p1[0] is not None and p1[0] == p2[0] and p1[0].endswith('resolved().size') and pn[0] is not None and pn[0].endswith('path.last()') and \
            re.match(r'^(Gt|Ne)\(.*resolved.*\.size, 0\)$', cond) is not None
    ctx.ob(['C02', 'C13'], 'R-TMPL', 'struct|size-check', oks, 'a transmute between [u8; size] and the struct is emitted for size > 0, with the resolved size of this very item: %s' % det, where)
    # singleton
    m = re.search(r'OPT(\d+)\[ impl ' + H + r' \{ ' + VIS + r' unsafe fn get \(  \) -> Option < & \'static mut Self > \{ unsafe \{ let (?P<pv>\w+) : \* mut Self = \* \( ' + H + r' as \* mut \* mut Self \) ; (?P=pv) \. as_mut \(  \) \} \} \} \]', s)
    oksg = False
    det = 'no singleton accessor of the expected shape'
    if m:
        o, hn, va, _pv, ha = m.groups()
        cond = show(item.opts[int(o)][1])
        pa = item.hp(ha)
        det = 'cond %s address %s (%s)' % (cond[:80], pa[0], pa[3])
        svp, svok = item.vis_path(va)
        oksg = present_exact(item.opts[int(o)][1], 'singleton') and pa[0] is not None and ('upvar' in pa[0] or pa[0].endswith('singleton') or pa[0] in ('address',)) and svok and svp == 'definition.visibility'
        # the address is the payload of the Option the OPT tests
        oksg = oksg and strip(item.opts[int(o)][1][1] if item.opts[int(o)][1][0] == 'is_some' else ('x',)) is not None
    ctx.ob(['C15', 'C17'], 'R-TMPL', 'struct|singleton', oksg,
           'a struct singleton reads one pointer at the declared address (`*(A as *mut *mut Self)`, exactly one dereference) and returns ptr.as_mut(); visibility = the item\'s: %s' % det, where)
    # vftable accessor
    m = re.search(r'OPT(\d+)\[ pub fn vftable \( & self \) -> ' + H + r' \{ self \. ALT(\d+)\{ ' + H + r' \. vftable \(  \) \|\| vftable \} as ' + H + r' \} \]', s)
    okv = False
    det = 'no vftable accessor of the expected shape'
    if m:
        o, t1, a, hb, t2 = m.groups()
        cond = show(item.opts[int(o)][1])
        p1, p2, pb = item.hp(t1), item.hp(t2), item.hp(hb)
        labs = item.alts[int(a)][1]
        det = 'cond %s ret %s cast %s base %s alt %s' % (cond[:60], p1[0], p2[0], pb[0], labs)
        okv = present_exact(item.opts[int(o)][1], 'vftable') and p1[0] is not None and p1[0] == p2[0] and p1[0].endswith('.type_') and pb[0] is not None and 'base_field' in pb[0] and \
            len(labs) == 2 and 'base_field' in labs[0] and labs[0].endswith('=Some') and labs[1].endswith('=None')
    ctx.ob(['C06', 'C04', 'C13'], 'R-TMPL', 'struct|vftable-accessor', okv,
           'vftable() returns self.<base field>.vftable() when the pointer lives in a base, self.vftable otherwise, cast to the type\'s own table pointer type: %s' % det, where)
    # methods
    reps = re.findall(r'REP(\d+)\( ⟨E\d+:ALT\d+\{  \|\| REP\d+\( (?:⟨E\d+:)?# \[ doc', s)
    srcs = []
    for r_ in reps:
        r, info = item.rep_info(r_)
        if info:
            srcs.append((show(info.get('base'))[-40:], [c[0] for c in info.get('chain', [])]))
    want1 = [x for x in srcs if x[0].endswith('associated_functions')]
    want2 = [x for x in srcs if x[0].endswith('.functions')]
    okm = len(want1) == 1 and len(want2) == 1 and all(set(c) <= {'iter', 'filter', 'map', 'collect', 'opt-map'} for _, c in want1 + want2)
    ctx.ob(['C04', 'C05', 'C07', 'C14'], 'R-TMPL', 'struct|methods', okm,
           'the impl block contains a wrapper for every associated function and every vftable function (only filter: internal `_` names): %s' % srcs, where)
    flt_ok = True
    for r_ in reps:
        r, info = item.rep_info(r_)
        for nm, arg in (info or {}).get('chain', []):
            if nm == 'filter' and arg and arg[0] == 'closure' and arg[1] in ctx.prog.fns:
                cf = ctx.prog.fns[arg[1]]
                ex = cf.exits()
                flt_ok = flt_ok and len(ex) == 1 and ex[0]['expr'][0] == 'un' and ex[0]['expr'][1] == 'Not' and is_call_(ex[0]['expr'][2], 'Function::is_internal')
    ctx.ob(['C04', 'C07', 'C14', 'C05'], 'R-TMPL', 'struct|method-filter', flt_ok, 'the only wrappers left out are functions whose name starts with `_` (is_internal)', where)
    # AsRef / AsMut
    m = re.search(r'REP(\d+)\( ⟨E\d+:ALT(\d+)\{ ' + DOCS.replace('REP(\\d+)', 'REP\\d+') + r' const ' + H + r' : \(  \) = \(  \) ; \|\| impl (?::: )?(?:std|core) :: convert :: AsRef < ' + H + r' > for ' + H + r' \{ fn as_ref \( & self \) -> & ' + H +
                  r' \{ & self REP(\d+)\( \. ⟨L(\d+)⟩ \)\* \} \} impl (?::: )?(?:std|core) :: convert :: AsMut < ' + H + r' > for ' + H + r' \{ fn as_mut \( & mut self \) -> & mut ' + H +
                  r' \{ & mut self REP(\d+)\( \. ⟨L(\d+)⟩ \)\* \} \} \} ⊕THEN-ONCE0\( (.*?) \)⟩ \)\*', s)
    oka = False
    det = 'no AsRef/AsMut block of the expected shape'
    if m:
        rp, alt, hc, t1, n1, t2, r1, l1, t3, n2, t4, r2, l2, once = m.groups()
        tps = [item.hp(x) for x in (t1, t2, t3, t4)]
        same_t = len({show(item.holes[int(x)][1]) for x in (t1, t2, t3, t4)}) == 1
        p1 = show(item.reps[int(r1)][1][0])
        p2 = show(item.reps[int(r2)][1][0])
        labs = item.alts[int(alt)][1]
        te = item.holes[int(t1)][1]
        pe = item.reps[int(r1)][1][0]
        # type hole is element.0, path is element.1 of the same closure parameter
        pair = strip(te)[0] == 'field' and strip(pe)[0] == 'field' and strip(te)[1] == strip(pe)[1] and strip(te)[2] != strip(pe)[2]
        r, info = item.rep_info(rp)
        base = show((info or {}).get('base', ('?',)))
        chain_ = [c_[0] for c_ in (info or {}).get('chain', [])]
        pure_chain = all(c_ in ('iter', 'into_iter', 'map', 'collect', 'deref', 'cloned', 'copied', 'opt-map', 'chain') for c_ in chain_)     # every entry, in order
        det = 'type %s path %s/%s dedup %s source %s chain %s' % (show(te), p1, p2, labs, base[:60], chain_)
        oka = pure_chain and same_t and p1 == p2 and pair and len(labs) == 2 and 'len' in labs[0] and labs[0].startswith('Gt(') and labs[0].endswith(', 1)=True') and 'dfs_hierarchy' in base and \
            re.search(r'impl (?::: )?(?:std|core) :: convert :: AsRef < ' + H + ' > for ' + H + r' \{ fn as_ref \( & self \) -> & ' + H + r' \{ self \} \}', once) is not None and \
            re.search(r'impl (?::: )?(?:std|core) :: convert :: AsMut < ' + H + ' > for ' + H + r' \{ fn as_mut \( & mut self \) -> & mut ' + H + r' \{ self \} \}', once) is not None
    # the grouping map that the dedup test indexes: every (type, path) entry is *added to* the list of its type
    # (entry(type).or_default().push(path)), for every entry of the same vector — a map built by overwriting would make every
    # group look unique and emit conflicting impls
    bt_ = ctx.prog.fns.get('backends::rust::build_type')
    okg = False
    detg = 'no accumulating push into a per-type list found'
    if bt_ is not None:
        for g in [bt_] + ctx.prog.closures_of(bt_):
            for c in g.calls(lambda r: r['path'] and r['path'].endswith('Vec::<T, A>::push')):
                recv = g.expr_of_operand(c['term']['args'][0])
                od = [x for x in walk(recv) if is_call_(x, 'Entry') and x[1].endswith('::or_default')]
                if not od or not is_call_(strip(od[0][2][0]), '::entry'):
                    continue
                key = strip(strip(od[0][2][0])[2][1])
                val = strip(g.expr_of_operand(c['term']['args'][1]))
                # per element: the closure of a fold over the hierarchy vector, or a loop over it, with the push on every trip
                per_elem = False
                if g.kind == 'Closure':
                    for cf_ in bt_.calls(lambda r: r['gpath'] and r['gpath'].endswith('Iterator::fold')):
                        fe = bt_.expr_of_call(cf_['term'])
                        if len(fe[2]) == 3 and fe[2][2][0] == 'closure' and fe[2][2][1] == g.id and not g.switches():
                            src_ = expand(bt_, fe[2][0])
                            per_elem = bool(find_calls_(src_, 'dfs_hierarchy')) and not any(re.search(r'Iterator::(rev|skip|take|filter|step_by|map_while|scan|take_while|skip_while|fuse|cycle)$', c_[3]) for c_ in calls_in(src_))
                else:
                    from guards import innermost_loop, loop_source
                    from r_panic import cycle_without
                    L = innermost_loop(g, c['block'])
                    if L:
                        sty, src_ = loop_source(g, L)
                        src_ = expand(g, src_)
                        per_elem = not cycle_without(g, L[1], L[0], {c['block']}) and bool(find_calls_(src_, 'dfs_hierarchy')) and \
                            not any(re.search(r'Iterator::(rev|skip|take|filter|step_by|map_while|scan|take_while|skip_while|fuse|cycle)$', c_[3]) for c_ in calls_in(src_))
                same_elem = key[0] == 'field' and val[0] == 'field' and strip(key[1]) == strip(val[1]) and key[2] != val[2]
                # the groups are keyed by the very component the impls are written for (the full type), and the conflict test
                # looks its group up by that component: two different types never share a group
                if m:
                    tcomp = strip(te)[2] if strip(te)[0] == 'field' else None
                    lookups = [strip(x[2][1]) for arm_ in item.alts[int(alt)][3] for c_ in arm_ for x in walk(c_[0] if isinstance(c_, tuple) and c_ and isinstance(c_[0], tuple) else c_) if is_call_(x, 'Index') and len(x[2]) == 2]
                    look_ok = bool(lookups) and all(k_[0] == 'field' and k_[2] == tcomp for k_ in lookups)
                    same_elem = same_elem and tcomp is not None and key[2] == tcomp and look_ok
                    detg_extra = ' key component %s, impl type component %s, lookups %s' % (key[2], tcomp, [show(k_)[:20] for k_ in lookups][:2])
                detg = 'push(entry(%s).or_default(), %s), once per hierarchy entry: %s%s' % (show(key)[:30], show(val)[:30], per_elem, detg_extra if m else '')
                okg = per_elem and same_elem
        # nothing else writes a map of that type
        others = [c for g in [bt_] + ctx.prog.closures_of(bt_) for c in g.calls(lambda r: r['path'] and re.search(r'HashMap<&syn::Type, .*>::(insert|extend|remove)$|FromIterator<\(&syn::Type', (r['callee'].get('rfull') or '')))]
        okg = okg and not others
    ctx.ob(['C07', 'C13'], 'R-TMPL', 'struct|asref-grouping', okg,
           'the per-type grouping behind the conflict test accumulates every (type, path) of the hierarchy (entry().or_default().push()), never overwrites: %s' % detg, where)
    ctx.ob(['C07'], 'R-TMPL', 'struct|asref', oka,
           'for every (path, type) of dfs_hierarchy: AsRef<T>/AsMut<T> whose body is &self.<path> / &mut self.<path> with T and path from the same entry; suppressed (a const marker instead) exactly when that type occurs more than once; plus the reflexive impls: %s' % det, where)


def find_calls_(e, frag):
    return [x for x in walk(e) if is_call_(x, frag)]


def is_call_(e, frag):
    return isinstance(e, tuple) and e and e[0] == 'call' and (frag in e[1] or frag in e[3])


def vis_checks(ctx, item, s, what):
    pass


# ------------------------------------------------------------------------------------------------
def enum_rules(ctx, item):
    parts = getattr(item, 'parts', None)
    if not parts:
        return
    where = loc(item.f.span)
    s = parts[0]
    m = re.search(r'# \[ repr \( ' + H + r' \) \] # \[ derive \( PartialEq , Eq , PartialOrd , Ord , Debug , REP\d+\( ⟨V(\d+):[^⟩]*⟩ \),\* \) \] ' + DOCS + ' ' + VIS + ' enum ' + H +
                  r' \{ REP(\d+)\( ⟨E\d+:ALT(\d+)\{ # \[ default \] ' + H + ' = ' + H + r'( as _)? \|\| ' + H + ' = ' + H + r'( as _)? \}⟩ \),\* \}', s)
    ok = False
    det = 'enum template of unexpected shape'
    cast = None
    if m:
        hr, vi, drep, valt, hn, frep, dalt, n1, v1, c1, n2, v2, c2 = m.groups()
        pr = item.hp(hr)
        r, info = item.rep_info(frep)
        chain = [c[0] for c in (info or {}).get('chain', [])]
        base = show((info or {}).get('base', ('?',)))
        labs = item.alts[int(dalt)][1]
        pn1, pv1, pn2, pv2 = item.hp(n1), item.hp(v1), item.hp(n2), item.hp(v2)
        evp, evok = item.vis_path(valt)
        edsrc = show(item.reps[int(drep)][1][0])
        det = 'repr %s; variants over %s %s; name %s value %s (%s); default alt %s; vis %s; doc %s' % (pr[0], base[-40:], chain, pn1[0], pv1[0], pv1[3], labs[0][:90], evp, edsrc[:70])
        cast = c1 or c2
        # the marker test written as `default_index == Some(idx)` instead of `default_index.is_some_and(|i| i == idx)`
        direct_marker = False
        try:
            arm0 = item.alts[int(dalt)][3][0]
            for c_ in arm0:
                ce = c_[0] if isinstance(c_, tuple) and c_ and isinstance(c_[0], tuple) else c_
                ce = strip(ce)
                if ce[0] == 'call' and re.search(r'::eq$', ce[1]) and len(ce[2]) == 2:
                    a_, b_ = strip(ce[2][0]), strip(ce[2][1])
                    if a_[0] == 'agg':
                        a_, b_ = b_, a_
                    if b_[0] == 'agg' and b_[1].endswith('Option::Some') and b_[2] and strip(b_[2][0][1])[0] == 'field' and strip(b_[2][0][1])[2] == '0' and \
                            strip(strip(b_[2][0][1])[1])[0] in ('arg', 'carg') and (a_[0] == 'upvar' or (a_[0] == 'field' and a_[2] == 'default_index')):
                        direct_marker = True
        except Exception:
            direct_marker = False
        ok = (pr[0] is not None and pr[0].endswith('.type_') and 'sa_type_to_syn_type' in pr[1] and base.endswith('.fields') and chain == ['iter', 'enumerate', 'map'] and r[2] == ',' and
              pn1[0] == pn2[0] and pv1[0] == pv2[0] and pn1[0] is not None and pv1[0] is not None and pn1[0].endswith('.1.0') and pv1[0].endswith('.1.1') and
              ('is_some_and' in labs[0] or direct_marker) and labs[0].endswith('=True') and evok and evp == 'definition.visibility' and
              re.search(r'lines\(.*(unwrap_Enum\(.*resolved.*\)\.doc|\bed\.doc|enum_definition\.doc)', edsrc) is not None)
        # default marker: default_index == enumerate index
        dlab = labs[0]
        okd = False
        for x in ctx.prog.fns.values():
            if x.id.startswith('backends::rust::build_enum::{closure#') and x.id.count('{closure') == 2:
                ex = x.exits()
                if len(ex) == 1 and ex[0]['expr'][0] == 'bin' and ex[0]['expr'][1] == 'Eq':
                    a, b = strip(ex[0]['expr'][2]), strip(ex[0]['expr'][3])
                    okd = {a[0], b[0]} == {'arg', 'upvar'}
        ctx.ob(['C08', 'C13'], 'R-TMPL', 'enum|default-marker', (okd or direct_marker) and 'upvar0' in dlab,
               '#[default] is put on the variant whose enumerate index equals default_index: %s' % dlab[:100], where)
        vec = [h for h in item.fl.holes if h[0] == int(vi) and h[1][0] == 'vec']
        okdv = False
        if vec:
            got = [(' '.join(t[1] for t in toks if t[0] == 'tok'), (show(cond[0]) + '=' + str(cond[1])) if cond else 'always') for cond, toks in vec[0][1][1][1]]
            want = {'Copy': 'copyable', 'Clone': 'cloneable', 'Default': 'defaultable'}
            okdv = len(got) == 3 and all(nm in want and want[nm] in cs and cs.endswith('=True') for nm, cs in got)
            det += ' derives %s' % got
        ctx.ob(['C17', 'C13', 'C08'], 'R-TMPL', 'enum|derives', okdv, 'enum derives: the fixed comparison traits plus Copy/Clone/Default iff copyable/cloneable/defaultable', where)
    ctx.ob(['C08', 'C02', 'C17', 'C14', 'C13'], 'R-TMPL', 'enum|shape', ok,
           '<the enum\'s own docs> #[repr(<resolved base type>)] enum <item name> { one variant per (name, value) pair in order, each `Name = value` }: %s' % det, where)
    # F13: value-changing cast on the interpolated discriminant
    ctx.ob(['C08'], 'R-TMPL', 'enum|no-lossy-discriminant-cast', ok and not cast,
           'the discriminant is interpolated as an isize literal; an `as _` applied to it truncates silently when the value does not fit the base type' +
           (' — present: `Name = <isize> as _`' if cast else ''), where)
    # size check + singleton
    m = re.search(r'OPT(\d+)\[ fn ' + H + r' \(  \) \{ unsafe \{ (?::: )?(?:std|core) :: mem :: transmute :: < \[ u8 ; ' + H + r' \] , ' + H + r' > \( \[ 0u8 ; ' + H + r' \] \) ; \} unreachable ! \(  \) \} \]', s)
    oks = False
    if m:
        o, hf, h1, hn, h2 = m.groups()
        p1, p2 = item.hp(h1), item.hp(h2)
        from guards import canon_pred
        cond = show(canon_pred(item.opts[int(o)][1]))
        oks = p1[0] is not None and p1[0] == p2[0] and p1[0].endswith('resolved().size') and re.match(r'^(Gt|Ne)\(.*resolved.*\.size, 0\)$', cond) is not None
    ctx.ob(['C02', 'C08'], 'R-TMPL', 'enum|size-check', oks, 'the enum size check is emitted for size > 0 and uses the resolved size of this very item', where)
    m = re.search(r'OPT(\d+)\[ impl ' + H + r' \{ ' + VIS + r' unsafe fn get \(  \) -> Self \{ unsafe \{ \* \( ' + H + r' as \* const Self \) \} \} \} \]', s)
    okg = False
    det = 'no enum singleton accessor of the expected shape'
    if m:
        o, hn, va, ha = m.groups()
        cond = show(item.opts[int(o)][1])
        pa = item.hp(ha)
        det = 'cond %s address %s' % (cond[:80], pa[0])
        gvp, gvok = item.vis_path(va)
        okg = present_exact(item.opts[int(o)][1], 'singleton') and pa[0] is not None and 'hex_literal' in pa[1] and gvok and gvp == 'definition.visibility'
    ctx.ob(['C15'], 'R-TMPL', 'enum|singleton', okg, 'an enum singleton returns the value stored at the declared address (`*(A as *const Self)`, one dereference): %s' % det, where)


# ------------------------------------------------------------------------------------------------
ARGS_DECL = r'REP(\d+)\( ⟨E\d+:ALT(\d+)\{ & self \|\| & mut self \|\| ' + H + ' : ' + H + r' \}⟩ \),\*'
ARGS_PTR = r'REP(\d+)\( ⟨E\d+:ALT(\d+)\{ \w+ : \* const Self \|\| \w+ : \* mut Self \|\| ' + H + ' : ' + H + r' \}⟩ \),\*'
ARGS_CALL = r'REP(\d+)\( ⟨E\d+:ALT(\d+)\{ self as \* const Self as _ \|\| self as \* mut Self as _ \|\| ' + H + r' \}⟩ \),\*'


def present_exact(cond, field):
    """the optional part is present exactly when the Option `<…>.<field>` is Some: is_some of that field seen through
    reference adapters only (no filter / and_then / zip that could drop it while it is declared)"""
    if not (isinstance(cond, tuple) and cond and cond[0] == 'is_some'):
        return False
    x = strip(cond[1])
    while x[0] == 'call' and re.search(r'(Option::<T>::(as_ref|as_deref|as_mut|copied|cloned)|::clone|::deref|::borrow)$', x[1]) and x[2]:
        x = strip(x[2][0])
    return x[0] == 'field' and x[2] == field


def ret_present_exact(cond):
    """the `-> T` part is present exactly when the function has a return type: is_some(function.return_type), the Option seen
    through reference adapters only (no filter / and_then that could drop a declared type)"""
    if not (isinstance(cond, tuple) and cond and cond[0] == 'is_some'):
        return False
    x = strip(cond[1])
    while x[0] == 'call' and re.search(r'Option::<T>::(as_ref|as_deref|as_mut)$', x[1]) and x[2]:
        x = strip(x[2][0])
    return x[0] == 'field' and x[2] == 'return_type' and strip(x[1])[0] == 'arg'


def fn_rules(ctx, fn):
    P = ctx.prog
    where = loc(fn.f.span)
    s = fn.s
    m = re.search('^' + DOCS + ' ' + VIS + ' unsafe fn ' + H + r' \( ' + ARGS_DECL + r' \) OPT(\d+)\[ -> ' + H + r' \] \{ ALT(\d+)\{ (.*) \} \}$', s)
    if not m:
        ctx.ob(['C04', 'C05', 'C07', 'C17'], 'R-TMPL', 'fn|signature', False, 'wrapper template of unexpected shape: %s' % s[:200], where)
        return
    drep, valt, hname, arep, aalt, an, at, ropt, rt, balt, bodies = m.groups()
    pname = fn.hp(hname)
    r, info = fn.rep_info(arep)
    chain = [c[0] for c in (info or {}).get('chain', [])]
    base = show((info or {}).get('base', ('?',)))
    alabs = fn.alts[int(aalt)][1]
    pan, pat = fn.hp(an), fn.hp(at)
    prt = fn.hp(rt)
    rcond = show(fn.opts[int(ropt)][1])
    dsrc = show(fn.reps[int(drep)][1][0])
    vlab = fn.alts[int(valt)][1]
    ok = (pname[0] == 'function.name' and base == 'function.arguments' and chain == ['iter', 'map', 'collect'] and r[2] == ',' and
          [x.split('=')[-1] for x in alabs] == ['ConstSelf', 'MutSelf', 'Field'] and pan[0] is not None and pan[0].endswith('Field#0') and pat[0] is not None and pat[0].endswith('Field#1') and
          ret_present_exact(fn.opts[int(ropt)][1]) and 'function.doc' in dsrc)
    ctx.ob(['C04', 'C05', 'C07', 'C17'], 'R-TMPL', 'fn|signature', ok,
           'wrapper = <function docs> <function visibility> unsafe fn <function name>(<every argument in order: &self | &mut self | name: type>) [-> return type]: name %s args %s %s ret %s docs %s' % (
               pname[0], base, chain, rcond[:60], dsrc[:60]), where)
    # visibility alternative is function.visibility: check the call argument in MIR
    vp, vok = fn.vis_path(valt)
    okv = vok and vp == 'function.visibility'
    ctx.ob(['C17'], 'R-TMPL', 'fn|visibility', okv, 'the wrapper is `pub` exactly when the function is public (visibility_to_tokens(function.visibility))', where)
    blabs = fn.alts[int(balt)][1]
    arms = split_top(bodies)
    okarms = len(arms) == 3 and [x.split('=')[-1] for x in blabs] == ['Address', 'Field', 'Vftable'] and all('function.body' in x for x in blabs)
    ctx.ob(['C04', 'C05', 'C07'], 'R-MATCH', 'fn|body-arms', okarms, 'the body is chosen by a match on function.body with exactly the arms Address, Field, Vftable: %s' % blabs, where)
    if not okarms:
        return
    # the three call-argument repetitions share one source; filter predicate
    def call_args(arm, tag, self_kept):
        mm = re.search(ARGS_CALL, arm)
        if not mm:
            return False, 'no call argument list'
        rp, al, hn = mm.groups()
        r, info = fn.rep_info(rp)
        chain = [c for c in (info or {}).get('chain', [])]
        names = [c[0] for c in chain]
        base = show((info or {}).get('base', ('?',)))
        pn = fn.hp(hn)
        labs = [(re.findall(r'=(ConstSelf|MutSelf|Field)\b', x) or [x.split('=')[-1]])[0] for x in fn.alts[int(al)][1]]
        ok = base == 'function.arguments' and names in (['iter', 'filter', 'map', 'collect'], ['iter', 'filter_map', 'collect']) and r[2] == ',' and labs == ['ConstSelf', 'MutSelf', 'Field'] and pn[0] is not None and pn[0].endswith('Field#0')
        return ok, 'over %s %s' % (base, names)
    # Address arm
    a = arms[0]
    m1 = re.search(r'^let (?P<fv>\w+) : unsafe extern ' + H + r' fn \( ' + ARGS_PTR + r' \) OPT(\d+)\[ -> ' + H + r' \] = (?::: )?(?:std|core) :: mem :: transmute \( ' + H + r' as usize \) ; (?P=fv) \( (.*) \)$', a)
    ok1 = False
    det = 'Address arm of unexpected shape: %s' % a[:160]
    if m1:
        _fv, hcc, prep, palt, pn, pt, ro, rt2, haddr, call = m1.groups()
        pcc = fn.hp(hcc)
        r, info = fn.rep_info(prep)
        chain = [c[0] for c in (info or {}).get('chain', [])]
        base = show((info or {}).get('base', ('?',)))
        pa = fn.hp(haddr)
        prt2 = fn.hp(rt2)
        okc, dc = call_args(call, 'addr', True)
        ccexpr = fn.holes[int(hcc)][1]
        det = 'cc %s (%s) params over %s %s address %s%s ret %s; call %s' % (pcc[0], pcc[3], base, chain, pa[0], pa[1], prt2[0], dc)
        ok1 = (pcc[0] == 'function.calling_convention' and is_call_(strip(ccexpr), 'CallingConvention::as_str') and base == 'function.arguments' and chain == ['iter', 'map', 'collect'] and
               pa[0] is not None and pa[0].endswith('function.body.Address#0') and 'hex_literal' in pa[1] and prt2[0] == prt[0] and okc and re.fullmatch(ARGS_CALL, call) is not None and
               ret_present_exact(fn.opts[int(ro)][1]))
    ctx.ob(['C05', 'C16', 'C13'], 'R-TMPL', 'fn|address-body', ok1,
           'Address body: `let f: unsafe extern "<function.calling_convention>" fn(<this: *const/*mut Self | name: type, in order>) [-> ret] = transmute(<address> as usize); f(<receiver, then the arguments in order>)` with the call in tail position: %s' % det, where)
    # Field arm
    b = arms[1]
    m2 = re.search(r'^self \. ' + H + r' \. ' + H + r' \( (.*) \)$', b)
    ok2 = False
    det = 'Field arm of unexpected shape: %s' % b[:160]
    if m2:
        hf, hm, call = m2.groups()
        pf, pm = fn.hp(hf), fn.hp(hm)
        okc, dc = call_args(call, 'field', False)
        det = 'self.%s.%s(%s)' % (pf[0], pm[0], dc)
        ok2 = pf[0] is not None and pf[0].endswith('function.body.Field#0') and pm[0] is not None and pm[0].endswith('function.body.Field#1') and okc and re.fullmatch(ARGS_CALL, call) is not None
    ctx.ob(['C07'], 'R-TMPL', 'fn|field-body', ok2, 'Field body: `self.<field>.<function_name>(<arguments without the receiver, in order>)`, a single tail call: %s' % det, where)
    # Vftable arm
    c = arms[2]
    m3 = re.search(r'^let (?P<fv>\w+) = (?::: )?(?:std|core) :: ptr :: addr_of ! \( \( \* self \. vftable \(  \) \) \. ' + H + r' \) \. read \(  \) ; (?P=fv) \( (.*) \)$', c)
    ok3 = False
    det = 'Vftable arm of unexpected shape: %s' % c[:160]
    if m3:
        _fv, hs, call = m3.groups()
        ps = fn.hp(hs)
        okc, dc = call_args(call, 'vft', True)
        det = 'slot %s; call %s' % (ps[0], dc)
        ok3 = ps[0] is not None and ps[0].endswith('function.body.Vftable#0') and okc and re.fullmatch(ARGS_CALL, call) is not None
    ctx.ob(['C04', 'C13'], 'R-TMPL', 'fn|vftable-body', ok3,
           'Vftable body: `let f = addr_of!((*self.vftable()).<function_name>).read(); f(<receiver, then the arguments in order>)` — one load of this object\'s table, one call, in tail position: %s' % det, where)
    # the self-filter: !is_field_function || !a.is_self()
    flt = None
    for x in P.fns.values():
        if x.parent == fn.f.id:
            ex = x.exits()
            if len(ex) >= 1 and x.raw['locals'][0]['ty'] == 'bool' and any(is_call_(e_, 'Argument::is_self') for y in ex for e_ in walk(y['expr'])) or \
                    (x.raw['locals'][0]['ty'] == 'bool' and any(c_['path'] and c_['path'].endswith('Argument::is_self') for c_ in x.calls())):
                flt = x
    okf = False
    det = 'filter closure not found'
    fm_ = None
    if not flt:
        # filter_map form: the closure returns None exactly when body.is_field() && a.is_self()
        for rid in fn.reps:
            r_, info_ = fn.rep_info(rid)
            for c_ in (info_ or {}).get('chain', []):
                if c_[0] == 'filter_map' and c_[1] and c_[1][0] == 'closure' and c_[1][1] in P.fns:
                    fm_ = (P.fns[c_[1][1]], c_[1][2])
    if fm_ is not None:
        cf_, caps_ = fm_
        nones_ = [x for x in cf_.exits() if x['kind'] == 'none']
        somes_ = [x for x in cf_.exits() if x['kind'] == 'some']
        if len(nones_) == 1 and somes_:
            from mirlib import _edge_conds
            cs = [(strip(subst_closure(cf_, expand(cf_, c_), [], caps_)), lab) for _b, c_, lab in _edge_conds(cf_, nones_[0]['block'])]
            isf_ = [c_ for c_, lab in cs if lab is True and ((c_[0] == 'var' and any(is_call_(d_, 'FunctionBody::is_field') for d_ in fn.f.init_of(c_[1]))) or is_call_(c_, 'FunctionBody::is_field'))]
            iss_ = [c_ for c_, lab in cs if lab is True and is_call_(c_, 'Argument::is_self') and strip(c_[2][0])[0] == 'arg']
            det = 'filter_map: None under %s' % [(show(c_)[:50], lab) for c_, lab in cs]
            okf = len(cs) == 2 and len(isf_) == 1 and len(iss_) == 1
    if not flt and fm_ is None:
        # loop form: `for a in &function.arguments { if is_field && a.is_self() { continue; } v.push(..) }`
        lcs = set()
        for rid in fn.reps:
            r_, info_ = fn.rep_info(rid)
            for c_ in (info_ or {}).get('chain', []):
                if c_[0] == 'filter' and c_[1] and c_[1][0] == 'loopcond':
                    lcs.add((c_[1][2], c_[1][1]))
        if len(lcs) == 1:
            (fid_, pb_), = lcs
            g_ = P.fns[fid_]
            lb_ = [x for x in (loop_built(g_, l_) for l_ in range(len(g_.locals))) if x and x['push'] == pb_]
            if lb_:
                sk = loop_skip_paths(g_, lb_[0])
                det = 'skip paths %s' % [[(show(expand(g_, c_))[:60], lab) for c_, lab in p_] for p_ in sk]
                if len(sk) == 1 and len(sk[0]) == 2:
                    cs = [(strip(expand(g_, c_)), lab) for c_, lab in sk[0]]
                    isf_ = [c_ for c_, lab in cs if lab is True and is_call_(c_, 'FunctionBody::is_field')]
                    iss_ = [c_ for c_, lab in cs if lab is True and is_call_(c_, 'Argument::is_self') and any(
                        isinstance(y, tuple) and y[0] == 'call' and y[3].endswith('Iterator::next') for y in walk(c_))]
                    okf = len(isf_) == 1 and len(iss_) == 1
                elif len(sk) == 2 and all(len(p_) == 2 for p_ in sk):
                    # per-arm form: skipped exactly for (ConstSelf, is_field) and (MutSelf, is_field)
                    seen_v = set()
                    okp = True
                    for p_ in sk:
                        cs = [(strip(expand(g_, c_)) if c_[0] != 'discr' else ('discr', strip(expand(g_, c_[1]))), lab) for c_, lab in p_]
                        var_ = [lab for c_, lab in cs if c_[0] == 'discr' and any(isinstance(y, tuple) and y[0] == 'call' and y[3].endswith('Iterator::next') for y in walk(c_[1]))]
                        fld_ = []
                        for c_, lab in cs:
                            neg = False
                            x_ = c_
                            while x_[0] == 'un' and x_[1] == 'Not':
                                x_, neg = strip(x_[2]), not neg
                            if is_call_(x_, 'FunctionBody::is_field'):
                                fld_.append((lab is True) != neg)
                        okp = okp and len(var_) == 1 and var_[0] in ('ConstSelf', 'MutSelf') and fld_ == [True]
                        seen_v |= set(var_)
                    okf = okp and seen_v == {'ConstSelf', 'MutSelf'}
    if flt:
        # returns true when !upvar0 ; otherwise !is_self(a)
        sw = [s_ for s_ in flt.switches()]
        vals = [(x['expr'], x['block']) for x in flt.exits()]
        det = 'switches %s values %s' % ([show(s_['cond']) for s_ in sw], [show(v) for v, _ in vals])
        # decided by the truth table of the predicate over (field body?, receiver?): kept = not (field body and receiver) — whatever
        # the spelling (`!f || !s`, `!(f && s)`, an if-chain); a shape test alone cannot tell `!f || !s` from `f || !s`
        from r_access import table
        tt = table(P, flt, [(r'^upvar0$', None), (r'Argument::is_self', None)], [(a_, b_) for a_ in (True, False) for b_ in (True, False)])
        okf = all(tt.get((a_, b_)) is (not (a_ and b_)) for a_ in (True, False) for b_ in (True, False))
        det += ' table %s' % {k_: v_ for k_, v_ in tt.items()}
        cap = [c_ for c_ in fn.f.calls(lambda r_: r_['path'] and r_['path'].endswith('FunctionBody::is_field'))]
        okf = okf and len(cap) == 1
        # and the captured flag is `body.is_field()` itself (not its negation, not something else)
        cap0 = None
        for bi_ in fn.f.normal_blocks():
            for st_ in fn.f.blocks[bi_]['stmts']:
                if st_['k'] == 'Assign' and st_['rv']['k'] == 'Aggregate' and st_['rv'].get('closure_id') == flt.id and st_['rv']['ops']:
                    cap0 = strip(expand(fn.f, fn.f.expr_of_operand(st_['rv']['ops'][0])))
        while cap0 is not None and cap0[0] in ('ref', 'deref'):
            cap0 = strip(cap0[1])
        okf = okf and cap0 is not None and is_call_(cap0, 'FunctionBody::is_field')
        det += ' flag %s' % (show(cap0)[:50] if cap0 is not None else None)
    isf = [x for x in P.fns.values() if x.id.endswith('FunctionBody::is_field')]
    okis = False
    if isf:
        sw = [s_ for s_ in isf[0].switches() if s_['cond'][0] == 'discr']
        if sw:
            tr = {lab for lab, tgt in sw[0]['edges'] if any(x['expr'] == ('int', 1, 'bool') and isf[0].dominates(tgt, x['block']) for x in isf[0].exits())}
            okis = tr == {'Field'}
    iss = [x for x in P.fns.values() if x.id.endswith('function::Argument::is_self')]
    okss = False
    if iss:
        sw = [s_ for s_ in iss[0].switches() if s_['cond'][0] == 'discr']
        if sw:
            tr = {lab for lab, tgt in sw[0]['edges'] if any(x['expr'] == ('int', 1, 'bool') and iss[0].dominates(tgt, x['block']) for x in iss[0].exits())}
            okss = tr in ({'ConstSelf', 'MutSelf'}, {'ConstSelf|MutSelf'})
    ctx.ob(['C04', 'C05', 'C07', 'C13'], 'R-TMPL', 'fn|receiver-filter', okf and okis and okss,
           'call arguments drop the receiver only for Field bodies (filter = !body.is_field() || !a.is_self(); is_field ⇔ Field, is_self ⇔ ConstSelf|MutSelf): %s' % det, where)


def split_top(s):
    """split 'a || b || c' at top level (outside nested ALT/REP/OPT/groups)"""
    parts = []
    depth = 0
    cur = ''
    i = 0
    while i < len(s):
        c = s[i]
        if c in '{[(':
            depth += 1
        elif c in '}])':
            depth -= 1
        elif c == '⟨':
            depth += 1
        elif c == '⟩':
            depth -= 1
        if s.startswith(' || ', i) and depth == 0:
            parts.append(cur.strip())
            cur = ''
            i += 4
            continue
        cur += c
        i += 1
    parts.append(cur.strip())
    return parts


# ------------------------------------------------------------------------------------------------
def extern_rules(ctx, ev):
    where = loc(ev.f.span)
    m = re.search('^' + VIS + ' unsafe fn ' + H + r' \(  \) -> & \'static mut ' + H + r' \{ unsafe \{ & mut \* \( ' + H + r' as \* mut ' + H + r' \) \} \}$', ev.s)
    ok = False
    det = 'extern accessor of unexpected shape: %s' % ev.s[:200]
    if m:
        va, hn, t1, ha, t2 = m.groups()
        pt1, pt2, pa = ev.hp(t1), ev.hp(t2), ev.hp(ha)
        nm = ev.holes[int(hn)][1]
        fs = [x for x in walk(nm) if isinstance(x, tuple) and x[0] == 'const' and x[1].startswith('b"')]
        name_src = any(path_of(x)[0] == 'ev.name' for x in walk(nm) if isinstance(x, tuple) and x[0] == 'field')
        vp, vok = ev.vis_path(va)
        okv = vok and vp == 'ev.visibility'
        det = 'name fmt %s from ev.name %s; type %s/%s; address %s %s; vis %s' % (fs[0][1] if fs else None, name_src, pt1[0], pt2[0], pa[0], pa[1], okv)
        ok = bool(fs) and 'get_' in fs[0][1] and name_src and pt1[0] == 'ev.type_' and pt2[0] == 'ev.type_' and pa[0] == 'ev.address' and 'hex_literal' in pa[1] and okv
    ctx.ob(['C15', 'C17', 'C14'], 'R-TMPL', 'extern|accessor', ok,
           '`<vis> unsafe fn get_<name>() -> &\'static mut T { unsafe { &mut *(A as *mut T) } }` — no extra indirection, both T from ev.type_, A = ev.address, visibility = ev.visibility: %s' % det, where)


# ------------------------------------------------------------------------------------------------
def fmt_text(e):
    """printable text of a format_args! constant (pieces; placeholders shown as {})"""
    for x in walk(e):
        if isinstance(x, tuple) and x[0] == 'str':
            return x[1]
        if isinstance(x, tuple) and x[0] == 'const' and x[1].startswith('b"'):
            raw = x[1][2:-1]
            raw = re.sub(r'\\xc0(\\x[0-9a-f]{2}|.)?', '{}', raw)
            raw = re.sub(r'^\\x[0-9a-f]{2}|^\\[rnt]', '', raw)
            raw = re.sub(r'\\x[0-9a-f]{2}', '', raw)
            raw = raw.replace('\\"', '"').replace('\\x00', '')
            return raw
    return None


def type_printer(ctx):
    P = ctx.prog
    # anchor by role: the function of the backend that writes a semantic Type into a String
    fs = [f for f in P.fns.values() if f.kind != 'Closure' and f.id.startswith('backends::') and
          [re.sub(r"'\w+ ", '', t_) for t_ in f.raw.get('inputs', [])] == ['&mut std::string::String', '&semantic::types::Type'] and 'fmt::Error' in f.raw.get('output', '')]
    if len(fs) != 1:
        ctx.fail_closed(['C11', 'C16', 'C13'], 'R-ANCHOR', 'TYPE', 'type printer not found')
        return
    f = fs[0]
    where = loc(f.span)
    sw = [s for s in f.switches() if s['cond'][0] == 'discr' and strip(s['cond'][1])[0] == 'arg']
    if len(sw) != 1:
        ctx.fail_closed(['C11', 'C16', 'C13'], 'R-TMPL', 'TYPE', 'expected one match on the type', where)
        return
    arms = {}
    closure_loops = []
    rpo = sorted(f.normal_blocks())
    for lab, tgt in sw[0]['edges']:
        ev = []
        for c in f.calls(lambda r: f.dominates(tgt, r['block'])):
            if c['gpath'] and c['gpath'].endswith('fmt::Write::write_fmt'):
                a = f.expr_of_operand(c['term']['args'][1])
                ev.append(('w', fmt_text(a), a, c['block']))
            elif c['path'] == f.id:
                ev.append(('rec', f.expr_of_operand(c['term']['args'][1]), None, c['block']))
            elif c['gpath'] and re.search(r'Iterator::(try_for_each|for_each)$', c['gpath']) and len(c['term']['args']) == 2:
                # the parameter loop as `args.iter().try_for_each(|..| { write!(..)?; .. })`: the closure's writes, in place
                cl_ = strip(f.expr_of_operand(c['term']['args'][1]))
                if cl_[0] == 'closure' and cl_[1] in P.fns:
                    g_ = P.fns[cl_[1]]
                    for c2 in g_.calls():
                        if c2['gpath'] and c2['gpath'].endswith('fmt::Write::write_fmt'):
                            a2 = g_.expr_of_operand(c2['term']['args'][1])
                            ev.append(('w', fmt_text(a2), a2, c['block']))
                        elif c2['path'] == f.id:
                            ev.append(('rec', g_.expr_of_operand(c2['term']['args'][1]), None, c['block']))
                    closure_loops.append((lab, expand(f, f.expr_of_operand(c['term']['args'][0]))))
        arms[lab] = ev
    labels = set(arms)
    ctx.ob(['C13'], 'R-MATCH', 'TYPE|all-variants', labels >= {'Raw', 'ConstPointer', 'MutPointer', 'Array', 'Function'}, 'the type printer has an arm for every resolved type form: %s' % sorted(labels), where)
    txt = lambda lab: [e[1] for e in arms.get(lab, []) if e[0] == 'w']
    okp = txt('ConstPointer') == ['*const '] and txt('MutPointer') == ['*mut '] and len([e for e in arms.get('ConstPointer', []) if e[0] == 'rec']) == 1 and len([e for e in arms.get('MutPointer', []) if e[0] == 'rec']) == 1
    ctx.ob(['C13', 'C11'], 'R-TMPL', 'TYPE|pointers', okp, 'ConstPointer prints `*const <inner>`, MutPointer `*mut <inner>`: %s / %s' % (txt('ConstPointer'), txt('MutPointer')), where)
    ta = txt('Array')
    oka = len(ta) == 2 and ta[0] == '[' and ta[1].replace(' ', '') == ';{}]' and len([e for e in arms.get('Array', []) if e[0] == 'rec']) == 1
    ctx.ob(['C13', 'C02'], 'R-TMPL', 'TYPE|array', oka, 'Array prints `[<inner>; <count>]`: %s' % ta, where)
    # Raw
    raw = arms.get('Raw', [])
    tr = [e[1] for e in raw if e[0] == 'w']
    okr = sorted(tr) == sorted(['::std::ffi::c_void', 'crate::', '{}'])
    conds = {}
    for e in raw:
        if e[0] != 'w':
            continue
        doms = [show(norm_edge(s, lab)) for s in f.switches() for lab, tgt in s['edges'] if f.dominates(tgt, e[3]) and f.pred(tgt) == [s['block']] and s is not sw[0] and not (s['cond'][0] == 'discr' and 'branch' in show(s['cond']))]
        conds[e[1]] = doms
    okc = okr and any('Gt(ItemPath::len' in d and ', 1)' in d for d in conds.get('crate::', [])) and any('void' in d for d in conds.get('::std::ffi::c_void', []))
    # exactly: c_void under (one segment AND that segment is `void`); `crate::` under (more than one segment) and nothing else
    from guards import cmp_parts as _cp
    pre = {}
    for e in raw:
        if e[0] == 'w':
            pre[e[1]] = [norm_edge(s, lab) for s in f.switches() for lab, tgt in s['edges'] if f.dominates(tgt, e[3]) and f.pred(tgt) == [s['block']] and s is not sw[0]
                         and not (s['cond'][0] == 'discr' and 'branch' in show(s['cond']))]
    is_len = lambda p_, op, k: bool(_cp(p_)) and _cp(p_)[0] == op and is_call_(strip(_cp(p_)[1]), 'ItemPath::len') and strip(_cp(p_)[2])[:2] == ('int', k)

    def is_void(p_):
        # last segment == "void": `path.last() == Some(&"void".into())`, or `Some(seg)` with `seg.as_str() == "void"`
        if p_[0] == 'call' and re.search(r'::eq$', p_[1]) and (find_calls_(p_, 'ItemPath::last') or any(isinstance(y, tuple) and y[0] == 'payload' for y in walk(p_))) and ('str', 'void') in list(walk(p_)):
            return True
        return False
    pv = [p_ for p_ in pre.get('::std::ffi::c_void', []) if not (p_[0] in ('is_some', 'variant') or (p_[0] == 'discr'))]
    pc = [p_ for p_ in pre.get('crate::', []) if not (p_[0] in ('is_some', 'variant'))]
    okx = len(pv) == 2 and any(is_len(p_, 'Eq', 1) for p_ in pv) and any(is_void(p_) for p_ in pv) and len(pc) >= 1 and is_len(pc[-1], 'Gt', 1) and \
        all(is_len(p_, 'Gt', 1) or is_len(p_, 'Ne', 1) or (p_[0] == 'un' and p_[1] == 'Not') or p_[0] == 'is_none' for p_ in pc)
    okc = okc and okx
    disp = [e for e in raw if e[0] == 'w' and e[1] == '{}']
    okd = bool(disp) and any(isinstance(x, tuple) and x[0] == 'payload' and x[2] == 'Raw' for x in walk(disp[0][2]))
    ctx.ob(['C11', 'C13', 'C19'], 'R-TMPL', 'TYPE|raw-path', okc and okd,
           'a named type prints as `::std::ffi::c_void` for the built-in void, otherwise its full path, prefixed with `crate::` exactly when the path has more than one segment: %s' % conds, where)
    # Function
    fn_ = arms.get('Function', [])
    tf = [e[1] for e in fn_ if e[0] == 'w']
    okf = len(tf) >= 4 and tf[0].replace(' ', '') == 'unsafeextern"{}"fn(' and ')' in tf and ' -> ' in tf
    cc = fn_[0][2] if fn_ else None
    okcc = cc is not None and any(isinstance(x, tuple) and x[0] == 'payload' and x[2] == 'Function' and x[3] == 0 for x in walk(cc))
    # ` -> ` and the return type are printed exactly when the function type has a return type (no other condition), and the
    # parameter loop runs over the unadapted parameter list
    arrow = [e for e in fn_ if e[0] == 'w' and e[1] == ' -> ']
    okret = False
    if len(arrow) == 1:
        doms = []
        for s_ in f.switches():
            if s_['block'] == sw[0]['block'] or (s_['cond'][0] == 'discr' and strip(s_['cond'][1])[0] == 'call' and (strip(s_['cond'][1])[3] == TRY_BRANCH or is_call_(strip(s_['cond'][1]), 'Iterator::next'))):
                continue
            for lab_, tgt_ in s_['edges']:
                if f.dominates(tgt_, arrow[0][3]) and f.pred(tgt_) == [s_['block']]:
                    doms.append((s_['cond'], lab_))
        if len(doms) == 1 and doms[0][0][0] == 'discr' and doms[0][1] == 'Some':
            x = strip(doms[0][0][1])
            while x[0] == 'call' and re.search(r'(Option::<T>::(as_ref|as_deref)|::deref|::as_ref)$', x[1]) and x[2]:
                x = strip(x[2][0])
            okret = x[0] == 'payload' and x[2] == 'Function' and x[3] == 2 and strip(x[1])[0] == 'arg'
    okargs = False
    for L_ in f.loops():
        from guards import loop_source
        sty_, src_ = loop_source(f, L_)
        if src_ is not None and any(isinstance(x, tuple) and x[0] == 'payload' and x[2] == 'Function' and x[3] == 1 for x in walk(expand(f, src_))):
            okargs = not any(re.search(r'Iterator::(rev|skip|take|filter|step_by|skip_while|take_while|filter_map|map_while|scan|fuse|cycle)$', c_[3]) for c_ in calls_in(expand(f, src_)))
    for lab_, src_ in closure_loops:
        if lab_ == 'Function' and any(isinstance(x, tuple) and x[0] == 'payload' and x[2] == 'Function' and x[3] == 1 for x in walk(src_)):
            okargs = not any(re.search(r'Iterator::(rev|skip|take|filter|step_by|skip_while|take_while|filter_map|map_while|scan|fuse|cycle)$', c_[3]) for c_ in calls_in(src_))
    okf = okf and okret and okargs
    ctx.ob(['C16', 'C04', 'C13'], 'R-TMPL', 'TYPE|function', okf and okcc,
           'a function pointer prints `unsafe extern "<its own calling convention>" fn (<name: type, ...>) [-> ret]`: %s' % tf, where)
    # Display for CallingConvention goes through as_str
    d = [x for x in P.fns.values() if x.id == '<semantic::function::CallingConvention as std::fmt::Display>::fmt']
    okd = bool(d) and any(c['path'] and c['path'].endswith('CallingConvention::as_str') for c in d[0].calls())
    ctx.ob(['C16'], 'R-TMPL', 'TYPE|cc-display-is-as_str', okd, 'Display for CallingConvention prints as_str(), so slots and wrappers spell the convention identically', where)
    # unresolved arm diverges / never prints
    un = arms.get('Unresolved', [])
    ctx.ob(['C13'], 'R-TMPL', 'TYPE|unresolved-not-printed', not [e for e in un if e[0] == 'w'], 'an unresolved type is never printed', where)


def norm_edge(s, lab):
    from guards import norm_pred
    return norm_pred(s['cond'], lab)


# ------------------------------------------------------------------------------------------------
def helpers(ctx):
    P = ctx.prog
    # hex_literal: prefix and radix agree (C05-D4)
    hl = [f for f in P.fns.values() if f.id.endswith('backends::rust::hex_literal')]
    ok = False
    det = ''
    if hl:
        f = hl[0]
        for c in f.calls(lambda r: r['path'] and r['path'].endswith('fmt::format')):
            e = f.expr_of_call(c['term'])
            txt = fmt_text(e)
            kinds = [short(x[1]) for x in calls_in(e) if re.search(r'Argument::(<.*>::)?new_', x[1])]
            det = '%r with %s' % (txt, kinds)
            pre = (txt or '').replace('{}', '')
            want = {'0x': ('new_upper_hex', 'new_lower_hex'), '0X': ('new_upper_hex', 'new_lower_hex'), '': ('new_display',), '0o': ('new_octal',), '0b': ('new_binary',)}
            ok = pre in want and len(kinds) == 1 and any(kinds[0].endswith(k) for k in want[pre])
            arg = [x for x in calls_in(e) if re.search(r'Argument::(<.*>::)?new_', x[1])][0][2][0]
            okv = any(isinstance(x, tuple) and x[0] == 'arg' for x in walk(arg)) and not any(isinstance(x, tuple) and x[0] == 'bin' for x in walk(arg))
            ok = ok and okv
    ctx.ob(['C05', 'C15', 'C02'], 'R-TABLE', 'hex_literal|prefix-matches-radix', ok, 'address and size literals: the literal prefix and the formatting radix agree and the value is passed through unchanged: %s' % det,
           loc(hl[0].span) if hl else '')
    # visibility tables
    v2t = [f for f in P.fns.values() if f.id.endswith('backends::rust::visibility_to_tokens')]
    okv = False
    if v2t:
        R = Resolver(P)
        f, t, fl, s = template_of(P, 'backends::rust::visibility_to_tokens', R)
        okv = s == 'ALT0{  || pub }' and fl.alts[0][1] == ['discr(visibility)=Private', 'discr(visibility)=Public']
    ctx.ob(['C17'], 'R-TABLE', 'visibility|tokens', okv, 'visibility_to_tokens: Public ↦ `pub`, Private ↦ nothing', loc(v2t[0].span) if v2t else '')
    fr = [f for f in P.fns.values() if f.id == '<semantic::types::Visibility as std::convert::From<grammar::Visibility>>::from']
    okf = False
    if fr:
        f = fr[0]
        sw = [s for s in f.switches() if s['cond'][0] == 'discr']
        if len(sw) == 1:
            mp = {}
            for lab, tgt in sw[0]['edges']:
                for x in f.exits():
                    if f.dominates(tgt, x['block']) and x['expr'][0] == 'agg':
                        mp[lab] = x['expr'][1].split('::')[-1]
            okf = mp == {'Public': 'Public', 'Private': 'Private'}
    ctx.ob(['C17'], 'R-TABLE', 'visibility|from-grammar', okf, 'grammar visibility maps to the semantic visibility of the same name', loc(fr[0].span) if fr else '')
    # doc_to_tokens: one #[doc = line] per line, in order; #![doc] for the module
    R = Resolver(P)
    try:
        f, t, fl, s = template_of(P, 'backends::rust::doc_to_tokens', R)
        m = re.fullmatch(r'ALT0\{  \|\| REP0\( ⟨E\d+:ALT1\{ # ! \[ doc = ' + H + r' \] \|\| # \[ doc = ' + H + r' \] \}⟩ \)\* \}', s)
        okd = False
        if m:
            info = (fl.reps[0][3] or [None])[0]
            chain = [c[0] for c in (info or {}).get('chain', [])]
            okd = chain == ['lines', 'map'] and fl.alts[1][1][0].endswith('=True') and show(strip([h for h in fl.holes if h[0] == int(m.group(1))][0][1])) == show(strip([h for h in fl.holes if h[0] == int(m.group(2))][0][1]))
        m3 = re.fullmatch(r'ALT0\{  \|\| REP0\( ALT1\{ # ! \[ doc = ' + H + r' \] \|\| # \[ doc = ' + H + r' \] \} \)\* \}', s)
        if not okd and m3:
            # the same with a `for line in doc.lines()` loop that appends one of the two forms per line
            srcs = fl.reps[0][1] if fl.reps else []
            src_ok = len(srcs) == 1 and bool([c_ for c_ in calls_in(srcs[0]) if c_[1].endswith('::lines')]) and not any(
                re.search(r'Iterator::(rev|skip|take|filter|step_by|map_while|scan|take_while|skip_while|fuse|cycle)$', c_[3]) for c_ in calls_in(srcs[0]))
            okd = src_ok and fl.alts[1][1][0].endswith('=True') and strip(fl.alts[1][3][0][0][0] if (len(fl.alts[1]) > 3 and fl.alts[1][3] and fl.alts[1][3][0]) else ('x',))[0] == 'arg' and \
                show(strip([h for h in fl.holes if h[0] == int(m3.group(1))][0][1])) == show(strip([h for h in fl.holes if h[0] == int(m3.group(2))][0][1]))
        m2 = re.fullmatch(r'OPT0\[ REP0\( ALT0\{ # ! \[ doc = ' + H + r' \] \|\| # \[ doc = ' + H + r' \] \} \)\* \]', s)
        if not okd and m2:
            # the same written as a loop that extends the stream, under `if let Some(doc)`
            cond = fl.opts[0][1] if fl.opts else None
            srcs = fl.reps[0][1] if fl.reps else []
            src_ok = len(srcs) == 1 and bool([c_ for c_ in calls_in(srcs[0]) if c_[1].endswith('::lines')]) and not any(
                re.search(r'Iterator::(rev|skip|take|filter|step_by|map_while|scan|take_while|skip_while|fuse|cycle)$', c_[3]) for c_ in calls_in(srcs[0]))
            okd = cond is not None and cond[0] == 'is_some' and strip(cond[1])[0] == 'arg' and src_ok and fl.alts[0][1][0].endswith('=True') and \
                show(strip([h for h in fl.holes if h[0] == int(m2.group(1))][0][1])) == show(strip([h for h in fl.holes if h[0] == int(m2.group(2))][0][1]))
        ctx.ob(['C17'], 'R-TMPL', 'docs|line-by-line', okd, 'docs are emitted as one #[doc = <line>] per line of the text, in order (#![doc] when is_module_doc), nothing when there is no doc: %s' % s, loc(f.span))
    except LookupError:
        ctx.fail_closed(['C17'], 'R-TMPL', 'docs|line-by-line', 'doc_to_tokens not found')
    # calling convention tables (C16-D1)
    cc_tables(ctx)
    builtin_table(ctx)


def cc_tables(ctx):
    P = ctx.prog
    a = [f for f in P.fns.values() if f.id.endswith('CallingConvention::as_str')]
    b = [f for f in P.fns.values() if f.id == '<semantic::function::CallingConvention as std::str::FromStr>::from_str']
    if not a or not b:
        ctx.fail_closed(['C16'], 'R-TABLE', 'cc|tables', 'as_str / from_str not found')
        return
    fa, fb = a[0], b[0]
    t1 = {}
    sw = [s for s in fa.switches() if s['cond'][0] == 'discr']
    if sw:
        for lab, tgt in sw[0]['edges']:
            for x in fa.exits():
                if fa.dominates(tgt, x['block']) and x['expr'][0] == 'str':
                    t1[lab] = x['expr'][1]
    adt = P.adts.get('semantic::function::CallingConvention')
    variants = [v['name'] for v in adt['variants']] if adt else []
    t2 = {}
    scrut_bad = []
    for s in fb.switches():
        c = s['cond']
        if c[0] == 'call' and c[2] and len(c[2]) == 2:
            lit = [x for x in c[2] if x[0] == 'str']
            if lit:
                # what is compared is the string that was given (a normalised spelling would accept names outside the table)
                for o_ in [x for x in c[2] if x[0] != 'str']:
                    o_ = strip(expand(fb, o_))
                    while o_[0] == 'call' and o_[2] and re.search(r'(Deref>::deref|::as_ref|::borrow|::as_str)$', o_[1]):
                        o_ = strip(o_[2][0])
                    if o_[0] != 'arg':
                        scrut_bad.append(show(o_)[:80])
                for lab, tgt in s['edges']:
                    if lab is True:
                        for x in fb.exits():
                            if fb.dominates(tgt, x['block']) and x['kind'] == 'ok':
                                v = x['expr'][2][0][1]
                                if v[0] == 'agg':
                                    t2[lit[0][1]] = v[1].split('::')[-1]
    inv = {v: k for k, v in t1.items()}
    table_driven = False
    if not t2 and len(fb.exits()) == 1:
        # `Self::ALL.into_iter().find(|cc| cc.as_str() == s).ok_or(())`: the inverse of as_str by construction, provided ALL lists
        # every variant (once) and the names are distinct
        e_ = strip(expand(fb, fb.exits()[0]['expr']))
        if is_call(e_, 'ok_or') and e_[2]:
            fnd = strip(e_[2][0])
            if is_call(fnd, 'Iterator::find') and len(fnd[2]) == 2 and strip(fnd[2][1])[0] == 'closure' and strip(fnd[2][1])[1] in P.fns:
                src_ = strip(fnd[2][0])
                while src_[0] == 'call' and src_[2] and re.search(r'(IntoIterator::into_iter|IntoIterator>::into_iter|::iter|Iterator::copied|Iterator::cloned|Deref>::deref)$', src_[1] + ' ' + (src_[3] if len(src_) > 3 else '')):
                    src_ = strip(src_[2][0])
                listed = []
                if src_[0] == 'array':
                    listed = [strip(y)[1].split('::')[-1] for y in src_[1] if strip(y)[0] == 'agg']
                if src_[0] == 'const' and src_[1] in getattr(P, 'const_fns', {}):
                    cfn = P.const_fns[src_[1]]
                    for x in cfn.exits():
                        v_ = strip(expand(cfn, x['expr']))
                        if v_[0] == 'array':
                            listed = [strip(y)[1].split('::')[-1] for y in v_[1] if strip(y)[0] == 'agg']
                pc_ = strip(fnd[2][1])
                pf_ = P.fns[pc_[1]]
                caps_ = pc_[2] if len(pc_) > 2 else []
                ex_ = [strip(expand(pf_, x['expr'])) for x in pf_.exits()]
                cmp_ok = len(ex_) == 1 and not pf_.switches() and ex_[0][0] == 'call' and re.search(r'::eq$', ex_[0][1]) and len(ex_[0][2]) == 2
                if cmp_ok:
                    a_, b_ = strip(ex_[0][2][0]), strip(ex_[0][2][1])
                    if a_[0] == 'upvar':
                        a_, b_ = b_, a_
                    given = b_[0] == 'upvar' and b_[1] < len(caps_) and strip(caps_[b_[1]])[0] == 'arg' and strip(caps_[b_[1]])[1] == 1
                    named = is_call(a_, 'CallingConvention::as_str') and any(isinstance(y, tuple) and y and y[0] in ('arg', 'carg') for y in walk(a_))
                    cmp_ok = bool(given and named)
                if cmp_ok and sorted(listed) == sorted(variants) and len(set(t1.values())) == len(t1):
                    t2 = dict(inv)
                    table_driven = True
    ok = sorted(t1) == sorted(variants) and len(variants) >= 7 and t2 == inv
    ctx.ob(['C16', 'C05', 'C04', 'C06'], 'R-TABLE', 'cc|inverse-tables', ok, 'as_str covers every variant of CallingConvention and from_str is exactly its inverse: %s' % t1, loc(fa.span))
    abis = rustc_abis()
    bad = [v for v in t1.values() if v not in abis] if abis else ['(cannot obtain rustc ABI list)']
    ctx.ob(['C16', 'C13'], 'R-TABLE', 'cc|known-to-rustc', not bad, 'every calling-convention string is an ABI name rustc accepts (rustc --print=calling-conventions): unknown %s' % bad, loc(fa.span))
    ctx.ob(['C16'], 'R-TABLE', 'cc|compares-the-given-name', not scrut_bad and len(t2) >= 7,
           'from_str compares the name as it was written with the table entries (no normalisation in front of the table): %s' % sorted(set(scrut_bad))[:2], loc(fb.span))
    e = [x for x in fb.exits() if x['kind'] == 'err_own']
    if table_driven:
        e = [1]         # `find(..).ok_or(())`: no entry of the table has that name ⇒ Err
    ctx.ob(['C16'], 'R-TABLE', 'cc|unknown-is-error', len(e) == 1, 'from_str returns Err for any other string', loc(fb.span))


_ABIS = None


def rustc_abis():
    global _ABIS
    if _ABIS is None:
        try:
            r = subprocess.run(['rustc', '+nightly', '-Zunstable-options', '--print=calling-conventions'], capture_output=True, text=True, timeout=60)
            _ABIS = set(r.stdout.split()) if r.returncode == 0 else set()
        except Exception:
            _ABIS = set()
    return _ABIS


def builtin_table(ctx):
    """C02-D1: built-in sizes/alignments against rustc's data layouts for the two Windows targets"""
    P = ctx.prog
    f = [x for x in P.fns.values() if x.id.endswith('SemanticState::new')]
    if not f:
        ctx.fail_closed(['C02'], 'R-TABLE', 'builtins', 'SemanticState::new not found')
        return
    f = f[0]
    table = None
    for bi in f.normal_blocks():
        for st in f.blocks[bi]['stmts']:
            if st['k'] == 'Assign' and st['rv']['k'] == 'Aggregate' and st['rv'].get('agg') == 'Array':
                e = f.expr_of_rvalue(st['rv'])
                rows = []
                for x in e[1]:
                    if x[0] == 'tuple' and len(x[1]) == 2 and x[1][0][0] == 'str' and x[1][1][0] == 'int':
                        rows.append((x[1][0][1], x[1][1][1]))
                if len(rows) >= 10:
                    table = rows
    if not table:
        # the table as a `const` item (or any other expression) handed to the registration loop
        for c in f.calls():
            for a in c['term']['args']:
                e = strip(expand(f, f.expr_of_operand(a)))
                if e[0] == 'array' and len(e[1]) >= 10:
                    rows = [(strip(x)[1][0][1], strip(x)[1][1][1]) for x in e[1] if strip(x)[0] == 'tuple' and len(strip(x)[1]) == 2 and strip(x)[1][0][0] == 'str' and strip(x)[1][1][0] == 'int']
                    if len(rows) == len(e[1]):
                        table = rows
    if not table:
        ctx.fail_closed(['C02'], 'R-TABLE', 'builtins', 'predefined type table not found', loc(f.span))
        return
    # alignment formula: size.max(1)
    al = [c for c in f.calls(lambda r: r['path'] and re.search(r'cmp::Ord::max$|::max$', r['gpath'] or r['path']))]
    okal = False
    if al:
        e = f.expr_of_call(al[0]['term'])
        okal = is_int(e[2][1], 1) and any(isinstance(x, tuple) and x[0] == 'payload' for x in walk(e[2][0]))
        # and it is what goes into ItemStateResolved.alignment
    isr = None
    for c in f.calls(lambda r: r['path'] and r['path'].endswith('SemanticState::add_item')):
        e = f.expr_of_operand(c['term']['args'][1])
        for x in walk(e):
            if isinstance(x, tuple) and x[0] == 'agg' and x[1].endswith('ItemStateResolved'):
                isr = dict(x[2])
    okisr = isr is not None and is_call_(isr['alignment'], 'max') and any(isinstance(x, tuple) and x[0] == 'payload' for x in walk(isr['size']))
    # ... registered as Predefined (never emitted), public
    cats = []
    for c in f.calls(lambda r: r['path'] and r['path'].endswith('SemanticState::add_item')):
        e = strip(ctor_norm(P, expand(f, f.expr_of_operand(c['term']['args'][1]))))
        if e[0] == 'agg' and e[1].endswith('ItemDefinition'):
            d_ = dict(e[2])
            cats.append((show(strip(d_.get('category', ('x',))))[:40], show(strip(d_.get('visibility', ('x',))))[:40]))
    okcat = len(cats) == 1 and 'ItemCategory::Predefined' in cats[0][0] and 'Visibility::Public' in cats[0][1]
    ctx.ob(['C14', 'C13'], 'R-SLP', 'builtins|registered-as-predefined', okcat, 'built-in types are registered as Predefined (never emitted) and public: %s' % cats, loc(f.span))
    ctx.ob(['C02'], 'R-EXPR', 'builtins|alignment-formula', okal and okisr, 'a built-in\'s alignment is max(size, 1) and both go unchanged into its registry entry', loc(f.span))
    lay = layouts()
    if not lay:
        ctx.fail_closed(['C02'], 'R-TABLE', 'builtins|layout', 'cannot obtain rustc target data layouts')
        return
    formula_ok = okal and okisr
    for (name, size) in table:
        al_ = max(size, 1)
        ok = formula_ok
        det = [] if formula_ok else ['the alignment formula of the built-in table is not max(size, 1); cannot evaluate it (fail closed)']
        for tgt, L in lay.items():
            exp = expected_layout(name, L)
            if exp is None:
                ok = False
                det.append('%s: no reference' % tgt)
            elif exp != (size, al_):
                ok = False
                det.append('%s: rustc has size %d align %d' % (tgt, exp[0], exp[1]))
        ctx.ob(['C02', 'C01', 'C13', 'C03'], 'R-TABLE', 'builtins|%s' % name, ok,
               'built-in `%s` is (size %d, align %d) in pyxis; the Rust type emitted for it has the same size and ABI alignment on x86_64- and i686-pc-windows-msvc%s' % (
                   name, size, al_, '' if ok else ' — MISMATCH: ' + '; '.join(det)), loc(f.span))


_LAY = None


def layouts():
    global _LAY
    if _LAY is not None:
        return _LAY
    out = {}
    for tgt in ('x86_64-pc-windows-msvc', 'i686-pc-windows-msvc'):
        try:
            r = subprocess.run(['rustc', '+nightly', '-Zunstable-options', '--print', 'target-spec-json', '--target', tgt], capture_output=True, text=True, timeout=60)
            js = json.loads(r.stdout)
            out[tgt] = parse_layout(js['data-layout'])
        except Exception:
            return {}
    _LAY = out
    return out


def parse_layout(dl):
    L = {'i': {}, 'f': {}, 'p': None}
    for part in dl.split('-'):
        m = re.match(r'^([if])(\d+):(\d+)', part)
        if m:
            L[m.group(1)][int(m.group(2))] = int(m.group(3)) // 8
        m = re.match(r'^p:(\d+):(\d+)', part)
        if m:
            L['p'] = (int(m.group(1)) // 8, int(m.group(2)) // 8)
    return L


def expected_layout(name, L):
    if name == 'void':
        # printed as ::std::ffi::c_void, a #[repr(u8)] enum: size 1, align 1
        return (1, 1)
    if name == 'bool':
        return (1, 1)
    # a built-in is printed under its own name, so it has to be a primitive type of Rust
    if name not in ('u8', 'u16', 'u32', 'u64', 'u128', 'i8', 'i16', 'i32', 'i64', 'i128', 'f32', 'f64'):
        return None
    m = re.match(r'^([iuf])(\d+)$', name)
    bits = int(m.group(2))
    kind = 'f' if m.group(1) == 'f' else 'i'
    tbl = L[kind]
    if bits in tbl:
        al = tbl[bits]
    else:
        # LLVM rule: the alignment of the largest specified smaller-or-equal integer... natural alignment capped by the largest entry
        smaller = [b for b in tbl if b <= bits]
        al = tbl[max(smaller)] if smaller else bits // 8
        if kind == 'i' and bits not in tbl and bits < max(tbl):
            al = bits // 8
    if kind == 'i' and bits in (8, 16, 32) and bits not in tbl:
        al = bits // 8
    return (bits // 8, al)


# ------------------------------------------------------------------------------------------------
def concretise(s, limit=4000):
    """expand a flattened template into concrete Rust source alternatives (ALT: each arm; OPT: with and without;
    REP: 0, 1 and 2 elements; holes: a placeholder of their kind)"""
    # tokenise the flat string into a tree again is avoided: work on the node tree instead (see syntax())
    raise NotImplementedError


def render(nodes, T, choice, budget):
    """render a node list to source text; `choice` is a function (kind, n_options, key) -> index"""
    out = []
    for n in nodes:
        k = n[0]
        if k == 'tok':
            out.append(n[1])
        elif k == 'group':
            d = DELIM.get(n[1], '')
            out.append((d[0] if d else '') + ' ' + render(n[2], T, choice, budget) + ' ' + (d[1] if d else ''))
        elif k == 'hole':
            out.append(placeholder(n[2], n[1]))
        elif k == 'elem':
            info = n[3] if len(n) > 3 else None
            if info and info.get('kind') == 'iter' and info.get('elem') is not None:
                out.append(render(info['elem'], T, choice, budget))
            elif info and info.get('kind') == 'vec':
                ents = info['vec'][1]
                i = choice('vec', len(ents), id(n))
                out.append(render(ents[i][1], T, choice, budget))
            else:
                out.append(placeholder(n[2], n[1] if len(n) > 1 else None))
        elif k == 'rep':
            cnt = choice('rep', 3, id(n))
            parts = []
            for it in range(cnt):
                ITER.append(it)
                parts.append(render(n[3], T, choice, budget))
                ITER.pop()
            txt = (' %s ' % (n[2] or '')).join(parts)
            extras = []
            for e in (n[4] if len(n) > 4 and n[4] else []):
                if e and e.get('kind') == 'iter':
                    for ex in e.get('extra') or []:
                        extras.append(render(ex, T, choice, budget))
            if extras:
                txt = (txt + (' %s ' % (n[2] or '')) if txt else '') + (' %s ' % (n[2] or '')).join(extras)
            out.append(txt)
        elif k == 'opt':
            if choice('opt', 2, id(n)):
                out.append(render(n[2], T, choice, budget))
        elif k == 'alt':
            arms = prune_alt(n[1])
            i = choice('alt', len(arms), id(n))
            out.append(render(arms[i][1], T, choice, budget))
        elif k == 'call':
            out.append(render(n[3], T, choice, budget))
        elif k == 'vec':
            i = choice('vec', len(n[1]), id(n))
            out.append(render(n[1][i][1], T, choice, budget))
        elif k == 'opaque':
            out.append('/*opaque*/')
    return ' '.join(out)


ITER = []


def placeholder(ty, expr):
    t = (ty or '').replace('&', '').strip()
    if 'syn::Type' in t:
        return '*const crate::m::T'
    if 'Ident' in t:
        return 'ident_x'
    if 'Literal' in t:
        return '0x10'
    if 'syn::Index' in t:
        return '8'
    if t in ('usize',):
        return '16usize'
    if t in ('isize',):
        return '-3isize'
    if t == 'str' or t == 'std::string::String' or t.endswith('::String') or t == 'String':
        return '"text"'          # quote! prints a str / String as a string literal (an identifier needs str_to_ident / format_ident!)
    if t == 'bool':
        return 'true'
    if t == 'char':
        return "'c'"
    if re.match(r'^(u|i)(8|16|32|64|128)$', t):
        return '7' + t
    if 'RepInterp' in t and 'Ident' in t:
        return 'ident_y'
    return 'ident_z'


def hole_kinds(ctx, item, fn, ev):
    """quote! prints a `String` / `&str` as a string LITERAL.  That is what a doc attribute and an `extern "<abi>"` need, and
    nothing else in the templates: a name interpolated as a string (`fn "resize"(..)`, `"width": u32` — both accepted by the
    parser as patterns and rejected by the type checker) is a String where an identifier belongs"""
    bad = []
    n = 0
    for name, T_ in (('item', item), ('fn', fn), ('extern', ev)):
        for h in T_.fl.holes:
            ty = str(h[2] or '').replace('&', '').strip()
            if not (ty in ('str', 'String') or ty.endswith('::String')):
                continue
            n += 1
            i = h[0]
            ok = re.search(r'doc = ⟨H%d⟩' % i, T_.s) is not None or re.search(r'extern ⟨H%d⟩' % i, T_.s) is not None
            if not ok:
                m = re.search(r'.{0,40}⟨H%d⟩.{0,20}' % i, T_.s)
                bad.append('%s: %s' % (name, m.group(0) if m else 'H%d' % i))
    ctx.ob(['C13'], 'R-TMPL', 'hole-kinds|strings-only-as-literals', not bad and n >= 3,
           'string-typed interpolations (%d) occur only where a string literal belongs (doc attributes, the ABI of `extern`): %s' % (n, bad[:3]), loc(item.f.span))


def syntax(ctx, item, fn, ev):
    """R-SYNTAX (C13-D2): every alternative of every template parses as Rust items"""
    import itertools, random
    pxsyn = os.path.join(os.path.dirname(os.path.dirname(os.path.abspath(__file__))), 'engines/pxsyn/target/release/pxsyn')
    if not os.path.exists(pxsyn):
        ctx.fail_closed(['C13'], 'R-SYNTAX', 'parser', 'syntax oracle (engines/pxsyn) not built')
        return
    cases = []
    rnd = random.Random(12345)
    for name, T_, wrap in (('item', item, '%s'), ('fn', fn, 'impl X { %s }'), ('extern', ev, '%s')):
        # systematic: for each choice point try every option once while the others take a default; plus random mixes
        seen = set()

        def run_with(default, overrides, rnd_mode=False):
            keys = []
            memo = {}

            def choice(kind, n, key):
                later = any(i > 0 for i in ITER)
                key = (key, tuple(ITER))
                if later and kind == 'alt':
                    return n - 1          # further elements of a repetition take the last arm (e.g. a named argument)
                if key in memo:
                    return memo[key]
                if key not in keys:
                    keys.append(key)
                if key in overrides:
                    v = overrides[key] % n
                elif rnd_mode:
                    v = rnd.randrange(n)
                else:
                    v = {'rep': 1, 'opt': 1, 'alt': default % n, 'vec': 0}[kind]
                memo[key] = v
                return v
            txt = render(T_.t, T_, choice, None)
            return txt, keys
        for d in range(4):
            txt, keys = run_with(d, {})
            seen.add(txt)
            for kkey in keys:
                for v in range(4):
                    t2, _ = run_with(d, {kkey: v})
                    seen.add(t2)
        for _ in range(60):
            t2, _ = run_with(0, {}, rnd_mode=True)
            seen.add(t2)
        for t_ in seen:
            cases.append((name, wrap % t_))
    with tempfile.NamedTemporaryFile('w', suffix='.json', delete=False, dir=os.path.join(os.path.dirname(os.path.dirname(os.path.abspath(__file__))), '.scratch')) as fh:
        json.dump([c[1] for c in cases], fh)
        path = fh.name
    try:
        r = subprocess.run([pxsyn, '--parse-many', path], capture_output=True, text=True, timeout=300)
        res = json.loads(r.stdout) if r.returncode == 0 else None
    finally:
        os.unlink(path)
    if res is None:
        ctx.fail_closed(['C13'], 'R-SYNTAX', 'parser', 'syntax oracle failed: %s' % r.stderr[-300:])
        return
    bad = [(cases[i][0], cases[i][1], e) for i, e in enumerate(res) if e is not None]
    by = {}
    for name, _ in cases:
        by[name] = by.get(name, 0) + 1
    for name in ('item', 'fn', 'extern'):
        b = [x for x in bad if x[0] == name]
        ctx.ob(['C13'], 'R-SYNTAX', 'template-parses|%s' % name, not b,
               '%d concretised alternatives of the %s template (each ALT arm, OPT present/absent, REP with 0/1/2 elements, random mixes) parse as Rust with syn' % (by.get(name, 0), name) +
               ('' if not b else ' — FAILS: %s … %s' % (b[0][2], b[0][1][:300])), loc(item.f.span))
    ctx.stats['extra_C13'] = {'concretised_alternatives': len(cases)}
