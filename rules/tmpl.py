"""tmpl — the generator's output language, extracted from MIR.

`quote!` expands to a straight-line sequence of calls on a fresh TokenStream local
(push_ident / push_punct / to_tokens / push_group, loops for `#(..)*`).  For every backend function
this module rebuilds, from those calls, a template tree describing every token sequence the function
can emit for all inputs, with each interpolated value labelled by the expression it comes from
(mirlib's def-chain reconstruction).  Nothing is executed.

Template nodes (tuples):
  ('tok', text)                      literal token
  ('group', delim, [nodes])
  ('hole', expr, ty)                 interpolated leaf: identifier / type / literal / opaque stream
  ('rep', [src exprs], sep, [nodes]) repetition `#( .. ) sep *`; element holes are ('elem', k, inner-nodes-or-None)
  ('opt', cond expr, [nodes])        present or absent
  ('alt', [(label, [nodes])])        one of
  ('seq', [nodes])
  ('opaque', text)                   something the extractor cannot see through (rules fail closed on it)
"""
import re
from mirlib import *
from mirlib import _edge_conds

PUNCT = {
    'push_add': '+', 'push_add_eq': '+=', 'push_and': '&', 'push_and_and': '&&', 'push_and_eq': '&=', 'push_at': '@', 'push_bang': '!',
    'push_caret': '^', 'push_caret_eq': '^=', 'push_colon': ':', 'push_colon2': '::', 'push_comma': ',', 'push_div': '/', 'push_div_eq': '/=',
    'push_dot': '.', 'push_dot2': '..', 'push_dot3': '...', 'push_dot_dot_eq': '..=', 'push_eq': '=', 'push_eq_eq': '==', 'push_ge': '>=',
    'push_gt': '>', 'push_le': '<=', 'push_lt': '<', 'push_mul_eq': '*=', 'push_ne': '!=', 'push_or': '|', 'push_or_eq': '|=', 'push_or_or': '||',
    'push_pound': '#', 'push_question': '?', 'push_rarrow': '->', 'push_larrow': '<-', 'push_rem': '%', 'push_rem_eq': '%=', 'push_fat_arrow': '=>',
    'push_semi': ';', 'push_shl': '<<', 'push_shl_eq': '<<=', 'push_shr': '>>', 'push_shr_eq': '>>=', 'push_star': '*', 'push_sub': '-',
    'push_sub_eq': '-=', 'push_underscore': '_',
}
DELIM = {'Parenthesis': '()', 'Brace': '{}', 'Bracket': '[]', 'None': ''}
TS = 'proc_macro2::TokenStream'


class Extractor:
    def __init__(self, prog):
        self.P = prog
        self.cache = {}
        self.fn_cache = {}
        self.stack = []

    # ---- streams of one function --------------------------------------------------------------
    def streams(self, f):
        """local -> template nodes for every TokenStream local built by quote!-style calls in f"""
        if f.id in self.cache:
            return self.cache[f.id]
        nb = f.normal_blocks()
        # reverse post order
        order = []
        seen = set()

        def dfs(b):
            seen.add(b)
            for s in f.succ(b):
                if s not in seen:
                    dfs(s)
            order.append(b)
        import sys
        sys.setrecursionlimit(20000)
        dfs(0)
        order.reverse()
        rpo = {b: i for i, b in enumerate(order)}
        loops = f.loops()
        created = {}
        events = {}          # stream local -> [(rpo, block, kind, payload)]
        for bi in order:
            t = f.term(bi)
            if t['k'] != 'Call' or not t.get('callee'):
                continue
            p = t['callee'].get('rpath') or t['callee']['path']
            gp = t['callee']['path']
            d = t['dest']
            if p.endswith('proc_macro2::TokenStream::new') and not d['proj']:
                created[d['local']] = bi
                events.setdefault(d['local'], [])
                continue
            if re.search(r'quote::__private::parse(_spanned)?$', p):
                s = self._stream_arg(f, t['args'][0])
                if s is not None:
                    e = f.expr_of_operand(t['args'][-1])
                    events.setdefault(s, []).append((rpo[bi], bi, 'tok', e[1] if e[0] == 'str' else '?'))
                continue
            m = re.search(r'quote::__private::(push_\w+)$', p)
            if m:
                s = self._stream_arg(f, t['args'][0])
                if s is None:
                    continue
                name = m.group(1)
                if name in PUNCT:
                    events.setdefault(s, []).append((rpo[bi], bi, 'tok', PUNCT[name]))
                elif name in ('push_ident', 'push_lifetime'):
                    e = f.expr_of_operand(t['args'][1])
                    events.setdefault(s, []).append((rpo[bi], bi, 'tok', e[1] if e[0] == 'str' else '?'))
                elif name == 'push_group':
                    de = f.expr_of_operand(t['args'][1])
                    delim = de[1].split('::')[-1] if de[0] == 'agg' else '?'
                    inner = self._stream_arg(f, t['args'][2], move=True)
                    events.setdefault(s, []).append((rpo[bi], bi, 'group', (delim, inner)))
                elif name.endswith('_spanned'):
                    events.setdefault(s, []).append((rpo[bi], bi, 'opaque', name))
                else:
                    events.setdefault(s, []).append((rpo[bi], bi, 'opaque', name))
                continue
            if gp.endswith('quote::ToTokens::to_tokens') and len(t['args']) == 2:
                s = self._stream_arg(f, t['args'][1])
                if s is None:
                    continue
                x = f.expr_of_operand(t['args'][0])
                a0 = t['args'][0]
                ty = a0.get('place', {}).get('ty', '') or a0.get('ty', '')
                events.setdefault(s, []).append((rpo[bi], bi, 'hole', (x, ty)))
                continue
            if re.search(r'TokenStreamExt::append_all|Extend(<.*>>)?::extend|TokenStreamExt::append', gp) and t['args']:
                s = self._stream_arg(f, t['args'][0])
                if s is not None:
                    a1 = t['args'][1] if len(t['args']) > 1 else None
                    ty1 = ((a1 or {}).get('place') or {}).get('ty') or (a1 or {}).get('ty') or ''
                    ty1n = re.sub(r"^&('\w+ )?", '', ty1)
                    if a1 is not None and ty1n in (TS, 'std::option::Option<%s>' % TS, 'std::vec::Vec<%s>' % TS):
                        # appending one whole token stream (or an optional one, or each stream of a vector in order): the same
                        # as interpolating it (`#x`, resp. `#(#x)*`)
                        events.setdefault(s, []).append((rpo[bi], bi, 'hole', (f.expr_of_operand(a1), ty1n)))
                    else:
                        events.setdefault(s, []).append((rpo[bi], bi, 'opaque', short(gp)))
                continue
            # any other call that is handed a mutable reference to a stream may append to it: not seen through (fail closed)
            for a_ in t['args']:
                pl_ = a_.get('place') or {}
                if a_.get('k') in ('Move', 'Copy') and not pl_.get('proj') and re.match(r'^&(\'\w+ )?mut proc_macro2::TokenStream$', pl_.get('ty', '')):
                    s = self._stream_arg(f, a_)
                    if s is not None:
                        events.setdefault(s, []).append((rpo[bi], bi, 'opaque', 'stream passed to ' + short(gp)))
        # a stream that starts as another stream (`let mut output = head; output.extend(..)`): that stream comes first
        for s in list(events):
            ds = f.defs().get(s, [])
            if s not in created and len(ds) == 1 and ds[0][2] == 'rv' and ds[0][3]['k'] == 'Use' and ds[0][3]['op'].get('k') in ('Move', 'Copy') \
                    and not ds[0][3]['op']['place']['proj'] and f.local_ty(ds[0][3]['op']['place']['local']) == TS and ds[0][0] in rpo:
                created[s] = ds[0][0]
                events[s].append((rpo[ds[0][0]] - 0.5, ds[0][0], 'hole', (f.expr_of_operand(ds[0][3]['op']), TS)))
        out = {}
        self.cache[f.id] = out
        self._loops = loops
        for s in events:
            out[s] = None
        for s in events:
            out[s] = self._build(f, s, events, created, loops, out)
        return out

    def _stream_arg(self, f, op, move=False):
        e = strip(f.expr_of_operand(op))
        if e[0] == 'var' and f.local_ty(e[1]) == TS:
            return e[1]
        # moved stream: `move _s` directly
        if isinstance(op, dict) and op.get('k') in ('Move', 'Copy') and not op['place']['proj'] and f.local_ty(op['place']['local']) == TS:
            return op['place']['local']
        return None

    def _build(self, f, s, events, created, loops, out):
        evs = sorted(events[s], key=lambda e: e[0])
        home = created.get(s)
        # loops that contain events but not the creation of the stream
        def loop_of(bi):
            best = None
            for L in loops:
                if bi in L[1] and (home is None or home not in L[1]):
                    if best is None or len(L[1]) < len(best[1]):
                        best = L
            return best
        nodes = []
        i = 0

        def conditional(bi):
            """conditions under which an event at block bi happens, beyond those that already hold where the stream was created
            (None: it happens on every path from the creation to a normal return)"""
            if home is None:
                return None
            from guards import success_exits, unreachable_without
            exits_ = [x for x in success_exits(f) if x['block'] in f.reach(home)]
            if exits_ and all(unreachable_without(f, x['block'], {bi}, src=home) for x in exits_):
                return None
            cs = [(c_, lab) for b_, c_, lab in _edge_conds(f, bi) if not f.dominates(b_, home) or b_ == home]
            cs = [(c_, lab) for c_, lab in cs]
            if not cs:
                return ('unknown-condition',)
            from guards import norm_pred
            ps = [norm_pred(c_, lab) for c_, lab in cs]
            return ps[0] if len(ps) == 1 else ('and', ps)
        while i < len(evs):
            (_, bi, kind, payload) = evs[i]
            L = loop_of(bi)
            if L is None:
                n_ = self._node(f, s, kind, payload, events, created, loops, out)
                cnd = conditional(bi)
                nodes.append(n_ if cnd is None else ('opt', cnd, [n_], None))
                i += 1
                continue
            # gather all events of this loop
            body = []
            j = i
            while j < len(evs) and evs[j][1] in L[1]:
                body.append(evs[j])
                j += 1
            rep_ = self._rep(f, s, L, body, events, created, loops, out)
            cnd = conditional(L[0])
            nodes.append(rep_ if cnd is None else ('opt', cnd, [rep_], None))
            i = j
        return nodes

    def _node(self, f, s, kind, payload, events, created, loops, out):
        if kind == 'tok':
            return ('tok', payload)
        if kind == 'group':
            delim, inner = payload
            if inner is None or inner not in events:
                return ('group', delim, [('opaque', 'group content')])
            if out.get(inner) is None:
                out[inner] = self._build(f, inner, events, created, loops, out)
            return ('group', delim, out[inner])
        if kind == 'hole':
            x, ty = payload
            return ('hole', x, ty)
        return ('opaque', str(payload))

    def _rep(self, f, s, L, body, events, created, loops, out):
        h, blocks, latches = L
        # sources: every Iterator::next in the loop on quote_into_iter(SRC).0
        srcs = []
        for bi in sorted(blocks):
            t = f.term(bi)
            if t['k'] == 'Call' and t.get('callee') and t['callee']['path'].endswith('Iterator::next'):
                e = f.expr_of_operand(t['args'][0])
                q = [x for x in walk(e) if isinstance(x, tuple) and x[0] == 'call' and x[1].endswith('quote_into_iter')]
                srcs.append((q[0][2][0] if q else e, f.expr_of_call(t)))
        sep = None
        items = []
        for (_, bi, kind, payload) in body:
            # separator: a punct pushed under `_i > 0`
            if kind == 'tok':
                preds = f.pred(bi)
                cond = None
                if len(preds) == 1 and f.term(preds[0])['k'] == 'SwitchInt':
                    cond = f.expr_of_operand(f.term(preds[0])['discr'])
                if cond is not None and cond[0] == 'bin' and cond[1] == 'Gt' and cond[3] == ('int', 0, 'usize'):
                    sep = payload
                    continue
            n = self._node(f, s, kind, payload, events, created, loops, out)
            if n[0] == 'hole':
                x = n[1]
                k = None
                for idx, (src, nx) in enumerate(srcs):
                    if any(y == nx for y in walk(x)):
                        k = idx
                # a token stream that is *computed from* the element in the loop body (`ts.extend(quote!{.. #x ..})`) is
                # not the element itself: it stays a hole and is resolved to its own template
                computed = n[2].replace('&', '').strip() == TS and k is not None and not any(m.startswith('quote::') for m in (f.term(bi)['span'].get('macros') or []))
                if k is not None and not computed:
                    n = ('elem', k, n[2])
            # an event that happens only on some trips: the branch conditions inside the loop body
            # (only for appends written by hand — `stream.extend(..)` in a user loop; quote!'s own repetition loops test their
            # iterators and separators in every trip, which is not a condition on the element)
            user_ev = not any(m_.startswith('quote::') for m_ in (f.term(bi)['span'].get('macros') or []))
            cs_ = [(c_, lab) for b_, c_, lab in _edge_conds(f, bi) if b_ in blocks and not find_next(c_) and
                   not (c_[0] == 'bin' and c_[1] == 'Gt' and c_[3] == ('int', 0, 'usize'))] if user_ev else []
            items.append((n, cs_))
        # two events under the two outcomes of one test are the arms of an alternative; a single conditional event is optional
        merged = []
        i_ = 0
        while i_ < len(items):
            n, cs_ = items[i_]
            if not cs_:
                merged.append(n)
                i_ += 1
                continue
            if i_ + 1 < len(items) and len(cs_) == 1 and len(items[i_ + 1][1]) == 1 and items[i_ + 1][1][0][0] == cs_[0][0] and items[i_ + 1][1][0][1] != cs_[0][1]:
                n2, cs2 = items[i_ + 1]
                lab = lambda c: '%s=%s' % (show(c[0])[:80], c[1])
                arms = sorted([(lab(cs_[0]), [n], cs_), (lab(cs2[0]), [n2], cs2)], key=lambda a_: not a_[0].endswith('=True'))
                merged.append(('alt', arms))
                i_ += 2
                continue
            from guards import norm_pred
            ps = [norm_pred(c_, lab_) for c_, lab_ in cs_]
            merged.append(('opt', ps[0] if len(ps) == 1 else ('and', ps), [n], None))
            i_ += 1
        return ('rep', [s_[0] for s_ in srcs], sep, merged)


# ---------------------------------------------------------------------------------------------
# resolution: follow holes into helper functions, closures, option/then wrappers, collected vectors
class Resolver:
    def __init__(self, prog):
        self.P = prog
        self.X = Extractor(prog)
        self.depth = 0

    def fn_template(self, f, depth=0):
        """template of the value(s) a function or closure returns: ('alt', [(label, nodes)]) or nodes"""
        outs = []
        for x in f.exits():
            if x['kind'] in ('err_own', 'err_prop', 'none_prop', 'none'):
                continue
            outs.append((x, self.value(f, x['expr'], depth + 1)))
        if f.kind != 'Closure' and f.raw.get('output', '').startswith('std::option::Option<') and any(x['kind'] == 'none' for x in f.exits()):
            # a helper that returns Option<tokens>: its own `return None` paths make the tokens optional, under the conditions
            # that dominate the Some exit
            from guards import norm_pred
            wrapped = []
            for x, v in outs:
                cs = [norm_pred(c, lab) for c, lab in self._conds(f, x)]
                cond = cs[0] if len(cs) == 1 else ('and', cs)
                wrapped.append((x, [('opt', cond, v, None)]))
            outs = wrapped
        if len(outs) == 1:
            return outs[0][1]
        return self._alt_or_opt(self._order_alts([(self._label(f, x), v, self._conds(f, x)) for x, v in outs]))

    @staticmethod
    def _alt_or_opt(alts):
        """`match x { Some(v) => Some(quote!{..v..}), None => None }` is `x.map(|v| quote!{..v..})`: tokens present exactly when x
        is Some — rendered as the same optional part"""
        if len(alts) == 2:
            empty = [a for a in alts if not a[1]]
            full = [a for a in alts if a[1]]
            if len(empty) == 1 and len(full) == 1 and len(full[0]) > 2 and len(empty[0]) > 2 and full[0][2] and empty[0][2]:
                cf, lf = full[0][2][-1]
                ce, le = empty[0][2][-1]
                if cf == ce and cf[0] == 'discr' and lf == 'Some' and le == 'None' and full[0][2][:-1] == empty[0][2][:-1]:
                    return [('opt', ('is_some', cf[1]), full[0][1], cf[1])]
        return [('alt', alts)]

    @staticmethod
    def _order_alts(alts):
        """the two arms of a test `c` are listed as [c holds, c does not hold] however the compiler laid the blocks out (an
        `if c { A } else { B }` rewritten as `if !c { B } else { A }` is the same alternative)"""
        if len(alts) == 2:
            l0, l1 = alts[0][0], alts[1][0]
            if l0.endswith('=False') and l1.endswith('=True') and l0[:-len('=False')] == l1[:-len('=True')]:
                return [alts[1], alts[0]]
        return alts

    def _conds(self, f, x):
        out = []
        for s in f.switches():
            if find_next(s['cond']) or (s['cond'][0] == 'discr' and s['cond'][1][0] == 'call' and s['cond'][1][3] == TRY_BRANCH):
                continue
            for lab, tgt in s['edges']:
                if f.dominates(tgt, x['block']) and f.pred(tgt) == [s['block']]:
                    out.append((s['cond'], lab))
        return out

    def _label(self, f, x):
        doms = []
        for s in f.switches():
            if s['cond'][0] == 'int' or find_next(s['cond']) or (s['cond'][0] == 'discr' and s['cond'][1][0] == 'call' and s['cond'][1][3] == TRY_BRANCH):
                continue
            for lab, tgt in s['edges']:
                if f.dominates(tgt, x['block']) and f.pred(tgt) == [s['block']]:
                    c_ = s['cond']
                    if lab in (True, False):
                        # one spelling per test: `!c` under True is `c` under False, `a >= 2` is `a > 1`, `a <= 1` is not `a > 1`
                        from guards import canon_pred
                        c_ = canon_pred(c_)
                        while strip(c_)[0] == 'un' and strip(c_)[1] == 'Not':
                            c_, lab = strip(c_)[2], not lab
                        c0 = strip(c_)
                        if c0[0] == 'bin' and c0[1] in ('Le', 'Lt'):
                            c_, lab = ('bin', {'Le': 'Gt', 'Lt': 'Ge'}[c0[1]], c0[2], c0[3]), not lab
                            c_ = canon_pred(c_)
                        c0 = strip(c_)
                        if c0[0] == 'bin' and c0[1] in ('Ne', 'Eq') and strip(c0[3])[:2] == ('int', 0) and strip(c0[2])[0] == 'call' and strip(c0[2])[1].endswith('::len') and strip(c0[2])[2]:
                            # `x.len() == 0` is `x.is_empty()`
                            doms.append('is_empty(%s)=%s' % (show(strip(c0[2])[2][0])[:70], lab if c0[1] == 'Eq' else (not lab)))
                            continue
                    doms.append('%s=%s' % (show(c_)[:80], lab))
        return ' & '.join(doms[-2:]) if doms else ''

    def value(self, f, e, depth=0):
        """nodes for the token-stream-like value of expression e in function f"""
        if depth > 60:
            return [('opaque', 'depth')]
        e0 = e
        e = self._peel(e)
        k = e[0]
        if k == 'var':
            l = e[1]
            ty = f.local_ty(l)
            st = self.X.streams(f)
            if l in st and st[l] is not None and ty == TS and len(f.defs().get(l, [])) <= 1:
                return self.resolve_nodes(f, st[l], depth + 1)
            # multi-def variable: alternatives
            defs = f.defs().get(l, [])
            if ty.startswith('std::vec::Vec<') and TS in ty:
                return [self._vec(f, l, depth + 1)]
            if len(defs) >= 1:
                alts = []
                for d in defs:
                    de = f.expr_of_def(d)
                    if de == e:
                        continue
                    alts.append((self._label(f, {'block': d[0], 'span': d[4]}), self.value(f, de, depth + 1), self._conds(f, {'block': d[0]})))
                if len(alts) == 1:
                    return alts[0][1]
                if alts:
                    return self._alt_or_opt(self._order_alts(alts))
            return [('hole', e0, ty)]
        if k == 'call':
            path = e[1]
            if path in self.P.fns:
                g = self.P.fns[path]
                out = g.raw.get('output', '')
                if TS in out or 'TokenStream' in out:
                    return [('call', g.id, e[2], self._subst_args(self.fn_template(g, depth + 1), e[2]))]
                return [('hole', e0, out)]
            if re.search(r'Option::<T>::(map|and_then)$', path) and len(e[2]) == 2 and e[2][1][0] == 'closure':
                c = self.P.fns.get(e[2][1][1])
                if c:
                    return [('opt', ('is_some', e[2][0]), self.closure_value(f, c, e[2][1][2], depth + 1), e[2][0])]
            if re.search(r'bool>?::then$', path) and e[2][1][0] == 'closure':
                c = self.P.fns.get(e[2][1][1])
                if c:
                    return [('opt', e[2][0], self.closure_value(f, c, e[2][1][2], depth + 1), None)]
            if re.search(r'Option::<T>::unwrap_or_default$|Option::<T>::transpose$|Iterator::collect$', path):
                return self.value(f, e[2][0], depth + 1)
            if path.endswith('proc_macro2::TokenStream::new'):
                return []
            return [('hole', e0, '')]
        if k == 'field' and e[1][0] == 'var' and e[2].isdigit():
            l = e[1][1]
            alts = []
            for d in f.defs().get(l, []):
                de = f.expr_of_def(d)
                if de[0] == 'tuple' and int(e[2]) < len(de[1]):
                    alts.append((self._label(f, {'block': d[0], 'span': d[4]}), self.value(f, de[1][int(e[2])], depth + 1), self._conds(f, {'block': d[0]})))
            if alts and len(alts) == len(f.defs().get(l, [])):
                return [('alt', self._order_alts(alts))] if len(alts) > 1 else alts[0][1]
        if k == 'agg':
            if e[1].endswith(('Result::Ok', 'Option::Some')) and e[2]:
                return self.value(f, e[2][0][1], depth + 1)
            if e[1].endswith('Option::None'):
                return []
        if k == 'closure':
            c = self.P.fns.get(e[1])
            if c:
                return self.closure_value(f, c, e[2], depth + 1)
        return [('hole', e0, '')]

    def _peel(self, e):
        while True:
            e = strip(e)
            if e[0] == 'try':
                e = e[1]
            elif e[0] == 'payload' and e[2] in ('Some', 'Ok', 'Continue'):
                e = e[1]
            elif e[0] == 'agg' and e[1].endswith('quote::__private::RepInterp') and e[2]:
                e = e[2][0][1]
            elif e[0] == 'call' and re.search(r'(Option::<T>|Result::<T, E>)::(unwrap|expect)$|anyhow::Ok$|ToTokens::to_token_stream$|ToTokens::into_token_stream$|Option::<std::result::Result<T, E>>::transpose$|Option::<T>::unwrap_or_default$', e[1]):
                e = e[2][0]
            else:
                return e

    def closure_value(self, f, c, caps, depth):
        """template returned by closure c created in f with captured operands caps: upvars are rewritten to the
        creator's expressions so that provenance stays rooted at the entry function's parameters"""
        t = self.fn_template(c, depth)
        t = self._subst(t, c.id, mode='carg')      # the closure's own parameters must not collide with the creator's
        return self._reresolve(f, self._subst(t, caps), depth)

    def _reresolve(self, f, nodes, depth):
        """after substituting captured values: holes that now denote token streams of the creator are expanded"""
        out = []
        for n in nodes:
            k = n[0]
            if k == 'hole':
                e = self._peel(n[1])
                is_ts_call = e[0] == 'call' and e[1] in self.P.fns and 'TokenStream' in self.P.fns[e[1]].raw.get('output', '')
                is_ts_var = e[0] == 'var' and f.local_ty(e[1]).replace('&', '') in (TS, 'std::option::Option<' + TS + '>')
                if (self._streamlike(n[2]) or n[2] == '') and (is_ts_call or is_ts_var):
                    out.extend(self.value(f, n[1], depth + 1))
                else:
                    out.append(n)
            elif k == 'group':
                out.append(('group', n[1], self._reresolve(f, n[2], depth)))
            elif k == 'opt':
                out.append(('opt', n[1], self._reresolve(f, n[2], depth)) + tuple(n[3:]))
            elif k == 'alt':
                out.append(('alt', [(a[0], self._reresolve(f, a[1], depth)) + tuple(a[2:]) for a in n[1]]))
            elif k == 'rep':
                items = self._reresolve(f, n[3], depth)
                elems = list(n[4]) if len(n) > 4 and n[4] is not None else None
                if elems is not None:
                    # a captured vector of token streams (or a call that builds one) can only be described in the creator's terms
                    changed = False
                    for i_, s_ in enumerate(n[1]):
                        info = elems[i_] if i_ < len(elems) else None
                        b_ = self._peel((info or {}).get('base', s_)) if isinstance(info, dict) else self._peel(s_)
                        vec_call = b_[0] == 'call' and b_[1] in self.P.fns and TS in self.P.fns[b_[1]].raw.get('output', '') and 'Vec<' in self.P.fns[b_[1]].raw.get('output', '')
                        vec_var = b_[0] == 'var' and f.local_ty(b_[1]).replace('&', '').startswith('std::vec::Vec<') and TS in f.local_ty(b_[1])
                        if isinstance(info, dict) and info.get('kind') == 'iter' and info.get('elem') is None and (vec_call or vec_var):
                            ni = self.rep_source(f, s_, depth + 1)
                            if ni and (ni.get('kind') == 'vec' or ni.get('elem') is not None):
                                elems[i_] = ni
                                changed = True
                    if changed:
                        items = [(('elem', x[1], x[2], elems[x[1]] if x[1] < len(elems) else None) if (x[0] == 'elem') else x) for x in items]
                    out.append(('rep', n[1], n[2], items, elems) + tuple(n[5:]))
                else:
                    out.append(('rep', n[1], n[2], items) + tuple(n[4:]))
            else:
                out.append(n)
        return out

    def _subst_args(self, nodes, args):
        return self._subst(nodes, args, mode='arg')

    def _subst(self, nodes, caps, mode='upvar'):
        def sx(e):
            if not isinstance(e, tuple):
                return e
            if mode == 'upvar' and e[0] == 'upvar' and e[1] < len(caps):
                return caps[e[1]]
            if mode == 'arg' and e[0] == 'arg' and 1 <= e[1] <= len(caps):
                return caps[e[1] - 1]
            if mode == 'carg' and e[0] == 'arg':
                return ('carg', e[1], e[2], caps)
            return tuple(sx(x) if isinstance(x, tuple) else ([(y[0], sx(y[1])) if (isinstance(y, tuple) and len(y) == 2 and isinstance(y[0], str) and isinstance(y[1], tuple)) else (sx(y) if isinstance(y, tuple) else y) for y in x] if isinstance(x, list) else x) for x in e)

        def sinfo(info):
            if not info:
                return info
            d = dict(info)
            if d.get('elem') is not None:
                d['elem'] = [sn(x) for x in d['elem']]
            if d.get('extra'):
                d['extra'] = [[sn(x) for x in ex] for ex in d['extra']]
            if d.get('base') is not None:
                d['base'] = sx(d['base'])
            if d.get('chain'):
                d['chain'] = [(nm, sx(a) if isinstance(a, tuple) else a) for nm, a in d['chain']]
            if d.get('vec') is not None:
                d['vec'] = sn(d['vec'])
            return d

        def sn(n):
            k = n[0]
            if k == 'hole':
                return ('hole', sx(n[1]), n[2])
            if k == 'group':
                return ('group', n[1], [sn(x) for x in n[2]])
            if k == 'rep':
                return ('rep', [sx(s) for s in n[1]], n[2], [sn(x) for x in n[3]]) + ((([sinfo(i) for i in n[4]] if n[4] else n[4]),) if len(n) > 4 else ())
            if k == 'opt':
                return ('opt', sx(n[1]), [sn(x) for x in n[2]], sx(n[3]) if len(n) > 3 and n[3] is not None else None)
            if k == 'alt':
                return ('alt', [(a[0], [sn(x) for x in a[1]], [(sx(c_), l_) for c_, l_ in (a[2] if len(a) > 2 else [])]) for a in n[1]])
            if k == 'call':
                return ('call', n[1], [sx(a) for a in n[2]], [sn(x) for x in n[3]])
            if k == 'elem':
                return n[:3] + ((sinfo(n[3]),) if len(n) > 3 else ())
            if k == 'vec':
                return ('vec', [(sx(c_), [sn(x) for x in v]) for c_, v in n[1]])
            return n
        return [sn(n) for n in nodes]

    def _vec(self, f, l, depth):
        """Vec<TokenStream> built by (conditional) pushes"""
        items = []
        for c in f.calls(lambda r: r['path'] and r['path'].endswith('Vec::<T, A>::push')):
            a0 = strip(f.expr_of_operand(c['term']['args'][0]))
            if a0 == ('var', l, f.names.get(l, '_%d' % l)):
                conds = []
                for s in f.switches():
                    if s['cond'][0] == 'int' or find_next(s['cond']) or (s['cond'][0] == 'discr' and s['cond'][1][0] == 'call' and s['cond'][1][3] == TRY_BRANCH):
                        continue
                    for lab, tgt in s['edges']:
                        if f.dominates(tgt, c['block']) and f.pred(tgt) == [s['block']]:
                            conds.append((s['cond'], lab))
                items.append((conds[-1] if conds else None, self.value(f, f.expr_of_operand(c['term']['args'][1]), depth + 1), c['block']))
        items.sort(key=lambda x: x[2])
        return ('vec', [(c_, v) for c_, v, _ in items])

    def resolve_nodes(self, f, nodes, depth=0):
        out = []
        for n in nodes:
            k = n[0]
            if k == 'tok' or k == 'opaque':
                out.append(n)
            elif k == 'group':
                out.append(('group', n[1], self.resolve_nodes(f, n[2], depth + 1)))
            elif k == 'hole':
                ty = n[2]
                if ty.replace('&', '').strip().startswith('std::vec::Vec<proc_macro2::TokenStream'):
                    # stream.extend(vector of streams): every element in order, no separator — the same as `#(#v)*`
                    info = self.rep_source(f, n[1], depth + 1)
                    out.append(('rep', [n[1]], None, [('elem', 0, TS, info)], [info]))
                elif self._streamlike(ty):
                    out.extend(self.value(f, n[1], depth + 1))
                else:
                    out.append(('hole', self._peel(n[1]) if False else n[1], ty))
            elif k == 'rep':
                srcs = n[1]
                items = []
                elems = []
                for s in srcs:
                    elems.append(self.rep_source(f, s, depth + 1))
                for x in n[3]:
                    if x[0] == 'elem':
                        info = elems[x[1]] if x[1] < len(elems) else None
                        items.append(('elem', x[1], x[2], info))
                    else:
                        items.extend(self.resolve_nodes(f, [x], depth + 1))
                out.append(('rep', srcs, n[2], items, elems))
            elif k == 'opt':
                out.append(('opt', n[1], self.resolve_nodes(f, n[2], depth + 1)) + tuple(n[3:]))
            elif k == 'alt':
                out.append(('alt', [(a_[0], self.resolve_nodes(f, a_[1], depth + 1)) + tuple(a_[2:]) for a_ in n[1]]))
            else:
                out.append(n)
        return out

    def _streamlike(self, ty):
        t = ty.replace('&', '').replace('mut ', '').strip()
        return t == TS or t.startswith('std::option::Option<proc_macro2::TokenStream') or t.startswith('quote::__private::RepInterp<proc_macro2::TokenStream') or \
            t.startswith('quote::__private::RepInterp<&proc_macro2::TokenStream') or t.startswith('std::option::Option<&proc_macro2::TokenStream')

    def rep_source(self, f, s, depth):
        """describe a repetition source: base collection expression, adapter chain, element template (if the
        elements are token streams produced by a closure) or None for leaf elements"""
        e = self._peel(s)
        e = expand(f, e, keep=lambda ty: TS in ty)
        chain = []
        elem = None
        extra = []
        base = e
        cur = e
        while True:
            cur = self._peel(cur)
            if cur[0] == 'var':
                ty = f.local_ty(cur[1])
                lb = loop_built(f, cur[1]) if ty.startswith('std::vec::Vec<') and TS in ty else None
                if lb:
                    # `for x in SRC { v.push(E) }` is SRC.map(|x| E).collect()
                    chain.append(('collect', None))
                    chain.append(('map', ('loopbody', lb['push'])))
                    if lb.get('arms'):
                        # one push per arm of a match on the element: the element template is the alternative of the arms
                        elem = [('alt', [(self._label(f, {'block': b_, 'span': None}), self.value(f, e_, depth + 1), self._conds(f, {'block': b_})) for b_, e_ in lb['arms']])]
                    else:
                        elem = self.value(f, lb['elem'], depth + 1)
                    cur = lb['source']
                    if lb['filtered']:
                        chain.append(('filter', ('loopcond', lb['push'], f.id)))
                    continue
                if ty.startswith('std::vec::Vec<') and TS in ty:
                    v = self._vec(f, cur[1], depth + 1)
                    if v[1]:
                        return {'kind': 'vec', 'vec': v, 'base': cur, 'chain': chain}
                ds = f.defs().get(cur[1], [])
                if len(ds) == 1:
                    cur = f.expr_of_def(ds[0])
                    continue
                if len(ds) == 2 and ty.startswith('std::vec::Vec<'):
                    # `match x { Some(v) => <list built from v>, None => vec![] }` is `x.map(|v| <list>).unwrap_or_default()`
                    des = [(d_, self._peel(f.expr_of_def(d_))) for d_ in ds]
                    empty = [d_ for d_, e_ in des if e_[0] == 'call' and re.search(r'Vec::<T>::new$|Vec::<T, A>::new$', e_[1]) and not e_[2]]
                    full = [(d_, e_) for d_, e_ in des if not (e_[0] == 'call' and re.search(r'Vec::<T>::new$|Vec::<T, A>::new$', e_[1]) and not e_[2])]
                    if len(empty) == 1 and len(full) == 1:
                        cf_ = self._conds(f, {'block': full[0][0][0]})
                        ce_ = self._conds(f, {'block': empty[0][0]})
                        if cf_ and ce_ and cf_[-1][0] == ce_[-1][0] and cf_[-1][0][0] == 'discr' and cf_[-1][1] == 'Some' and ce_[-1][1] == 'None':
                            chain.append(('opt-map', cf_[-1][0][1]))
                            cur = full[0][1]
                            continue
                break
            if cur[0] == 'call' and cur[1] in self.P.fns and self.P.fns[cur[1]].raw.get('output', '').startswith('std::vec::Vec<') and TS in self.P.fns[cur[1]].raw.get('output', ''):
                # a helper that returns the vector of token streams: its (conditional) pushes, in the caller's terms
                g = self.P.fns[cur[1]]
                exs = [strip(x['expr']) for x in g.exits()]
                if len(exs) == 1 and exs[0][0] == 'call':
                    # a literal table of (condition, identifier) pairs, filtered by the condition and mapped to the identifier:
                    # [(c1, "A"), (c2, "B")].into_iter().filter(|(c, _)| *c).map(|(_, n)| ident(n)) is the list of conditional
                    # pushes `if c1 { push(A) } if c2 { push(B) }`
                    ee = strip(expand(g, exs[0], keep=lambda ty: TS in ty))
                    tbl = None
                    if ee[0] == 'call' and ee[3].endswith('Iterator::collect'):
                        mp = strip(ee[2][0])
                        if mp[0] == 'call' and mp[3].endswith('Iterator::map') and len(mp[2]) == 2:
                            fl_ = strip(mp[2][0])
                            if fl_[0] == 'call' and fl_[3].endswith('Iterator::filter') and len(fl_[2]) == 2:
                                srcx = strip(fl_[2][0])
                                while srcx[0] == 'call' and srcx[2] and re.search(r'(into_iter|::iter)$', srcx[1]):
                                    srcx = strip(srcx[2][0])
                                if srcx[0] == 'array' and all(isinstance(it_, tuple) and it_[0] == 'tuple' and len(it_[1]) == 2 for it_ in srcx[1]):
                                    tbl = (srcx[1], fl_[2][1], mp[2][1])
                    if ee[0] == 'call' and ee[3].endswith('Iterator::collect') and not tbl:
                        # [(c1, quote!{A}), (c2, quote!{B})].into_iter().filter_map(|(c, t)| c.then_some(t)).collect(): the same list
                        fm = strip(ee[2][0])
                        if fm[0] == 'call' and fm[3].endswith('Iterator::filter_map') and len(fm[2]) == 2 and fm[2][1][0] == 'closure' and fm[2][1][1] in self.P.fns:
                            srcx = strip(fm[2][0])
                            while srcx[0] == 'call' and srcx[2] and re.search(r'(into_iter|::iter)$', srcx[1]):
                                srcx = strip(srcx[2][0])
                            fmc = self.P.fns[fm[2][1][1]]
                            if srcx[0] == 'array' and all(isinstance(it_, tuple) and it_[0] == 'tuple' and len(it_[1]) == 2 for it_ in srcx[1]) and \
                                    len(fmc.exits()) == 1 and not fmc.switches():
                                fb = strip(fmc.exits()[0]['expr'])
                                okf = fb[0] == 'call' and re.search(r'bool>?::then_some$', fb[1]) and len(fb[2]) == 2 and \
                                    strip(fb[2][0])[0] == 'field' and strip(fb[2][0])[2] == '0' and strip(strip(fb[2][0])[1])[0] == 'arg' and \
                                    strip(fb[2][1])[0] == 'field' and strip(fb[2][1])[2] == '1' and strip(strip(fb[2][1])[1])[0] == 'arg'
                                if okf:
                                    items = []
                                    for it_ in srcx[1]:
                                        items.append(((subst_args(strip(it_[1][0]), cur[2]), True), self.value(g, it_[1][1], depth + 1)))
                                    if items:
                                        return {'kind': 'vec', 'vec': ('vec', items), 'base': cur, 'chain': chain}
                    if tbl:
                        rows, fclo, mclo = tbl
                        fc, mc = self.P.fns.get(fclo[1]) if fclo[0] == 'closure' else None, self.P.fns.get(mclo[1]) if mclo[0] == 'closure' else None
                        items = []
                        okt = fc is not None and mc is not None and len(fc.exits()) == 1 and len(mc.exits()) == 1 and not fc.switches() and not mc.switches()
                        if okt:
                            fb = strip(fc.exits()[0]['expr'])
                            mb = strip(mc.exits()[0]['expr'])
                            # filter body must be the pair's first component, map body ident(second component)
                            okt = fb[0] == 'field' and fb[2] == '0' and strip(fb[1])[0] == 'arg'
                            mb2 = mb
                            while mb2[0] == 'call' and mb2[2] and re.search(r'(into_token_stream|to_token_stream|::into|::clone)$', mb2[1]):
                                mb2 = strip(mb2[2][0])
                            okt = okt and mb2[0] == 'call' and mb2[1].endswith('str_to_ident') and strip(mb2[2][0])[0] == 'field' and strip(mb2[2][0])[2] == '1'
                        if okt:
                            for it_ in rows:
                                c_e, n_e = strip(it_[1][0]), strip(it_[1][1])
                                if n_e[0] != 'str':
                                    okt = False
                                    break
                                items.append(((subst_args(c_e, cur[2]), True), [('tok', n_e[1])]))
                        if okt and items:
                            return {'kind': 'vec', 'vec': ('vec', items), 'base': cur, 'chain': chain}
                if len(exs) == 1 and exs[0][0] == 'var':
                    v = self._vec(g, exs[0][1], depth + 1)
                    if v[1]:
                        items = []
                        for c_, toks in v[1]:
                            items.append(((subst_args(c_[0], cur[2]), c_[1]) if c_ else None, toks))
                        return {'kind': 'vec', 'vec': ('vec', items), 'base': cur, 'chain': chain}
                break
            if cur[0] == 'call' and re.search(r'Option::<T>::map$', cur[1]) and len(cur[2]) == 2 and cur[2][1][0] == 'closure' and cur[2][1][1] in self.P.fns:
                c = self.P.fns[cur[2][1][1]]
                exs = [x for x in c.exits() if x['kind'] not in ('err_own', 'err_prop', 'none_prop')]
                if len(exs) == 1:
                    chain.append(('opt-map', cur[2][0]))
                    inner = self._subst([('hole', expand(c, exs[0]['expr'], keep=lambda ty: TS in ty), '')], cur[2][1][2])[0][1]
                    cur = inner
                    f = c
                    continue
            if cur[0] == 'call' and re.search(r'Iterator::(map|filter|enumerate|rev|skip|take|step_by|chain|filter_map|flat_map|cloned|copied|zip|peekable|collect)$|slice::<impl \[T\]>::iter$|IntoIterator::into_iter$|Vec::<T, A>::iter$|Deref::deref$|str::<impl str>::lines$|Option::<T>::iter$', cur[3] if len(cur) > 3 else cur[1]):
                nm = (cur[3] if len(cur) > 3 else cur[1]).split('::')[-1]
                arg = cur[2][1] if len(cur[2]) > 1 else None
                chain.append((nm, arg))
                if nm in ('map', 'filter_map') and arg is not None and arg[0] == 'closure' and arg[1] in self.P.fns:
                    c = self.P.fns[arg[1]]
                    out = c.locals[0]['ty']
                    if 'TokenStream' in out:
                        elem = self.closure_value(f, c, arg[2], depth + 1)
                if nm == 'chain' and arg is not None:
                    a = self._peel(arg)
                    if a[0] == 'call' and a[1].endswith('iter::once') and 'TokenStream' in (a[4] if len(a) > 4 else ''):
                        extra.append(self.value(f, a[2][0], depth + 1))
                    else:
                        extra.append([('opaque', 'chained iterator ' + show(a)[:60])])
                if nm == 'map' and arg is not None and arg[0] == 'fnref' and arg[1] in self.P.fns:
                    g = self.P.fns[arg[1]]
                    if 'TokenStream' in g.raw.get('output', ''):
                        elem = [('call', g.id, [('elem',)], self.fn_template(g, depth + 1))]
                cur = cur[2][0]
                continue
            break
        return {'kind': 'iter', 'base': cur, 'chain': list(reversed(chain)), 'elem': elem, 'extra': extra}


def find_next(e):
    """the switch that drives a loop: the discriminant of Iterator::next's result itself (a match on the element is a
    condition like any other)"""
    if e[0] == 'discr':
        x = strip(e[1])
        return x[0] == 'call' and x[3].endswith('Iterator::next')
    return False


def _first_use_after(f, l, block):
    return block


# ---------------------------------------------------------------------------------------------
# flattening for pattern matching and concretisation
class Flat:
    def __init__(self):
        self.holes = []        # (id, expr, ty, context)
        self.reps = []
        self.opts = []
        self.alts = []
        self.opaque = []

    def flat(self, nodes, ctx=''):
        out = []
        for n in nodes:
            k = n[0]
            if k == 'tok':
                out.append(n[1])
            elif k == 'group':
                d = DELIM.get(n[1], '??')
                out.append((d[0] if d else '⟦') + ' ' + self.flat(n[2], ctx) + ' ' + (d[1] if d else '⟧'))
            elif k == 'hole':
                i = len(self.holes)
                self.holes.append((i, n[1], n[2], ctx))
                out.append('⟨H%d⟩' % i)
            elif k == 'elem':
                i = len(self.holes)
                info = n[3] if len(n) > 3 else None
                if info and info.get('kind') == 'iter' and info.get('elem') is not None:
                    body = self.flat(info['elem'], ctx + '/elem')
                    for k_, ex in enumerate(info.get('extra') or []):
                        body += ' ⊕THEN-ONCE%d( %s )' % (k_, self.flat(ex, ctx + '/once%d' % k_))
                    out.append('⟨E%d:' % i + body + '⟩')
                    self.holes.append((i, ('elem',), 'stream', ctx))
                elif info and info.get('kind') == 'vec':
                    parts = []
                    for c_, v in info['vec'][1]:
                        parts.append(self.flat(v, ctx + '/vec'))
                    out.append('⟨V%d:' % i + ' | '.join(parts) + '⟩')
                    self.holes.append((i, ('vec', info['vec']), 'vec', ctx))
                else:
                    self.holes.append((i, ('elem', info), n[2], ctx))
                    out.append('⟨L%d⟩' % i)
            elif k == 'rep':
                i = len(self.reps)
                self.reps.append((i, n[1], n[2], n[4] if len(n) > 4 else None, ctx))
                out.append('REP%d( %s )%s*' % (i, self.flat(n[3], ctx + '/rep%d' % i), n[2] or ''))
            elif k == 'opt':
                i = len(self.opts)
                self.opts.append((i, n[1], ctx))
                out.append('OPT%d[ %s ]' % (i, self.flat(n[2], ctx + '/opt%d' % i)))
            elif k == 'alt':
                arms = prune_alt(n[1])
                if len(arms) == 1:
                    out.append(self.flat(arms[0][1], ctx))
                    continue
                i = len(self.alts)
                self.alts.append((i, [a[0] for a in arms], ctx, [a[2] if len(a) > 2 else [] for a in arms]))
                out.append('ALT%d{ %s }' % (i, ' || '.join(self.flat(a[1], ctx + '/alt%d.%d' % (i, j)) for j, a in enumerate(arms))))
            elif k == 'call':
                out.append(self.flat(n[3], ctx + '/' + short(n[1])))
            elif k == 'vec':
                out.append('VEC{ %s }' % ' | '.join(self.flat(v, ctx + '/vec') for c_, v in n[1]))
            elif k == 'opaque':
                self.opaque.append((n[1], ctx))
                out.append('⟨OPAQUE⟩')
            elif k == 'seq':
                out.append(self.flat(n[1], ctx))
        return ' '.join(x for x in out if x != '')


def prune_alt(arms):
    """drop alternatives whose branch condition became a constant that contradicts the edge (constant propagation of
    literal arguments such as doc_to_tokens(false, ..))"""
    keep = []
    for a in arms:
        conds = a[2] if len(a) > 2 else []
        dead = False
        for c, lab in conds:
            c = strip(c)
            if c[0] == 'int' and c[2] == 'bool' and lab in (True, False) and bool(c[1]) != lab:
                dead = True
            if c[0] == 'un' and c[1] == 'Not' and strip(c[2])[0] == 'int' and lab in (True, False) and (not bool(strip(c[2])[1])) != lab:
                dead = True
        if not dead:
            keep.append(a)
    return keep or list(arms)


def template_of(prog, fn_suffix, R=None):
    R = R or Resolver(prog)
    f = prog.fn(fn_suffix)
    t = R.fn_template(f)
    fl = Flat()
    s = fl.flat(t)
    return f, t, fl, s
