"""r_vftable — vftable slot assignment, vftable struct construction, inheritance (C04, C06, C07, C16, C14, C17, C20)."""
import re
from mirlib import *
from guards import *
from r_panic import cycle_without, agg_sites

FUNCTION = 'semantic::function::Function'


def fmt_str(e):
    """the format-string bytes of a format!() expression, pieces only"""
    for x in walk(e):
        if isinstance(x, tuple) and x[0] == 'const' and x[1].startswith('b"'):
            return x[1]
    return None


def run(ctx):
    P = ctx.prog
    cgf = [f for f in P.fns.values() if f.kind != 'Closure' and any('[grammar::Function]' in t for t in f.raw.get('inputs', []))
           and ('std::vec::Vec<%s>' % FUNCTION) in f.raw.get('output', '')]
    if len(cgf) != 1:
        ctx.fail_closed(['C04', 'C20'], 'R-ANCHOR', 'CGF', 'expected one function from &[grammar::Function] to Vec<Function>, found %s' % [f.id for f in cgf])
    else:
        slots(ctx, cgf[0])
        slot_source(ctx, cgf[0])
    vb = [f for f in P.fns.values() if f.kind != 'Closure' and re.match(r'^std::result::Result<\(std::option::Option<[\w:]*TypeVftable>, std::option::Option<[\w:]*Region>\), ', f.raw.get('output', ''))]
    if len(vb) != 1:
        ctx.fail_closed(['C06', 'C14'], 'R-ANCHOR', 'VB', 'expected one function returning Result<(Option<TypeVftable>, Option<Region>)>, found %s' % [f.id for f in vb])
    else:
        inherit(ctx, vb[0])
    vtype(ctx)
    inject(ctx)
    hierarchy(ctx)


# ------------------------------------------------------------------------------------------------
def slot_source(ctx, cgf):
    """C04: the slot list of a type with a vftable block is always the slot builder's result for that block: every value of
    the Option that is handed on as the type's own vftable functions is None (no block) or Some(builder(.., the block's
    #[size], the block's functions)); no path substitutes another list (e.g. an empty one for an empty block)"""
    P = ctx.prog
    callers = [(g, c) for g in P.fns.values() if not g.raw.get('derived') for c in g.calls(lambda r: r['path'] == cgf.id)]
    if len(callers) != 1:
        ctx.fail_closed(['C04'], 'R-SLP', 'CGF|call-site', 'expected one call of the slot builder, found %d' % len(callers), loc(cgf.span))
        return
    g, c = callers[0]
    where = loc(c['span'])
    args = [g.expr_of_operand(a) for a in c['term']['args']]
    # which parameter is the size, which the function list
    ins = [re.sub(r"'\w+ ", '', t) for t in cgf.raw.get('inputs', [])]
    try:
        isz, ifn = ins.index('std::option::Option<usize>'), [i for i, t in enumerate(ins) if '[grammar::Function]' in t][0]
    except (ValueError, IndexError):
        ctx.fail_closed(['C04'], 'R-SLP', 'CGF|call-site', 'slot builder signature not recognised', where)
        return
    fnarg = args[ifn]
    x_ = strip(fnarg)
    while x_[0] == 'call' and x_[2] and re.search(r'(::deref|::as_slice|::as_ref|::borrow)$', x_[1]):
        x_ = strip(x_[2][0])
    while x_[0] == 'field':
        x_ = strip(x_[1])
    okfn = x_[0] == 'payload' and x_[2] == 'Vftable'
    sz = strip(args[isz])
    oksz = False
    if sz[0] == 'var':
        ds = [strip(d) for d in g.init_of(sz[1])]
        lits = [d for d in ds if d[0] == 'agg' and d[1].endswith('Option::Some') and any(isinstance(x, tuple) and x[0] == 'payload' and x[2] == 'IntLiteral' for x in walk(d))]
        nones = [d for d in ds if d[0] == 'agg' and d[1].endswith('Option::None')]
        strs = {op.get('str') for bi in g.normal_blocks() for op in g.block_operands(bi) if op.get('k') == 'Const' and 'str' in op}
        oksz = len(ds) == 2 and len(lits) == 1 and len(nones) == 1 and 'size' in strs
    ctx.ob(['C04'], 'R-SLP', 'CGF|call-arguments', bool(okfn and oksz),
           'the slot builder is called with the vftable block\'s own function list (whole) and the block\'s own #[size] literal (None when absent): %s / %s' % (show(fnarg)[:80], show(sz)[:40]), where)
    # the Option handed on
    dest = c['term']['dest']['local']
    holder = None
    for l, ds in g.defs().items():
        if g.local_ty(l).startswith('std::option::Option<std::vec::Vec<%s>' % FUNCTION) and l in g.names:
            es = [strip(g.expr_of_def(d)) for d in ds]
            if any(any(is_call(x, cgf.id.split('::')[-1]) for x in walk(e)) for e in es):
                holder = (l, es)
    def peel(e):
        e = unwrap_all(e)
        while e[0] == 'call' and e[2] and (e[3].endswith('Context::with_context') or e[3].endswith('Context::context') or e[1].endswith('::map_err')):
            e = unwrap_all(e[2][0])
        return e
    okh = False
    det = 'no Option<Vec<Function>> local receives the builder result'
    if holder:
        l, es = holder
        det = [show(e)[:70] for e in es]
        okh = all((e[0] == 'agg' and e[1].endswith('Option::None')) or
                  (e[0] == 'agg' and e[1].endswith('Option::Some') and is_call(peel(e[2][0][1]), cgf.id.split('::')[-1])) or
                  (is_call(peel(e), cgf.id.split('::')[-1]))
                  for e in es)
    ctx.ob(['C04', 'C06'], 'R-SLP', 'CGF|only-source-of-slots', okh,
           'the type\'s own slot list is None or exactly the slot builder\'s result on every path (no other list is substituted): %s' % det, where)


def slots(ctx, cgf):
    P = ctx.prog
    where = loc(cgf.span)
    mpfs = [P.fns[c] for c in P.callees(cgf.id, kinds=('call',)) if P.fns[c].raw.get('inputs') and P.fns[c].raw['inputs'][0] == '&mut std::vec::Vec<%s>' % FUNCTION]
    if len(mpfs) != 1:
        ctx.fail_closed(['C04', 'C20'], 'R-ANCHOR', 'MPF', 'expected one padding helper (&mut Vec<Function>, usize), found %s' % [f.id for f in mpfs], where)
        return
    mpf = mpfs[0]
    pushes = [c for c in cgf.calls(lambda r: r['path'] and r['path'].endswith('Vec::<T, A>::push')) if cgf.local_ty(strip(cgf.expr_of_operand(c['term']['args'][0]))[1]) .endswith('Vec<%s>' % FUNCTION)]
    pads = [c for c in cgf.calls(lambda r: r['path'] == mpf.id)]
    ok = len(pushes) == 1 and len(pads) == 2
    ctx.ob(['C04', 'C20'], 'R-DOM', 'CGF|sites', ok, 'slot builder has one push of the built function and two padding calls (index, size): %d / %d' % (len(pushes), len(pads)), where)
    if not ok:
        return
    pb = pushes[0]
    L = innermost_loop(cgf, pb['block'])
    if not L:
        ctx.fail_closed(['C04'], 'R-DOM', 'CGF|loop', 'function push is not in a loop', where)
        return
    h, body, latches = L
    sty, src = loop_source(cgf, L)
    unad = sty and re.match(r"^std::slice::Iter<'_, grammar::Function>$", sty) and strip(strip(src)[2][0])[0] == 'arg'
    ctx.ob(['C04', 'C14', 'C06'], 'R-ITER', 'CGF|all-functions-in-order', bool(unad) and not cycle_without(cgf, body, h, {pb['block']}),
           'every declared virtual function is built and pushed, in declaration order (iterator %s)' % sty, loc(pb['span']))
    pushed = cgf.expr_of_operand(pb['term']['args'][1])
    fb = find_calls(pushed, 'function::build')
    okb = bool(fb) and fb[0][2][2] == ('int', 1, 'bool') and any(is_call(x, 'Iterator::next') for x in walk(fb[0][2][3]))
    ctx.ob(['C04', 'C20', 'C17'], 'R-EXPR', 'CGF|pushes-built-function', okb, 'the pushed value is function::build(.., is_vfunc = true, current declaration): %s' % show(pushed)[:160], loc(pb['span']))
    inloop = [c for c in pads if c['block'] in body]
    after = [c for c in pads if c['block'] not in body]
    ok = len(inloop) == 1 and len(after) == 1
    ctx.ob(['C04', 'C20'], 'R-DOM', 'CGF|padding-sites', ok, 'one padding call per declared function (index) and one after the loop (declared table size)', where)
    if not ok:
        return
    ic, ac = inloop[0], after[0]
    tgt = cgf.expr_of_operand(ic['term']['args'][1])
    # the target is the #[index(N)] literal
    idx_var = [x for x in walk(tgt) if isinstance(x, tuple) and x[0] == 'var']
    lit_ok = False
    det = show(tgt)
    if idx_var:
        defs = cgf.init_of(idx_var[0][1])
        det = [show(d)[:140] for d in defs]
        lit_ok = any(any(isinstance(x, tuple) and x[0] == 'payload' and x[2] == 'IntLiteral' for x in walk(d)) for d in defs) and \
            any(d[0] == 'agg' and d[1].endswith('Option::None') for d in defs)
        strs = [op.get('str') for bi in body for op in cgf.block_operands(bi) if op.get('k') == 'Const' and 'str' in op]
        lit_ok = lit_ok and 'index' in strs
    ctx.ob(['C04', 'C20'], 'R-EXPR', 'CGF|pad-to-declared-index', lit_ok, 'inside the loop the table is padded up to the value of the `index` attribute (reset to None for every function): %s' % det, loc(ic['span']))
    before = pb['block'] in cgf.reach(ic['block'], stop={h}) and ic['block'] not in cgf.reach(pb['block'], stop={h})
    ctx.ob(['C04'], 'R-DOM', 'CGF|padding-before-function', before, 'the padding up to index i is inserted before the function itself is pushed (so the function lands in slot i)', loc(ic['span']))
    sz = strip(unwrap_all(cgf.expr_of_operand(ac['term']['args'][1])))
    ctx.ob(['C04'], 'R-EXPR', 'CGF|pad-to-declared-size', sz[0] == 'arg' and cgf.local_ty(sz[1]) == 'std::option::Option<usize>' and all(ac['block'] not in body for _ in [0]),
           'after the last function the table is padded to the declared size parameter: %s' % show(sz), loc(ac['span']))
    # G16 contradictions rejected
    gs = guards_of(cgf) + guards_of(mpf)
    g16 = [g for g in gs if g.kind == 'reject' and cmp_parts(g.pred) and find_calls(g.pred, '::len')]
    ctx.ob(['C04'], 'R-GUARD', 'G16|contradicting-index-or-size-rejected', len(g16) >= 2,
           'an index or table size smaller than the number of slots already assigned must be rejected (index < len ⇒ Err, size < len ⇒ Err); found %d such tests%s' % (
               len(g16), '' if len(g16) >= 2 else ' — the contradiction is absorbed silently (saturating_sub)'), where)
    # MPF
    mw = loc(mpf.span)
    mp = [c for c in mpf.calls(lambda r: r['path'] and r['path'].endswith('Vec::<T, A>::push'))]
    ML = mpf.loops()
    ok = len(mp) == 1 and len(ML) == 1
    ctx.ob(['C04', 'C20'], 'R-DOM', 'MPF|shape', ok, 'padding helper: one loop with one push', mw)
    if not ok:
        return
    (mh, mbody, _) = ML[0]
    sty, src = loop_source(mpf, ML[0])
    rng = [x for x in walk(src) if isinstance(x, tuple) and x[0] == 'agg' and x[1].endswith('ops::Range')]
    okr = False
    det = show(src)[:200]
    if sty == 'std::ops::Range<usize>' and rng:
        fl = dict(rng[0][2])
        end = strip(fl.get('end'))
        start = fl.get('start')
        okc = (is_call(end, 'saturating_sub') or is_call(end, 'checked_sub') or (end[0] == 'bin' and end[1] == 'Sub'))
        if okc:
            a, b = (end[2][0], end[2][1]) if end[0] == 'call' else (end[2], end[3])
            okc = strip(a)[0] == 'arg' and is_call(strip(b), 'Vec::<T, A>::len')
        okr = is_int(start, 0) and okc
        if not okr:
            # `for slot in output.len()..target`: as many trips as target exceeds the current length (none if it does not)
            st_, en_ = strip(start), strip(fl.get('end'))
            okr = is_call(st_, 'Vec::<T, A>::len') and strip(st_[2][0])[0] == 'arg' and en_[0] == 'arg' and \
                mpf.dominates(0, mh) and not any(c_['block'] not in mbody and mpf.dominates(c_['block'], mh) and c_['path'].endswith('Vec::<T, A>::push') for c_ in mpf.calls(lambda r: r['path']))
    okcount = okr and not cycle_without(mpf, mbody, mh, {mp[0]['block']})
    if not okcount:
        # equivalent form: while output.len() < target { push }
        from r_panic import len_bounded_push_loop
        r_ = len_bounded_push_loop(mpf, {'header': mh, 'body': mbody}, strict_only=True)
        if r_[0]:
            op, v, b, ps = r_[2]
            okcount = strip(b)[0] == 'arg' and strip(v)[0] == 'arg' and len(ps) == 1
            det = 'while len(output) < target { push }'
    ctx.ob(['C04', 'C20'], 'R-EXPR', 'E3|placeholder-count', okcount,
           'exactly target − len(output) placeholders are pushed (half-open Range from 0, one unconditional push per iteration): %s' % det, mw)
    fe = mpf.expr_of_operand(mp[0]['term']['args'][1])
    if fe[0] != 'agg':
        fe = strip(simplify(expand(mpf, fe)))       # the same value built with Function::new(..).with_*(..)
    okf = False
    if fe[0] == 'agg' and fe[1] == FUNCTION:
        fl = dict(fe[2])
        nm, body_ = fl['name'], fl['body']
        fs1, fs2 = fmt_str(nm), fmt_str(body_)
        okf = (fl['visibility'][0] == 'agg' and fl['visibility'][1].endswith('Visibility::Private') and fl['calling_convention'][1].endswith('CallingConvention::Thiscall')
               and body_[0] == 'agg' and body_[1].endswith('FunctionBody::Vftable') and fs1 is not None and fs1 == fs2 and '_vfunc_' in fs1
               and find_calls(nm, 'Vec::<T, A>::len') and fl['doc'][1].endswith('Option::None') and fl['return_type'][1].endswith('Option::None'))
        okf = okf and any(True for _ in agg_in_fn(mpf, 'Argument::MutSelf'))
    ctx.ob(['C04', 'C16', 'C17'], 'R-SLP', 'MPF|placeholder-literal', bool(okf),
           'placeholder slots are private thiscall functions named `_vfunc_<slot index>` (name and body agree, index = len(output)), receiver &mut self, no return: %s' % show(fe)[:200], loc(mp[0]['span']))


def agg_in_fn(f, suffix):
    for bi in f.normal_blocks():
        for st in f.blocks[bi]['stmts']:
            if st['k'] == 'Assign' and st['rv']['k'] == 'Aggregate' and st['rv'].get('agg') == 'Adt':
                nm = st['rv']['adt'] + ('::' + st['rv']['variant'] if st['rv'].get('is_enum') else '')
                if nm.endswith(suffix):
                    yield st


# ------------------------------------------------------------------------------------------------
def inherit(ctx, vb):
    P = ctx.prog
    where = loc(vb.span)
    gs = guards_of(vb) + lifted_guards(vb)
    # G11 prefix comparison
    glen = [g for g in gs if g.kind == 'reject' and cmp_parts(g.pred) and len(find_calls(g.pred, '::len')) == 2]
    okl = False
    if len(glen) == 1:
        op, a, b = cmp_parts(glen[0].pred)
        # derived < base  (strict)
        da = any(isinstance(x, tuple) and x[0] == 'arg' for x in walk(a))
        db = any(isinstance(x, tuple) and x[0] == 'arg' for x in walk(b)) and not find_calls(b, 'get_optional_region_name_and_vftable') and not find_calls(b, 'get_region_name')
        base_a = bool(find_calls(a, 'region_name_and_vftable'))
        base_b = bool(find_calls(b, 'region_name_and_vftable'))
        okl = (op == 'Lt' and not base_a and base_b) or (op == 'Gt' and base_a and not base_b)
        # the two lengths themselves are compared (no `+ 1`, no `saturating_sub`, no `min`)
        from r_panic import is_len_of
        okl = okl and is_len_of(expand(glen[0].fn, a)) is not None and is_len_of(expand(glen[0].fn, b)) is not None
    ctx.ob(['C06'], 'R-GUARD', 'G11|derived-not-shorter', okl, 'len(derived vftable) < len(base vftable) ⇒ Err: %s' % [show(g.pred)[:160] for g in glen], glen[0].where() if glen else where)
    gne = [g for g in gs if g.kind == 'reject' and g.pred[0] == 'call' and re.search(r'PartialEq.*::(ne|eq)$|cmp::impls::.*::(ne|eq)$|::ne$', g.pred[1] + g.pred[3])]
    gne += [g for g in gs if g.kind == 'reject' and g.pred[0] == 'un' and g.pred[2][0] == 'call' and re.search(r'::eq$', g.pred[2][1])]
    okn = False
    det = ''
    # search form: `zip(base, derived)[.enumerate()].find(|..| b != d)` is Some ⇒ Err (equivalently position / any)
    gsearch = []
    for g in gs:
        if g.kind != 'reject':
            continue
        X = None
        if g.pred[0] == 'is_some':
            X = strip(expand(g.fn, g.pred[1])) if not getattr(g, 'lifted_from', None) else strip(g.pred[1])
            if not (is_call(X, 'Iterator::find') or is_call(X, 'Iterator::position')):
                X = None
        elif is_call(g.pred, 'Iterator::any'):
            X = g.pred
        if X is not None and len(X[2]) == 2:
            gsearch.append((g, X))
    if not gne and len(gsearch) == 1:
        g, X = gsearch[0]
        it = strip(X[2][0])
        if it[0] == 'var' and not getattr(g, 'lifted_from', None):
            it = strip(expand(g.fn, it))
        while is_call(it, 'into_iter') or is_call(it, 'Iterator::enumerate'):
            it = strip(it[2][0])
        zipped = is_call(it, 'Iterator::zip') and len(it[2]) == 2
        sides = False
        unad_iter = lambda z: all(re.search(r'(slice::<impl \[T\]>::iter|into_iter|deref|Vec::<T, A>::iter|as_slice)$', c_[1]) for c_ in calls_in(z) if not c_[1].endswith('region_name_and_vftable') and c_[3] != TRY_BRANCH and 'branch' not in c_[1])
        if zipped:
            a, b = it[2]
            unad = lambda z: all(re.search(r'(slice::<impl \[T\]>::iter|into_iter|deref|Vec::<T, A>::iter|as_slice)$', c_[1]) for c_ in calls_in(z) if not c_[1].endswith('region_name_and_vftable') and c_[3] != TRY_BRANCH and 'branch' not in c_[1])
            base_a, base_b = bool(find_calls(a, 'region_name_and_vftable')), bool(find_calls(b, 'region_name_and_vftable'))
            sides = base_a != base_b
        pf = predicate_fn(P, X[2][1])
        okty = False
        indexed = False
        if not zipped and pf is not None and is_call(strip(X[2][0]) if strip(X[2][0])[0] != 'var' else strip(expand(g.fn, X[2][0])), 'Iterator::enumerate'):
            # `base.iter().enumerate().find(|(i, b)| derived[*i] != **b)`: the other list indexed by the position (the length test
            # that precedes it keeps the index in range, see G11|derived-not-shorter)
            ex0 = [strip(x_['expr']) for x_ in pf.exits()]
            caps = X[2][1][2] if X[2][1][0] == 'closure' and len(X[2][1]) > 2 else []
            if len(ex0) == 1 and not pf.switches():
                c0 = ex0[0]
                ng0 = False
                while c0[0] == 'un' and c0[1] == 'Not':
                    c0, ng0 = strip(c0[2]), not ng0
                if c0[0] == 'call' and re.search(r'::(ne|eq)$', c0[1]) and len(c0[2]) == 2:
                    l_, r_ = strip(c0[2][0]), strip(c0[2][1])
                    if r_[0] == 'index':
                        l_, r_ = r_, l_
                    if l_[0] == 'index' and strip(l_[1])[0] == 'upvar' and strip(l_[1])[1] < len(caps) and strip(l_[2]) == ('field', ('arg', 2, '_2'), '0') and \
                            r_[:2] == ('field', ('arg', 2, '_2')) and r_[2] == '1':
                        other = strip(caps[strip(l_[1])[1]])
                        other_is_base = bool(find_calls(expand(g.fn, other), 'region_name_and_vftable'))
                        it_is_base = bool(find_calls(it, 'region_name_and_vftable'))
                        indexed = other_is_base != it_is_base and unad_iter(it)
                        zipped, sides = indexed, indexed
        if pf is not None:
            ex_ = [strip(x_['expr']) for x_ in pf.exits()]
            neg_ = False
            # `!(b == d)` is `b != d`
            while len(ex_) == 1 and ex_[0][0] == 'un' and ex_[0][1] == 'Not':
                ex_, neg_ = [strip(ex_[0][2])], not neg_
            okty = len(ex_) == 1 and ex_[0][0] == 'call' and bool(re.search(r'::eq$' if neg_ else r'::ne$', ex_[0][1])) and FUNCTION in ex_[0][4] and not pf.switches()
        okn = bool(zipped and sides and okty)
        det = 'search form %s over %s' % (short(X[1]), show(it)[:120])
        gne = [g]
    elif len(gne) == 1:
        g = gne[0]
        call = g.pred if g.pred[0] == 'call' else g.pred[2]
        full = call[4]
        okty = FUNCTION in full
        L = innermost_loop(vb, g.block)
        sty, src = loop_source(vb, L) if L else (None, None)
        det = '%s over %s' % (short(call[1]), sty)
        zipped = sty and re.match(r"^std::iter::Enumerate<std::iter::Zip<std::slice::Iter<'_, %s>, std::slice::Iter<'_, %s>>>$|^std::iter::Zip<std::slice::Iter<'_, %s>, std::slice::Iter<'_, %s>>$" % ((re.escape(FUNCTION),) * 4), sty)
        every = bool(L) and not cycle_without(vb, L[1], L[0], {g.block})
        a, b = call[2][0], call[2][1]
        sides = any(x[0] == 'payload' and x[2] == 'Some' for x in walk(a) if isinstance(x, tuple)) and any(x[0] == 'payload' for x in walk(b) if isinstance(x, tuple))
        okn = bool(okty and zipped and every and sides)
        if not okn and okty and every and sty == 'std::ops::Range<usize>':
            # `for i in 0..base.len() { if base[i] != derived[i] { bail } }`: one index for both sides, running over the whole base table
            rng = None
            for x in walk(expand(vb, src)):
                if isinstance(x, tuple) and x and x[0] == 'agg' and re.search(r'ops::(range::)?Range$', x[1]) and len(x[2]) == 2:
                    rng = dict(x[2])
            def idx_parts(e):
                e = strip(expand(vb, e))
                while e[0] == 'call' and e[2] and re.search(r'(Deref>::deref|::borrow|::as_ref)$', e[1]):
                    e = strip(e[2][0])
                if e[0] == 'index':
                    return strip(e[1]), strip(e[2])
                if e[0] == 'call' and re.search(r'Index<.*>>::index$', e[1]) and len(e[2]) == 2:
                    return strip(e[2][0]), strip(e[2][1])
                return None, None
            la, ia = idx_parts(a)
            lb2, ib = idx_parts(b)
            if rng is not None and la is not None and lb2 is not None and ia == ib and ia[0] == 'payload' and ia[2] == 'Some' and is_call(strip(ia[1]), 'next'):
                from r_panic import is_len_of
                end_len = is_len_of(expand(vb, rng.get('end')))
                norm_ = lambda z: (strip(z[2][0]) if (z is not None and z[0] == 'call' and z[2] and re.search(r'(::deref|::as_slice)$', z[1])) else z)
                a_base = bool(find_calls(expand(vb, la), 'region_name_and_vftable'))
                b_base = bool(find_calls(expand(vb, lb2), 'region_name_and_vftable'))
                base_list = la if a_base else lb2
                whole = strip(rng.get('start', ('x',)))[:2] == ('int', 0) and end_len is not None and norm_(norm_(strip(end_len))) == norm_(norm_(base_list))
                okn = bool(a_base != b_base and whole)
                det += ' (indexed over 0..len(base): %s)' % okn
    # both tests are made against the table of the first base itself: the value the lookup of the first base returned, projected,
    # with nothing substituted for it (the table of "the class that stores the pointer" is a different, shorter table)
    srcs_bad = []
    nsrc = 0
    for g in gs:
        if g.kind != 'reject':
            continue
        st_ = show(g.pred)
        if not ((cmp_parts(g.pred) and len(find_calls(g.pred, '::len')) == 2) or g in gne or any(g is g2 for g2, _x in gsearch)):
            continue
        nsrc += 1
        e_ = expand(g.fn, g.pred) if not getattr(g, 'lifted_from', None) else g.pred
        for x in walk(e_):
            if isinstance(x, tuple) and x and x[0] == 'call':
                if x[1] in P.fns and not re.search(r'get_optional_region_name_and_vftable$|get_region_name_and_type_definition$|convert_grammar_functions_to_semantic_functions$', x[1]) and \
                        P.fns[x[1]].kind != 'Closure':
                    srcs_bad.append(short(x[1]))
                if re.search(r'Option::<T>::(unwrap_or\w*|or|or_else|map_or\w*|xor|filter|take|replace|get_or_insert\w*)$', x[1]):
                    srcs_bad.append(short(x[1]))
    ctx.ob(['C06'], 'R-GUARD', 'G11|against-the-first-base-table', nsrc >= 2 and not srcs_bad,
           'the length test and the slot comparison use the table that the lookup of the first base returned, nothing substituted for it (%d tests): %s' % (nsrc, sorted(set(srcs_bad))[:3]), where)
    ctx.ob(['C06', 'C16', 'C04'], 'R-GUARD', 'G11|prefix-equal', okn, 'every base slot is compared for inequality with the derived slot in the same position (zip of both lists, unadapted, every iteration) ⇒ Err: %s' % det, gne[0].where() if gne else where)
    # the comparison is the derived PartialEq of Function, whose struct carries the four fields
    adt = P.adts.get(FUNCTION)
    eqimpl = [i for i in P.impls if i['self_ty'] == FUNCTION and i.get('trait', '').startswith('std::cmp::PartialEq')]
    fields = [f['name'] for f in adt['variants'][0]['fields']] if adt else []
    need = {'name', 'arguments', 'return_type', 'calling_convention'}
    ctx.ob(['C06', 'C16'], 'R-TABLE', 'G11|function-equality-is-structural', len(eqimpl) == 1 and eqimpl[0]['derived'] and need <= set(fields),
           'Function: PartialEq is #[derive]d (compares every field) and the struct has name, arguments, return_type, calling_convention: fields %s' % fields, where)
    # D2: shape of the four outcomes
    outs = []
    for x in vb.exits():
        if x['kind'] != 'ok':
            continue
        # values merged from several arms (a match that yields the two components) are split into one outcome per arm
        for val in split_values(vb, x['expr']):
            t = val[2][0][1]
            if t[0] != 'tuple' or len(t[1]) != 2:
                outs.append((x, ('agg', '?', []), t))
                continue
            # (values built with the crate's own constructors — Region::field(..) — are literals after constructor evaluation)
            t = ('tuple', [strip(simplify(expand(vb, y_))) for y_ in t[1]])
            if not any(o[1] == t[1][0] and o[2] == t[1][1] for o in outs):
                outs.append((x, t[1][0], t[1][1]))
    kinds = {}
    for x, v, r in outs:
        if v[0] == 'agg' and v[1].endswith('Option::None'):
            kinds.setdefault('none', []).append((x, v, r))
            continue
        if not (v[0] == 'agg' and v[1].endswith('Option::Some') and v[2] and v[2][0][1][0] == 'agg' and v[2][0][1][1].endswith('TypeVftable')):
            kinds.setdefault('undecided', []).append((x, v, r))
            continue
        tv = dict(v[2][0][1][2])
        bf = tv['base_field']
        own = strip(tv['functions'])
        own_block = any(x_[0] == 'arg' for x_ in walk(own) if isinstance(x_, tuple)) and not find_calls(own, 'region_name_and_vftable')
        k = ('own' if own_block else 'inherited') + ('+base' if bf[1].endswith('Option::Some') else '+nobase')
        kinds.setdefault(k, []).append((x, tv, r))
    ok_shape = all(len(kinds.get(k, [])) == 1 for k in ('own+base', 'own+nobase', 'inherited+base')) and 'inherited+nobase' not in kinds and 'undecided' not in kinds
    ctx.ob(['C06'], 'R-SLP', 'VB|outcomes', ok_shape, 'vftable::build has exactly the outcomes own+base, own+no-base, inherited+base and none: %s' % {k: len(v) for k, v in kinds.items()}, where)
    if ok_shape:
        x, tv, r = kinds['own+base'][0]
        ok1 = r[1].endswith('Option::None') and bool(find_calls(tv['base_field'], 'region_name_and_vftable'))
        ctx.ob(['C06'], 'R-SLP', 'VB|own+base', ok1, 'with a base vftable the derived type gets no pointer field of its own and records the base field name', loc(x['span']))
        ptr = tv['type_']
        okp = ptr[0] == 'agg' and ptr[1].endswith('Type::ConstPointer') and bool(find_calls(ptr, 'vftable::build_type') or find_calls(ptr, 'build_type'))
        ctx.ob(['C06', 'C04'], 'R-SLP', 'VB|pointer-type', okp, 'the accessor type is *const <generated vftable struct path>: %s' % show(ptr)[:160], loc(x['span']))
        x, tv, r = kinds['own+nobase'][0]
        ok2 = False
        if r[1].endswith('Option::Some'):
            reg = dict(r[2][0][1][2])
            ok2 = (reg['visibility'][1].endswith('Visibility::Private') and reg['is_base'] == ('int', 0, 'bool') and reg['doc'][1].endswith('Option::None')
                   and any(isinstance(y, tuple) and y == ('str', 'vftable') for y in walk(reg['name'])) and strip(reg['type_ref']) == strip(tv['type_'])
                   and tv['base_field'][1].endswith('Option::None'))
        ctx.ob(['C06', 'C17', 'C04'], 'R-SLP', 'VB|own+nobase', ok2, 'without a base vftable a private, undocumented `vftable` field of exactly the accessor type is returned for offset 0', loc(x['span']))
        x, tv, r = kinds['inherited+base'][0]
        base = lambda e: bool(find_calls(e, 'region_name_and_vftable'))
        ok3 = r[1].endswith('Option::None') and base(tv['functions']) and base(tv['type_']) and base(tv['base_field']) and \
            strip(tv['functions'])[0] == 'field' and strip(tv['functions'])[2] == 'functions' and strip(tv['type_'])[2] == 'type_'
        ctx.ob(['C06', 'C04', 'C16'], 'R-SLP', 'VB|inherited', ok3, 'without an own block the functions and table type are the base\'s, the pointer is the base\'s', loc(x['span']))
    # the own-block outcomes are chosen by the presence of a vftable block alone (Some/None of the parameter), never by whether the
    # block lists any function: an empty `vftable {}` still declares a table (its struct is generated, its pointer field exists)
    vfp = [i for i in range(1, vb.nargs + 1) if vb.local_ty(i).startswith('std::option::Option<std::vec::Vec<%s' % FUNCTION)]
    okp = False
    detp = 'vftable-functions parameter not found'
    if len(vfp) == 1:
        A_ = ('arg', vfp[0], vb.names.get(vfp[0], '_%d' % vfp[0]))
        mentions = lambda e_: any(isinstance(y, tuple) and y[:2] == A_[:2] for y in walk(e_))
        bad_ = []
        tested = False
        for s_ in vb.switches():
            c_ = expand(vb, s_['cond'])
            if not mentions(c_):
                continue
            cc_ = strip(c_)
            while cc_[0] == 'un' and cc_[1] == 'Not':
                cc_ = strip(cc_[2])
            if (cc_[0] == 'discr' and strip(cc_[1])[:2] == A_[:2]) or ((is_call(cc_, 'Option::<T>::is_some') or is_call(cc_, 'Option::<T>::is_none')) and strip(cc_[2][0])[:2] == A_[:2]):
                tested = True
                continue
            def rooted(x):
                x = strip(x)
                while True:
                    if x[0] in ('try',) or (x[0] == 'payload' and x[2] in ('Some',)):
                        x = strip(x[1])
                    elif x[0] == 'call' and x[2] and re.search(r'(::deref|::as_slice|::as_ref|::as_deref|::borrow|Option::<T>::unwrap\w*|::iter|::clone)$', x[1]):
                        x = strip(x[2][0])
                    else:
                        return x[:2] == A_[:2]
            # a test on the *contents* of the declared list: emptiness, a length compared with a constant, first/last
            content = False
            if cc_[0] == 'call' and re.search(r'::(is_empty|first|last|contains|any|all)$', cc_[1]) and cc_[2] and rooted(cc_[2][0]):
                content = True
            cp_ = cmp_parts(cc_)
            if cp_:
                for u_, w_ in ((cp_[1], cp_[2]), (cp_[2], cp_[1])):
                    if is_call(strip(u_), '::len') and rooted(strip(u_)[2][0]) and strip(w_)[0] == 'int':
                        content = True
            if content:
                bad_.append(show(cc_)[:80])
        for c_ in vb.calls(lambda r: r['path'] and re.search(r'Option::<T>::(unwrap_or_default|unwrap_or|unwrap_or_else|map_or|map_or_else|is_some_and|filter)$', r['path'])):
            if strip(vb.expr_of_operand(c_['term']['args'][0]))[:2] == A_[:2]:
                bad_.append(short(c_['path']) + ' on the parameter')
        okp = tested and not bad_
        detp = 'decided by Some/None of the parameter: %s; other tests on it: %s' % (tested, bad_)
    ctx.ob(['C06', 'C04', 'C14', 'C01'], 'R-GUARD', 'VB|own-block-iff-declared', okp,
           'whether a type has its own vftable is decided by the presence of a vftable block only, not by its contents: %s' % detp, where)
    # D3 (C14-D4): the generated vftable item is registered on every successful own-block path
    ai = [c for c in vb.calls(lambda r: r['path'] and r['path'].endswith('SemanticState::add_item'))]
    okd3 = False
    if len(ai) == 1 and ok_shape:
        okd3 = all(unreachable_without(vb, kinds[k][0][0]['block'], {ai[0]['block']}) for k in ('own+base', 'own+nobase'))
        arg = vb.expr_of_operand(ai[0]['term']['args'][1])
        okd3 = okd3 and bool(find_calls(arg, 'build_type'))
        propagated = any(g.kind == 'reject' and g.pred[0] == 'fails' and find_calls(g.pred, 'add_item') for g in gs)
        okd3 = okd3 and propagated
    ctx.ob(['C14', 'C04'], 'R-DOM', 'D3|vftable-item-registered', okd3, 'add_item(generated vftable struct) lies on every path to both own-block outcomes and its error is propagated', ai[0]['span'] and loc(ai[0]['span']) if ai else where)


# ------------------------------------------------------------------------------------------------
def vtype(ctx):
    P = ctx.prog
    bt = [f for f in P.fns.values() if f.kind != 'Closure' and f.raw.get('output', '').endswith('Option<semantic::types::ItemDefinition>') and any('[%s]' % FUNCTION in t for t in f.raw.get('inputs', []))]
    if len(bt) != 1:
        ctx.fail_closed(['C04', 'C02'], 'R-ANCHOR', 'VBT', 'expected one function from &[Function] to Option<ItemDefinition>, found %s' % [f.id for f in bt])
        return
    bt = bt[0]
    where = loc(bt.span)
    some = [x for x in bt.exits() if x['kind'] == 'some']
    if len(some) != 1:
        ctx.fail_closed(['C04', 'C02'], 'R-ANCHOR', 'VBT|exit', 'expected one Some(ItemDefinition{..})', where)
        return
    # the item is produced for every function list (also an empty one): the only ways to None are a path without last/parent segment
    nones = [x for x in bt.exits() if x['kind'] in ('none', 'none_prop', 'other', 'passthrough')]
    okn = all(x['kind'] == 'none_prop' and (find_calls(x['expr'], 'ItemPath::last') or find_calls(x['expr'], 'ItemPath::parent')) for x in nones)
    ctx.ob(['C06', 'C04', 'C14'], 'R-DOM', 'VBT|always-some', okn,
           'the vftable struct is generated for every declared vftable block, whatever its functions (None only for a path without name/parent): %s' % [(x['kind'], show(x['expr'])[:60]) for x in nones if x['kind'] != 'none_prop'], where)
    some_e = ctor_norm(P, some[0]['expr'])       # (ItemDefinition::defined_resolved(..) etc. are literals after constructor evaluation)
    idf = dict(some_e[2][0][1][2])
    isr = dict(strip(idf['state'])[2][0][1][2])
    td = None
    for x in walk(isr['inner']):
        if isinstance(x, tuple) and x[0] == 'agg' and x[1].endswith('type_definition::TypeDefinition'):
            td = dict(x[2])
    regs = strip(td['regions']) if td else None
    regs_var = regs
    lb = loop_built(bt, regs[1]) if regs and regs[0] == 'var' else None
    if lb and not lb['filtered']:
        regs = seq_chain(bt, regs)      # a push loop over the slice is the same sequence as iter().map().collect()
    okr = False
    clos = None
    if regs and is_call(regs, 'Iterator::collect') and is_call(regs[2][0], 'Iterator::map') and is_call(regs[2][0][2][0], 'slice::<impl [T]>::iter'):
        src = strip(regs[2][0][2][0][2][0])
        clos = regs[2][0][2][1]
        okr = src[0] == 'arg' and bt.local_ty(src[1]) == '&[%s]' % FUNCTION
    f2r = None
    if clos and clos[0] == 'loopbody':
        tg = [c_ for c_ in calls_in(clos[1]) if c_[1] in P.fns]
        if len(tg) == 1:
            f2r = P.fns[tg[0][1]]
            okr = okr and any(isinstance(x, tuple) and x[0] == 'payload' and x[2] == 'Some' and is_call(strip(x[1]), 'Iterator::next') for a_ in tg[0][2] for x in walk(a_))
    if clos and clos[0] == 'closure' and clos[1] in P.fns:
        cf = P.fns[clos[1]]
        tg = [c for c in cf.calls(lambda r: r['path'] in P.fns)]
        if len(tg) == 1:
            f2r = P.fns[tg[0]['path']]
            ce = cf.expr_of_call(tg[0]['term'])
            okr = okr and any(x[0] == 'arg' for x in walk(ce) if isinstance(x, tuple))
    ctx.ob(['C04', 'C14'], 'R-ITER', 'VBT|one-region-per-function', okr and f2r is not None,
           'the vftable struct has one region per function of the list, in list order (map over the unadapted slice): %s' % (show(regs)[:160] if regs else None), where)
    oks = is_call(isr['alignment'], 'pointer_size') and is_call(isr['size'], 'Iterator::sum') and any(strip(x) in (regs, regs_var) for x in walk(isr['size']))
    sz = strip(isr['size'])
    if not oks and is_call(isr['alignment'], 'pointer_size') and is_call(sz, 'Iterator::fold') and len(sz[2]) == 3:
        # regions.iter().fold(0, |total, r| total + r.size(..).unwrap())
        pf_ = predicate_fn(P, sz[2][2])
        ex_ = [strip(x_['expr']) for x_ in pf_.exits()] if pf_ is not None else []
        if len(ex_) == 1 and is_int(sz[2][1], 0) and any(strip(x_) in (regs, regs_var) for x_ in walk(sz[2][0])) and not pf_.switches():
            e_ = ex_[0]
            if e_[0] == 'bin' and e_[1] == 'Add':
                acc_, inc_ = strip(e_[2]), unwrap_all(e_[3])
                oks = acc_[0] == 'arg' and is_call(inc_, 'Region::size') and strip(inc_[2][0])[0] == 'arg' and strip(inc_[2][0])[1] != acc_[1] and \
                    not any(re.search(r'Iterator::(rev|skip|take|filter|step_by|map_while|scan|take_while|skip_while|fuse|cycle)$', c_[3]) for c_ in calls_in(sz[2][0]))
    if not oks and lb and sz[0] == 'var' and is_call(isr['alignment'], 'pointer_size'):
        # running total kept in the loop that builds the regions: starts at 0 and grows by the size of the region pushed in the same trip
        defs_ = bt.defs().get(sz[1], [])
        exprs_ = [(d_[0], bt.expr_of_def(d_)) for d_ in defs_]
        zero = [b_ for b_, e_ in exprs_ if is_int(e_, 0)]
        adds = [(b_, e_) for b_, e_ in exprs_ if e_[0] == 'bin' and e_[1] == 'Add' and strip(e_[2]) == sz]
        if len(defs_) == 2 and len(zero) == 1 and len(adds) == 1:
            b_, e_ = adds[0]
            h_, body_, _l = lb['loop']
            inc = unwrap_all(e_[3])
            same_region = is_call(inc, 'Region::size') and strip(inc[2][0]) == strip(lb['elem'])
            oks = b_ in body_ and not cycle_without(bt, body_, h_, {b_}) and same_region and not bt.dominates(h_, zero[0])
    if not oks and sz[0] == 'var' and is_call(isr['alignment'], 'pointer_size'):
        # a separate accumulation loop over the finished region list: `let mut size = 0; for r in &regions { size += r.size(..).unwrap() }`
        defs_ = bt.defs().get(sz[1], [])
        exprs_ = [(d_[0], bt.expr_of_def(d_)) for d_ in defs_]
        zero = [b_ for b_, e_ in exprs_ if is_int(e_, 0)]
        adds = [(b_, e_) for b_, e_ in exprs_ if e_[0] == 'bin' and e_[1] == 'Add' and strip(e_[2]) == sz]
        if len(defs_) == 2 and len(zero) == 1 and len(adds) == 1:
            b_, e_ = adds[0]
            L_ = innermost_loop(bt, b_)
            if L_:
                sty_, src_ = loop_source(bt, L_)
                inc = unwrap_all(e_[3])
                over = src_ is not None and any(strip(x_) in (regs, regs_var) for x_ in walk(expand(bt, src_))) and not any(
                    re.search(r'Iterator::(rev|skip|take|filter|step_by|map_while|scan|take_while|skip_while|fuse|cycle)$', c_[3]) for c_ in calls_in(expand(bt, src_)))
                el_ok = is_call(inc, 'Region::size') and any(is_call(y, 'Iterator::next') for y in walk(inc[2][0]))
                oks = bool(over and el_ok and not cycle_without(bt, L_[1], L_[0], {b_}) and not bt.dominates(L_[0], zero[0]))
    ctx.ob(['C02', 'C04'], 'R-SLP', 'VBT|size-and-alignment', bool(oks), 'vftable struct: alignment = pointer size, size = sum of the sizes of exactly those regions', where)
    flags = td and all(td[k] == ('int', 0, 'bool') for k in ('copyable', 'cloneable', 'defaultable', 'packed')) and td['vftable'][1].endswith('Option::None') and td['singleton'][1].endswith('Option::None')
    fs = fmt_str(idf['path'])
    okp = is_call(strip(idf['path']), 'ItemPath::join') and find_calls(idf['path'], 'ItemPath::parent') and fs is not None and 'Vftable' in fs and find_calls(idf['path'], 'ItemPath::last')
    cat = idf['category'][1].endswith('ItemCategory::Defined')
    vis = strip(idf['visibility'])[0] == 'arg'
    ctx.ob(['C14', 'C17', 'C04', 'C13'], 'R-SLP', 'VBT|item', bool(flags and okp and cat and vis),
           'the generated item is `<parent>::<Name>Vftable`, Defined (so it is emitted), with the owning type\'s visibility and no marker attributes', where)
    if f2r is None:
        return
    ex = [x for x in f2r.exits()]
    okf = False
    det = ''
    r = None
    if len(ex) == 1 and ex[0]['expr'][0] == 'agg' and ex[0]['expr'][1].endswith('Region'):
        r = dict(ex[0]['expr'][2])
    else:
        # built with the crate's constructors / builders, possibly in several arms: one value per field
        tabs = struct_result_tables(f2r, ['visibility', 'name', 'doc', 'type_ref', 'is_base'])
        if tabs is not None:
            r = {}
            for k_, rows_ in tabs.items():
                if len(rows_) == 1:
                    r[k_] = rows_[0][1]
                else:
                    rw = rewrapped_option([([(expand(f2r, c_), l_) for c_, l_ in cs_], v_) for cs_, v_ in rows_])
                    if rw is None:
                        r = None
                        break
                    r[k_] = rw
    if r is not None:
        fa = [i for i in range(1, f2r.nargs + 1) if f2r.local_ty(i) == '&' + FUNCTION]
        det = show(ex[0]['expr'])[:300]
        if fa:
            farg = ('arg', fa[0], f2r.names.get(fa[0], '_%d' % fa[0]))
            fld = lambda e, n: strip(e) == ('field', farg, n)
            ty = r['type_ref']
            okf = (fld(r['visibility'], 'visibility') and r['name'][1].endswith('Option::Some') and fld(r['name'][2][0][1], 'name') and fld(r['doc'], 'doc')
                   and r['is_base'] == ('int', 0, 'bool') and ty[0] == 'agg' and ty[1].endswith('Type::Function') and fld(dict(ty[2])['0'], 'calling_convention')
                   and any(strip(x) == ('field', farg, 'arguments') for x in walk(dict(ty[2])['1'])) and any(strip(x) == ('field', farg, 'return_type') for x in walk(dict(ty[2])['2'])))
            chain = [c[1] for c in calls_in(dict(ty[2])['1'])]
            okf = okf and not any(re.search(r'Iterator::(rev|skip|take|filter|step_by|chain|map_while|scan|take_while|skip_while|fuse|cycle)$', c) for c in chain)
    ctx.ob(['C04', 'C16', 'C17'], 'R-SLP', 'F2R|slot-from-function', okf,
           'a slot region takes visibility, name, doc, calling convention, argument list (in order) and return type from its own function: %s' % det, loc(f2r.span))
    # receiver types in the slot signature
    cl = P.closures_of(f2r)
    okrecv = False
    for c in cl:
        sw = [s for s in c.switches() if s['cond'][0] == 'discr']
        ags = {}
        for st in agg_in_fn(c, 'Type::ConstPointer'):
            ags['const'] = True
        for st in agg_in_fn(c, 'Type::MutPointer'):
            ags['mut'] = True
        if sw and ags.get('const') and ags.get('mut'):
            okrecv = True
    ctx.ob(['C04'], 'R-SLP', 'F2R|receiver-types', okrecv, 'the slot signature passes the receiver as *const Self for &self and *mut Self for &mut self', loc(f2r.span))


# ------------------------------------------------------------------------------------------------
def inject(ctx):
    """C07-D1: base associated functions and non-first-base virtual functions are injected"""
    P = ctx.prog
    A = getattr(ctx, 'A', None)
    if not A:
        ctx.fail_closed(['C07'], 'R-ANCHOR', 'TDB', 'type builder anchors unavailable')
        return
    tdb = A['TDB']
    where = loc(tdb.span)
    # the loop over base regions
    cand = []
    for L in tdb.loops():
        sty, src = loop_source(tdb, L)
        if sty and 'Filter<std::slice::Iter' in sty and 'Region' in sty:
            cand.append((L, sty, src))
    if len(cand) != 1:
        ctx.fail_closed(['C07'], 'R-ITER', 'C07|base-loop', 'expected one loop over the filtered regions, found %d' % len(cand), where)
        return
    L, sty, src = cand[0]
    h, body, _ = L
    okty = re.match(r"^std::iter::Enumerate<std::iter::Filter<std::slice::Iter<'_, semantic::type_definition::Region>, \{closure@.*\}>>$", sty)
    fl = [x for x in walk(src) if is_call(x, 'Iterator::filter')]
    okpred = False
    if fl and fl[0][2][1][0] == 'closure' and fl[0][2][1][1] in P.fns:
        cf = P.fns[fl[0][2][1][1]]
        okpred = any(strip(x['expr'])[0] == 'field' and strip(x['expr'])[2] == 'is_base' for x in cf.exits())
    ctx.ob(['C07'], 'R-ITER', 'C07|all-bases', bool(okty and okpred), 'the injection loop visits every region with is_base, in order, enumerated after the filter (iterator %s)' % sty, loc(tdb.term(h)['span']))
    # the set of names already taken starts with the names of the type's RESOLVED vftable (own or inherited from the first base)
    td_v = None
    for x_ in tdb.exits():
        if x_['kind'] == 'ok_some':
            for y in walk(x_['expr']):
                if isinstance(y, tuple) and y[0] == 'agg' and y[1].endswith('type_definition::TypeDefinition'):
                    td_v = strip(dict(y[2])['vftable'])
    used = [l_ for l_, nm in tdb.names.items() if re.match(r'^std::collections::(HashSet|BTreeSet)<std::string::String', tdb.local_ty(l_))]
    ok_used = False
    det_u = ''
    if len(used) == 1 and td_v is not None:
        ini = tdb.init_of(used[0])
        if len(ini) == 1:
            e0 = expand(tdb, ini[0])
            det_u = show(e0)[:160]
            src_ok = any(strip(y) == td_v for y in walk(ini[0])) or any(strip(y) == expand(tdb, td_v) for y in walk(e0))
            names_ok = False
            for y in walk(e0):
                if isinstance(y, tuple) and y[0] == 'closure' and y[1] in P.fns:
                    for cf_ in [P.fns[y[1]]] + P.closures_of(P.fns[y[1]]):
                        for ex_ in cf_.exits():
                            e1 = expand(cf_, ex_['expr'])
                            if any(isinstance(z, tuple) and z[0] == 'field' and z[2] == 'functions' for z in walk(e1)) or any(isinstance(z, tuple) and z[0] == 'field' and z[2] == 'name' for z in walk(e1)):
                                names_ok = True
            ok_used = src_ok and names_ok
            if not ok_used and is_call(strip(ini[0]), 'HashSet::new') or (not ok_used and strip(ini[0])[0] == 'call' and re.search(r'(HashSet|BTreeSet)(::<.*>)?::(new|with_capacity|default)$', strip(ini[0])[1])):
                # seeded by an explicit loop: `for f in &vftable.functions { used.insert(f.name.clone()) }` in front of everything that
                # asks the set
                uv = ('var', used[0], tdb.names.get(used[0]))
                ins = [c for c in tdb.calls(lambda r: r['path'] and re.search(r'(HashSet|BTreeSet)::<.*>::insert$', r['path'])) if strip(tdb.expr_of_operand(c['term']['args'][0]))[:2] == uv[:2]]
                asks = [c for c in tdb.calls(lambda r: r['path'] and re.search(r'(HashSet|BTreeSet)::<.*>::contains$', r['path']))] + \
                    [c for g_ in P.closures_of(tdb) for c in g_.calls(lambda r: r['path'] and re.search(r'(HashSet|BTreeSet)::<.*>::contains$', r['path']))]
                for c in ins:
                    L_ = innermost_loop(tdb, c['block'])
                    if not L_ or any(L_[0] in L2[1] for L2 in tdb.loops() if L2[0] != L_[0]):
                        continue
                    sty_, src_ = loop_source(tdb, L_)
                    if src_ is None:
                        continue
                    se_ = expand(tdb, src_)
                    from_v = any(strip(y) == td_v or strip(y) == strip(expand(tdb, td_v)) for y in walk(se_)) and any(isinstance(z, tuple) and z[0] == 'field' and z[2] == 'functions' for z in walk(se_))
                    val_ = strip(expand(tdb, tdb.expr_of_operand(c['term']['args'][1])))
                    name_ = any(isinstance(z, tuple) and z[0] == 'field' and z[2] == 'name' and any(is_call(w_, 'Iterator::next') for w_ in walk(z[1])) for z in walk(val_))
                    every_ = not cycle_without(tdb, L_[1], L_[0], {c['block']})
                    first_ = all(a_['block'] not in tdb.reach(0, stop={L_[0]}) or tdb.dominates(L_[0], a_['block']) for a_ in asks if a_['block'] in tdb.blocks_set()) if hasattr(tdb, 'blocks_set') else True
                    if from_v and name_ and every_ and first_:
                        ok_used = True
                        det_u = 'seeded by a loop over the functions of the resolved vftable'
    ctx.ob(['C07', 'C05', 'C13'], 'R-SLP', 'C07|taken-names-start-with-resolved-vftable', ok_used,
           'the set of method names already taken starts with the function names of the type\'s resolved vftable (own block or inherited), the same value that becomes TypeDefinition.vftable: %s' % det_u, where)
    # calls of the add_functions closure
    # (a closure of build, or a private function that does the same job with the captured state as parameters)
    calls = [c for c in tdb.calls(lambda r: r['block'] in body and r['path'] in P.fns and (P.fns[r['path']].kind == 'Closure' or (
        not P.fns[r['path']].public and any(c_['path'] and c_['path'].endswith('FunctionBody::field') for c_ in P.fns[r['path']].calls()))))]
    addf = {}
    for c in calls:
        addf.setdefault(c['path'], []).append(c)
    addf = [(k, v) for k, v in addf.items() if len(v) == 2]
    if len(addf) != 1:
        ctx.fail_closed(['C07'], 'R-DOM', 'C07|add-functions', 'expected one closure called twice in the base loop (associated functions, virtual functions), found %s' % [(k, len(v)) for k, v in addf], where)
        return
    cid, cs = addf[0]
    ea = [tdb.expr_of_call(c['term']) for c in cs]
    assoc = [(c, e) for c, e in zip(cs, ea) if any(strip(x)[0] == 'field' and strip(x)[2] == 'associated_functions' for x in walk(e) if isinstance(x, tuple))]
    vf = [(c, e) for c, e in zip(cs, ea) if any(strip(x)[0] == 'field' and strip(x)[2] == 'functions' for x in walk(e) if isinstance(x, tuple))]
    ok = len(assoc) == 1 and len(vf) == 1
    ctx.ob(['C07'], 'R-DOM', 'C07|both-kinds', ok, 'the base loop adds the base\'s associated_functions and the base vftable\'s functions', where)
    if not ok:
        return
    # associated: on every iteration that finds a resolved base (the only way round is the `continue` on None)
    ac = assoc[0][0]
    defer = [g for g in guards_of(tdb)]
    cont_ok = True
    # blocks from which the latch is reachable without the add call: must pass the None edge of get_region_name_and_type_definition
    none_edges = [(s['block'], tgt) for s in tdb.switches() if s['block'] in body and s['cond'][0] == 'discr' and find_calls(s['cond'], 'get_region_name_and_type_definition') for lab, tgt in s['edges'] if lab == 'None']
    st = [s for s in tdb.succ(h) if s in body]
    seen = set()
    while st:
        x = st.pop()
        if x == h:
            cont_ok = False
            break
        if x in seen or x == ac['block']:
            continue
        seen.add(x)
        for y in tdb.succ(x):
            if y in body and (x, y) not in none_edges:
                st.append(y)
    ctx.ob(['C07'], 'R-DOM', 'C07|associated-always', cont_ok, 'for every resolved base the associated functions are added (the only bypass is an unresolved base)', loc(ac['span']))
    # virtual: under i > 0 (strict), i = enumerate index
    vc = vf[0][0]
    # the complete set of conditions under which the call runs: the regions resolved, the base resolved, the base has a vftable,
    # and index != 0 — nothing else (a further condition would leave some base's virtual functions out)
    doms = block_conditions(tdb, vc['block'])
    nidx, extra = 0, []
    for p in doms:
        cp = cmp_parts(p)
        if cp:
            op, a, b = cp
            if is_int(a, 0):
                op, a, b = SWAP[op], b, a
            if is_int(b, 0) and op in ('Gt', 'Ne') and strip(a)[0] == 'field' and strip(a)[2] == '0' and any(is_call(x, 'Iterator::next') for x in walk(a)):
                nidx += 1
                continue
        if p[0] == 'is_some' and (find_calls(p[1], 'resolve_regions') or find_calls(p[1], 'get_region_name_and_type_definition')):
            continue
        extra.append(p)
    okgt = nidx == 1 and not extra
    ctx.ob(['C07'], 'R-GUARD', 'E5|non-first-bases-only', okgt, 'virtual functions are injected exactly for bases with enumerate index > 0 (the first base shares the vftable): %s' % [show(p)[:60] for p in doms], loc(vc['span']))
    # the closure: public only, rename on clash, Field body
    cf = P.fns[cid]
    cl = cf.loops()
    okc = False
    det = ''
    if len(cl) == 1:
        sty, src = loop_source(cf, cl[0])
        pub = False
        flt = [x for x in walk(src) if is_call(x, 'Iterator::filter')]
        if flt and flt[0][2][1][0] == 'closure' and flt[0][2][1][1] in P.fns:
            pub = any(is_call(x['expr'], 'Function::is_public') for x in P.fns[flt[0][2][1][1]].exits())
        pushes = [c for c in cf.calls(lambda r: r['path'] and r['path'].endswith('Vec::<T, A>::push'))]
        every = len(pushes) == 1 and not cycle_without(cf, cl[0][1], cl[0][0], {pushes[0]['block']})
        det = 'iterator %s, public filter %s, one push per iteration %s' % (sty, pub, every)
        okc = bool(sty and re.match(r"^std::iter::Filter<std::slice::Iter<'_, %s>, .*>$" % re.escape(FUNCTION), sty) and pub and every)
    ctx.ob(['C07', 'C17', 'C13'], 'R-ITER', 'C07|public-functions-only', okc, 'exactly the public functions of the base are re-exposed, each pushed once: %s' % det, loc(cf.span))
    # body = FunctionBody::field(base_name, original_name); rename format "{}_{}"
    fb = [c for c in cf.calls(lambda r: r['path'] and r['path'].endswith('FunctionBody::field'))]
    okb = False
    if len(fb) == 1:
        e = cf.expr_of_call(fb[0]['term'])
        a0, a1 = strip(e[2][0]), strip(e[2][1])
        while a0[0] == 'call' and a0[2] and re.search(r'(::clone|::to_string|::to_owned|::into|::from|::deref|::as_str|::borrow)$', a0[1]):
            a0 = strip(a0[2][0])
        okb = (a0[0] == 'upvar' or (a0[0] == 'arg' and cf.kind != 'Closure')) and (a1[0] in ('var', 'field') or is_call(a1, 'clone'))
        # ... and that captured value / parameter is the base field's name: component 0 of get_region_name_and_type_definition(..)
        bases_ = []
        for c_ in cs:
            ce = tdb.expr_of_call(c_['term'])
            if cf.kind == 'Closure':
                cv = strip(expand(tdb, ce[2][0]))
                caps_ = cv[2] if cv[0] == 'closure' and len(cv) > 2 else []
                bases_.append(strip(expand(tdb, caps_[a0[1]])) if a0[0] == 'upvar' and a0[1] < len(caps_) else None)
            else:
                bases_.append(strip(expand(tdb, ce[2][a0[1] - 1])) if a0[0] == 'arg' and 1 <= a0[1] <= len(ce[2]) else None)
        okb = okb and all(b_ is not None and any(isinstance(y, tuple) and y[0] == 'field' and y[2] == '0' and find_calls(y[1], 'get_region_name_and_type_definition') for y in walk(b_)) for b_ in bases_)
        # second argument is the function's own (original) name
        okb = okb and original_name_ok(cf, fb[0]['term']['args'][1])
    ren = [g for s in cf.switches() for g in [s] if is_call(s['cond'], 'contains')]
    fs = None
    for bi in cf.normal_blocks():
        for op in cf.block_operands(bi):
            if op.get('k') == 'Const' and (op.get('text') or '').startswith('b"') and '_' in op['text']:
                fs = op['text']
    # the name: the base function's own name, replaced by `<base field>_<own name>` exactly when the own name is already taken —
    # decided per function (nothing carried over from the previous function of the loop)
    def _is_rename(de):
        return any(isinstance(x, tuple) and x and x[0] == 'call' and (x[1].endswith('fmt::format') or (
            re.search(r'slice::<impl \[T\]>::(join|concat)$', x[1]) and len(x[2]) == 2 and strip(x[2][1]) == ('str', '_'))) for x in walk(de))

    def _rename_pieces(de):
        # format!("{}_{}", a, b): the Display arguments; [a, b].join("_"): the array elements
        for x in walk(de):
            if isinstance(x, tuple) and x and x[0] == 'call' and re.search(r'slice::<impl \[T\]>::join$', x[1]) and len(x[2]) == 2 and strip(x[2][1]) == ('str', '_'):
                arr = strip(x[2][0])
                if arr[0] == 'array':
                    return [strip(y) for y in arr[1]]
        return [strip(x[2][0]) for x in walk(de) if isinstance(x, tuple) and x and x[0] == 'call' and re.search(r"Argument(::<[^>]*>)?::new_display$", x[1])]
    okren, detren = False, 'pushed value not read'
    try:
        from mirlib import _edge_conds
        pv_ = strip(cf.expr_of_operand(pushes[0]['term']['args'][1])) if len(pushes) == 1 else ('x',)
        nv_ = strip(dict(pv_[2]).get('name', ('x',))) if pv_[0] == 'agg' else (pv_ if pv_[0] == 'var' else ('x',))
        if nv_[0] == 'field' and nv_[2] == 'name':
            nv_ = strip(nv_[1])
        if nv_[0] == 'var' and 'function::Function' in cf.local_ty(nv_[1]) and not cf.local_ty(nv_[1]).startswith('std::string'):
            # the pushed function is built by constructors / builder calls (possibly in a helper): the decision table of its name
            rows_ = field_table(cf, nv_, 'name', kinds=True) or []
            flat, seen_rows = [], set()
            for cs_, v_, k_ in rows_:
                for c2_, v2_ in value_table(cf, v_):
                    # conditions that decide other fields (is there a doc, a return type) multiply the rows without touching the name
                    cc_ = [(c_, l_) for c_, l_ in list(cs_) + list(c2_) if not (isinstance(c_, tuple) and c_ and c_[0] == 'discr')]
                    key_ = (repr(cc_), repr(strip(v2_)))
                    if key_ not in seen_rows:
                        seen_rows.add(key_)
                        flat.append((cc_, expand(cf, v2_)))
            overs = [(('rows', cs_), v_) for cs_, v_ in flat if _is_rename(v_)]
            bases2 = [1 for cs_, v_ in flat if not _is_rename(v_)]
            nv_ = ('rows',)
        found = nv_[0] == 'rows'
        if nv_[0] == 'var':
            found = True
            dsn = cf.defs().get(nv_[1], [])
            overs, bases2 = [], []
            for dd in dsn:
                de = cf.expr_of_def(dd)
                (overs if _is_rename(expand(cf, de)) else bases2).append((dd, expand(cf, de)))
            if not overs:
                # `std::mem::replace(&mut function.name, prefixed)`: the new name is stored through the reference
                for c_ in cf.calls(lambda r: r['path'] and re.search(r'mem::(replace|swap)$', r['path'])):
                    a0_ = c_['term']['args'][0]
                    tgt_ = strip(cf.expr_of_operand(a0_))
                    if tgt_ == nv_ or (tgt_[0] in ('ref', 'addr') and strip(tgt_[1]) == nv_) or any(y == nv_ for y in walk(tgt_)):
                        overs.append(((c_['block'],), expand(cf, cf.expr_of_operand(c_['term']['args'][1]))))
        if found and len(overs) == 1:
            dd, de = overs[0]
            conds = dd[1] if dd[0] == 'rows' else [(c_, l_) for b_, c_, l_ in _edge_conds(cf, dd[0])]
            cond_ok = len(conds) == 1 and conds[0][1] is True and is_call(strip(conds[0][0]), 'contains')
            disp = _rename_pieces(de)

            def own_name(a):
                a = strip(expand(cf, a))
                return any(isinstance(y, tuple) and y and ((y[0] == 'field' and y[2] == 'name') or y == nv_) for y in walk(a)) and not any(
                    isinstance(y, tuple) and y and y[0] == 'var' and y != nv_ and not str(cf.names.get(y[1], '')).startswith('function') for y in walk(a))
            d0 = disp[0] if disp else ('x',)
            while d0[0] == 'call' and d0[2] and re.search(r'(Deref>::deref|::as_str|::borrow|::as_ref|::clone)$', d0[1]):
                d0 = strip(d0[2][0])
            args_ok = len(disp) == 2 and d0[0] in ('upvar', 'arg') and own_name(disp[1])
            sep_ok = '_' in show(de)
            okren = cond_ok and args_ok and sep_ok and len(bases2) >= 1
            detren = 'renamed under %s; arguments %s; base definitions %d' % ([(show(c_)[:40], l_) for c_, l_ in conds], [show(a_)[:30] for a_ in disp], len(bases2))
        elif found:
            detren = '%d renaming definitions of the name' % len(overs)
    except Exception as e_:
        detren = 'not understood: %r' % (e_,)
    ctx.ob(['C07'], 'R-SLP', 'C07|rename-only-on-clash', okren,
           'an injected function keeps its own name unless that name is already taken, and then becomes `<base field>_<own name>` — decided for this function alone: %s' % detren, loc(cf.span))
    if fs is None and any(re.search(r'slice::<impl \[T\]>::join$', c_['path'] or '') and strip(cf.expr_of_operand(c_['term']['args'][1])) == ('str', '_') for c_ in cf.calls()):
        fs = '[base, name].join("_")'
    ctx.ob(['C07', 'C04'], 'R-SLP', 'C07|forwarding-body', okb and len(ren) == 1 and fs is not None,
           'an injected function forwards to field <base field>.<original name>; on a name clash it is renamed `<base>_<name>` (format %s)' % fs, loc(cf.span))
    # everything else (visibility, docs, arguments, return type, convention) is the base function's own: the pushed value is a
    # whole clone of the element, and only its name and body are overwritten
    okw = False
    detw = ''
    if len(pushes) == 1:
        pv = strip(cf.expr_of_operand(pushes[0]['term']['args'][1]))

        def whole_clone(e, d=0):
            # (not stripped: `strip` would peel the very clone we are looking for)
            if d > 5 or not isinstance(e, tuple):
                return False
            if e[0] == 'call' and e[1].endswith('::clone') and FUNCTION in e[4] and any(
                    isinstance(y, tuple) and y[0] == 'payload' and y[2] == 'Some' and is_call(strip(y[1]), 'Iterator::next') for y in walk(e[2][0])):
                return True
            # builder methods of Function that take self by value and return Self (with_body / with_name): the receiver must be the clone
            if e[0] == 'call' and re.search(r'function::Function::with_(body|name)$', e[1]) and e[2]:
                return whole_clone(e[2][0], d + 1)
            return False
        if pv[0] != 'var':
            pv = cf.expr_of_operand(pushes[0]['term']['args'][1])
        if strip(pv)[0] == 'agg' and strip(pv)[1].endswith('function::Function'):
            # field by field (struct literal, or the struct local split into its fields): everything but name and body is the
            # corresponding field of one whole clone of the element
            fl = dict(strip(pv)[2])
            clones = set()
            okf = True
            for k_, v_ in fl.items():
                if k_ in ('name', 'body'):
                    continue
                v_ = strip(v_)
                while v_[0] == 'call' and v_[1].endswith('::clone') and v_[2]:
                    v_ = strip(v_[2][0])
                if v_[0] == 'field' and v_[2] == k_ and (whole_clone(v_[1]) or whole_clone(strip(v_[1])) or
                                                            any(isinstance(y, tuple) and y[0] == 'payload' and y[2] == 'Some' and is_call(strip(y[1]), 'Iterator::next') for y in [strip(v_[1])])):
                    clones.add(repr(strip(v_[1])))
                else:
                    okf = False
            okw = okf and len(clones) == 1 and set(fl) >= {'visibility', 'doc', 'arguments', 'return_type', 'calling_convention'}
            detw = 'fields other than name/body are the element\'s own: %s' % okf
        elif pv[0] == 'var':
            inits = cf.init_of(pv[1])
            stores_ = [x[3]['place']['proj'] for x in cf.stores().get(pv[1], []) if x[2] == 'rv' or True]
            fields_ = {pr[0]['name'] for pr in stores_ if pr and pr[0].get('k') == 'Field'}
            okw = bool(inits) and all(whole_clone(d_) for d_ in inits) and fields_ <= {'name', 'body'}
            detw = 'definitions %s, fields overwritten %s' % ([show(d_)[:60] for d_ in inits], sorted(fields_))
            if not okw:
                # built afresh with the crate's constructors / builders: every other field must end up as the element's own
                roots, bad = set(), []
                for k_ in ('visibility', 'doc', 'arguments', 'return_type', 'calling_convention'):
                    fv = final_field_value(cf, pv, k_)
                    fv = strip(fv) if fv is not None else None
                    if fv is not None and fv[0] == 'field' and fv[2] == k_:
                        roots.add(repr(strip(fv[1])))
                    else:
                        bad.append(k_)
                okw = not bad and len(roots) == 1
                detw = 'built field by field; not the element\'s own: %s' % bad
        else:
            okw = whole_clone(pv)
            detw = show(pv)[:100]
    ctx.ob(['C07', 'C17', 'C16'], 'R-SLP', 'C07|forwarder-keeps-everything-else', okw,
           'an injected function is a copy of the base\'s function in which only the name (on a clash) and the body are replaced — documentation, visibility, signature and convention are kept: %s' % detw, loc(cf.span))


def original_name_ok(cf, op):
    """the operand is the *original* name of the function being re-exposed: every definition that can reach it reads `<F>.name`
    (clone / borrow, or the value moved out by mem::replace / mem::take) at a point no write to `<F>.name` can reach since F
    was (re)initialised in this iteration"""
    def sites(l, seen):
        out = []
        if l in seen:
            return out
        seen.add(l)
        for d in cf.defs().get(l, []):
            bi, si, kind, payload, span = d
            if kind == 'rv' and payload['k'] == 'Use' and payload['op'].get('k') in ('Copy', 'Move') and not payload['op']['place']['proj']:
                out += sites(payload['op']['place']['local'], seen)
            else:
                out.append(d)
        return out
    if op.get('k') not in ('Copy', 'Move') or op['place']['proj']:
        return False
    ds = sites(op['place']['local'], set())
    if not ds:
        return False
    for d in ds:
        bi, si, kind, payload, span = d
        e = strip_refs(cf.expr_of_def(d))
        taken = False
        if e[0] == 'call' and e[1].endswith('::clone') and e[2]:
            src = strip_refs(e[2][0])
        elif e[0] == 'call' and re.search(r'mem::(replace|take)$', e[1]) and e[2]:
            src = strip_refs(e[2][0])
            taken = True
        else:
            src = e
        sro = src[0] == 'var' and (cf.locals[src[1]].get('sroa') or [None, None])[1] == 'name'
        if sro:
            # the struct was split into per-field locals: `src` is the name field's own local
            NL = src[1]
            init_defs = [x for x in cf.defs().get(NL, []) if x[2] == 'rv' and cf.blocks[x[0]]['stmts'][x[1]].get('sroa')]
            inits = {x[0] for x in init_defs}
            writes = [(x[0], 'st' if x[2] == 'rv' else 'call') for x in cf.defs().get(NL, []) if x not in init_defs and not (x[0] == bi and x[1] == si)]
            is_name_place = lambda a0: a0[:2] == ('var', NL)
        else:
            if not (src[0] == 'field' and src[2] == 'name'):
                return False
            holder = src[1]
            while holder[0] in ('ref', 'deref'):
                holder = holder[1]
            if holder[0] != 'var':
                # the iterator element itself (never written)
                if taken or not any(isinstance(y, tuple) and y[0] == 'payload' and y[2] == 'Some' for y in walk(holder)):
                    return False
                continue
            F = holder[1]
            inits = {x[0] for x in cf.defs().get(F, [])}
            writes = [(x[0], 'st') for x in cf.stores().get(F, []) if x[3]['place']['proj'] and x[3]['place']['proj'][0].get('name') == 'name']
            is_name_place = lambda a0: a0[0] == 'field' and a0[2] == 'name' and strip_refs(a0[1])[:2] == ('var', F)
        for c in cf.calls(lambda r: r['path'] and re.search(r'mem::(replace|take|swap)$', r['path'])):
            a0 = strip_refs(cf.expr_of_operand(c['term']['args'][0]))
            if is_name_place(a0) and not (kind == 'call' and c['block'] == bi):
                writes.append((c['block'], 'call'))
        for wb, wk in writes:
            if wb == bi and wk == 'st' and kind == 'call':
                return False        # statement before this block's terminator
            if wb != bi and bi not in inits and bi in cf.reach(wb, stop=inits):
                return False        # (a read in the block that re-initialises F comes after the initialisation)
    return True


def strip_refs(e):
    e = strip(e)
    while isinstance(e, tuple) and e and e[0] in ('ref', 'deref') and len(e) > 1:
        e = strip(e[1])
    return e


# ------------------------------------------------------------------------------------------------
def hierarchy(ctx):
    """C07-D3: dfs_hierarchy lists every transitive base with its field path: every is_base region that resolves
    contributes (path, type) and is descended into, whatever its siblings are"""
    P = ctx.prog
    fs = [f for f in P.fns.values() if f.kind != 'Closure' and f.raw.get('inputs') and f.raw['inputs'][0] == '&semantic::type_definition::TypeDefinition'
          and 'Vec<(std::vec::Vec<std::string::String>, semantic::types::Type)>' in f.raw.get('output', '')]
    if len(fs) != 1:
        ctx.fail_closed(['C07'], 'R-ANCHOR', 'DFS', 'expected one hierarchy walker (&TypeDefinition, ..) -> Result<Vec<(Vec<String>, Type)>>, found %s' % [f.id for f in fs])
        return
    f = fs[0]
    where = loc(f.span)
    Ls = f.loops()
    main = None
    def base_filter_only(src_):
        """every filter adapter in the loop source keeps exactly the regions whose is_base flag is set"""
        for c_ in find_calls(src_, 'Iterator::filter'):
            pf = predicate_fn(P, c_[2][1]) if len(c_[2]) > 1 else None
            ex_ = [strip(x['expr']) for x in pf.exits()] if pf is not None else []
            if not (len(ex_) == 1 and ex_[0][0] == 'field' and ex_[0][2] == 'is_base' and strip(ex_[0][1])[0] == 'arg'):
                return False
        return True
    for L in Ls:
        sty, src = loop_source(f, L)
        if sty and re.match(r"^(std::iter::Filter<)?std::slice::Iter<'_, semantic::type_definition::Region>(, \{closure@[^}]*\}>)?$", sty):
            main = (L, expand(f, src))
    if not main:
        ctx.fail_closed(['C07'], 'R-ITER', 'DFS|loop', 'no loop over the regions of the type', where)
        return
    L, src = main
    h, body, _ = L
    over_self = any(strip(x) == ('field', ('arg', 1, f.names.get(1, '_1')), 'regions') for x in walk(src)) and not any(
        re.search(r'Iterator::(rev|skip|take|step_by|chain|skip_while|take_while|filter_map|map_while|scan|fuse|cycle)$', c_[3]) for c_ in calls_in(src)) and base_filter_only(src)
    pushes = [c for c in f.calls(lambda r: r['block'] in body and r['path'] and r['path'].endswith('Vec::<T, A>::push'))]
    recs = [c for c in f.calls(lambda r: r['block'] in body and r['path'] == f.id)]
    ext = [c for c in f.calls(lambda r: r['block'] in body and r['gpath'] and r['gpath'].endswith('Extend::extend'))]
    ok_sites = len(pushes) == 1 and len(recs) == 1 and len(ext) == 1
    ctx.ob(['C07'], 'R-ITER', 'DFS|all-regions', over_self and ok_sites, 'the walker loops over all regions of the type (unadapted) with one push of (path, type), one recursive descent and one extend', where)
    if not ok_sites:
        return
    # allowed ways round: the region is not a base; the base is not resolved yet
    bypass = []
    for s in f.switches():
        if s['block'] not in body:
            continue
        c = strip(s['cond'])
        if c[0] == 'field' and c[2] == 'is_base':
            bypass += [(s['block'], tgt) for lab, tgt in s['edges'] if lab is False]
        if c[0] == 'un' and c[1] == 'Not' and strip(c[2])[0] == 'field' and strip(c[2])[2] == 'is_base':
            bypass += [(s['block'], tgt) for lab, tgt in s['edges'] if lab is True]
        if s['cond'][0] == 'discr' and find_calls(s['cond'], 'get_region_name_and_type_definition') and not (s['cond'][1][0] == 'call' and s['cond'][1][3] == TRY_BRANCH):
            bypass += [(s['block'], tgt) for lab, tgt in s['edges'] if lab == 'None']

    def cycle_avoiding(block):
        seen = set()
        st = [(h, s_) for s_ in f.succ(h) if s_ in body]
        while st:
            a, x = st.pop()
            if (a, x) in bypass or x == block:
                continue
            if x == h:
                return True
            if x in seen:
                continue
            seen.add(x)
            for y in f.succ(x):
                if y in body:
                    st.append((x, y))
        return False
    ok = not cycle_avoiding(pushes[0]['block']) and not cycle_avoiding(recs[0]['block']) and not cycle_avoiding(ext[0]['block'])
    # ... and ONLY bases: the push is reached under `is_base` of the element (a filter in the loop source or a test in the body)
    from guards import block_conditions
    pcs = block_conditions(f, pushes[0]['block'])
    in_body = any((strip(p_)[0] == 'field' and strip(p_)[2] == 'is_base') for p_ in pcs)
    in_src = bool(find_calls(src, 'Iterator::filter')) and base_filter_only(src)
    ok = ok and (in_body or in_src)
    ctx.ob(['C07'], 'R-DOM', 'DFS|every-base-listed-and-descended', ok,
           'every base region that resolves is listed and descended into — the only ways round are `not a base` and `base not resolved yet` (no sibling-dependent skipping)', where)
    # what is pushed: (path ++ [field name], the region's own type); the recursion gets the extended path
    pe = f.expr_of_operand(pushes[0]['term']['args'][1])
    okp = pe[0] == 'tuple' and len(pe[1]) == 2 and any(isinstance(x, tuple) and x[0] == 'field' and x[2] == 'type_ref' for x in walk(pe[1][1])) and \
        bool(find_calls(expand(f, pe[1][0]), 'Iterator::chain'))
    re_ = f.expr_of_call(recs[0]['term'])
    okr = any(find_calls(expand(f, a), 'Iterator::chain') for a in re_[2][1:]) and bool(find_calls(re_[2][0], 'get_region_name_and_type_definition'))
    ctx.ob(['C07', 'C13'], 'R-SLP', 'DFS|path-and-type', okp and okr, 'listed entry = (path so far ++ this field, this region\'s type); the descent continues in the base\'s type definition with the extended path', where)
