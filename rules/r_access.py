"""R-TABLE accessors — the small pure functions every input path goes through (path algebra of ItemPath, the predicates that
select the worklist, marker predicates).  Each is decided *semantically*, not by its spelling: the function's control-flow
graph is evaluated over a finite abstract domain (truth values of the atoms it tests, variant labels of the enums it matches)
and the resulting table is compared with the expected one.  `matches!`, `==`, `match`, `if` and `&&` all give the same table.
Nothing of pyxis is executed: this is an abstract interpretation of the MIR over {true, false} / variant names."""
import re, json, os
VERIF = os.path.dirname(os.path.dirname(os.path.abspath(__file__)))
from mirlib import *
from guards import *


class Undecided(Exception):
    pass


def eval_fn(P, f, atoms, args=None, depth=0, start=0, stop=None):
    """value of function f when every atom (regex on the shown expression -> bool | variant label) has the given value;
    args: {param index: value}.  Raises Undecided when the function tests something that is not an atom."""
    args = args or {}
    if depth > 4:
        raise Undecided('depth')

    def atom(e):
        s = show(e)
        for rx, v in atoms:
            if re.search(rx, s):
                return v
        return None

    env = {}

    def ev(e):
        e0 = e
        e = strip(e)
        if e[0] == 'var' and e[1] in env:
            return env[e[1]]
        if e[0] == 'call' and re.search(r'bool>?::(then|then_some)$', e[1]) and e[2]:
            return ev(e[2][0])          # presence of the produced Option
        if e[0] == 'call' and re.search(r'ops::(Fn|FnMut|FnOnce)::call(_mut|_once)?$', e[1]) and e[2]:
            # a predicate that was handed in as a closure: evaluate that closure on the same atoms
            cl = atom(e[2][0])
            if cl is None and strip(e[2][0])[0] == 'arg':
                cl = args.get(strip(e[2][0])[1])
            if isinstance(cl, tuple) and cl and cl[0] in ('closure', 'fnref') and cl[1] in P.fns:
                return eval_fn(P, P.fns[cl[1]], atoms, None, depth + 1)
            raise Undecided('call of an unknown closure')
        if e[0] == 'callptr':
            # a predicate handed in as a function pointer: a named function is the call of that function (and may be an atom),
            # a closure is evaluated on the same atoms
            cl = atom(e[1])
            if cl is None and strip(e[1])[0] == 'arg':
                cl = args.get(strip(e[1])[1])
            if cl is None and strip(e[1])[0] == 'fnref':
                cl = strip(e[1])
            if isinstance(cl, tuple) and cl and cl[0] == 'fnref':
                return ev(('call', cl[1], list(e[2]), cl[1], cl[1]))
            if isinstance(cl, tuple) and cl and cl[0] == 'closure' and cl[1] in P.fns:
                return eval_fn(P, P.fns[cl[1]], atoms, None, depth + 1)
            raise Undecided('call through an unknown function pointer')
        if e[0] == 'int':
            return bool(e[1]) if (len(e) > 2 and e[2] == 'bool') else e[1]
        if e[0] == 'arg' and e[1] in args:
            return args[e[1]]
        if e[0] == 'un' and e[1] == 'Not':
            return not ev(e[2])
        if e[0] == 'bin' and e[1] in ('Eq', 'Ne', 'BitAnd', 'BitOr'):
            a, b = ev(e[2]), ev(e[3])
            return {'Eq': a == b, 'Ne': a != b, 'BitAnd': bool(a) and bool(b), 'BitOr': bool(a) or bool(b)}[e[1]]
        v = atom(e0)
        if v is None:
            v = atom(e)
        if v is not None:
            return v
        if e[0] == 'call' and re.search(r'::(eq|ne)$', e[1]) and len(e[2]) == 2:
            a, b = ev(e[2][0]), ev(e[2][1])
            return (a == b) if e[1].endswith('eq') else (a != b)
        if e[0] == 'call' and e[1] in P.fns and P.fns[e[1]].raw.get('output') == 'bool':
            g = P.fns[e[1]]
            sub = {}
            for i, a in enumerate(e[2]):
                try:
                    sub[i + 1] = ev(a)
                except Undecided:
                    pass
            # atoms are phrased in the caller's terms: rewrite them is not possible in general, so the callee is evaluated with
            # the same atoms applied to its own expressions after substituting the call arguments
            return eval_fn(P, g, [(rx, v) for rx, v in atoms], sub, depth + 1) if False else _eval_callee(P, g, e, atoms, sub, depth)
        raise Undecided(show(e)[:80])

    sw = {s['block']: s for s in f.switches()}
    b = start
    stop = stop or {}
    seen = set()
    exits = {x['block']: x for x in f.exits()}
    steps = 0
    while steps < 200:
        steps += 1
        if b in stop:
            return stop[b]      # (walk of a loop body: reaching the push keeps the element, reaching the latch / header drops it)
        # values assigned along the walked path (bool temporaries that merge the arms of `&&` / `||`)
        if hasattr(f, 'blocks') and not isinstance(f, _Substituted):
            for st in f.blocks[b]['stmts']:
                if st['k'] == 'Assign' and not st['place']['proj'] and f.local_ty(st['place']['local']) == 'bool':
                    try:
                        env[st['place']['local']] = ev(f.expr_of_rvalue(st['rv']))
                    except (Undecided, Exception):
                        env.pop(st['place']['local'], None)
            t_ = f.term(b)
            if t_['k'] == 'Call' and not t_['dest']['proj'] and f.local_ty(t_['dest']['local']) == 'bool':
                try:
                    env[t_['dest']['local']] = ev(f.expr_of_call(t_))
                except (Undecided, Exception):
                    env.pop(t_['dest']['local'], None)
        if b in exits and f.term(b)['k'] == 'Return' or (b in exits and b not in sw and not [y for y in f.succ(b)]):
            return ev(expand(f, exits[b]['expr']))
        s = sw.get(b)
        if s is not None:
            c = s['cond']
            if c[0] == 'discr':
                lab = atom(c) if atom(c) is not None else atom(c[1])
                if lab is None:
                    raise Undecided('match on ' + show(c)[:80])
                nxt = [t for l, t in s['edges'] if l == lab or (isinstance(l, str) and lab in l.split('|'))]
                if not nxt:
                    nxt = [t for l, t in s['edges'] if l in ('otherwise', '_')]
                if not nxt:
                    raise Undecided('no edge for %s' % lab)
                b = nxt[0]
                continue
            v = ev(expand(f, c))
            nxt = [t for l, t in s['edges'] if l is v]
            if not nxt:
                raise Undecided('no edge')
            b = nxt[0]
            continue
        ss = f.succ(b)
        if b in exits:
            return ev(expand(f, exits[b]['expr']))
        if len(ss) != 1:
            raise Undecided('branching block %d' % b)
        b = ss[0]
    raise Undecided('too long')


def _eval_callee(P, g, call, atoms, sub, depth):
    """evaluate an in-crate bool callee: its expressions mention its own parameters; the atoms are written for the caller, so
    they are matched after substituting the call's arguments into the callee's expressions"""
    class G:     # a view of g whose shown expressions are in the caller's terms
        pass
    args = call[2]
    atoms2 = []
    for rx, v in atoms:
        atoms2.append((rx, v))

    # substitute: wrap show() by rewriting expressions of g with subst_args before matching
    def atom_sub(e):
        s = show(subst_args(expand(g, e), args))
        for rx, v in atoms:
            if re.search(rx, s):
                return v
        return None
    orig_show = show

    def ev2(f, e):
        e_ = subst_args(expand(f, e), args)
        return e_
    # simplest faithful implementation: evaluate g with expressions substituted up front
    return eval_fn(P, _Substituted(g, args), atoms, sub, depth + 1)


class _Substituted:
    """function view whose switch conditions and exit expressions are rewritten into the caller's terms"""

    def __init__(self, g, args):
        self.g, self.args = g, args
        self.raw, self.prog = g.raw, g.prog

    def switches(self):
        return [dict(s, cond=subst_args(expand(self.g, s['cond']), self.args)) for s in self.g.switches()]

    def exits(self):
        return [dict(x, expr=subst_args(expand(self.g, x['expr']), self.args)) for x in self.g.exits()]

    def __getattr__(self, k):
        return getattr(self.g, k)


def table(P, f, atom_names, assignments, args=None):
    """{assignment tuple: value or 'undecided: why'}"""
    out = {}
    for asg in assignments:
        atoms = [(rx, v) for (rx, _), v in zip(atom_names, asg)]
        try:
            out[asg] = eval_fn(P, f, atoms, args)
        except Undecided as u:
            out[asg] = 'undecided: %s' % u
        except Exception as u:      # malformed shape: fail closed
            out[asg] = 'undecided: %r' % u
    return out


STRUCTURAL_PROPS = [
    (r'ItemPath', ['C09', 'C11', 'C14', 'C19', 'C10']),
    (r'function::(Function|Argument|CallingConvention|FunctionBody)', ['C06', 'C04', 'C07', 'C16']),
    (r'semantic::types::Type$|grammar::Type$', ['C06', 'C10', 'C11']),
    (r'Region|TypeDefinition|TypeVftable', ['C01', 'C06']),
    (r'EnumDefinition', ['C08']),
    (r'Attribute|Expr|Ident', ['C17', 'C18']),
]


def structural_impls(ctx):
    """equality, hashing, ordering and cloning of the grammar and semantic value types are the derived (structural) ones: the
    registry keys, the slot comparison of C06, the sort that makes the output deterministic and every `.clone()` of a parsed or
    resolved value rely on it (a hand-written impl may identify different values or drop a field)"""
    P = ctx.prog
    n = 0
    for i in P.impls:
        t = (i.get('trait') or '').split('::')[-1]
        st = i.get('self_ty') or ''
        if t not in ('PartialEq', 'Eq', 'Hash', 'PartialOrd', 'Ord', 'Clone') or not re.match(r'^(grammar|semantic)::', st):
            continue
        n += 1
        if i.get('derived'):
            continue
        props = next((pr for rx, pr in STRUCTURAL_PROPS if re.search(rx, st)), ['C09', 'C14'])
        ctx.ob(props, 'R-TABLE', 'structural|%s|%s' % (st, t), False, 'hand-written `impl %s for %s`: comparison / hashing / cloning of this type must be the derived, field-by-field one' % (t, st), loc(i['span']))
    ctx.ob(['C09', 'C14', 'C06', 'C11'], 'R-TABLE', 'structural|census', n >= 100, 'derived PartialEq/Eq/Hash/PartialOrd/Ord/Clone impls of grammar and semantic types: %d (floor 100), none hand-written' % n, nontrivial=False)


TEXT_OP = re.compile(r'(?:<impl str>)::(trim\w*|replace\w*|to_lowercase|to_uppercase|to_ascii_\w+|strip_prefix|strip_suffix|split\w*|rsplit\w*|lines|repeat|get|get_mut|escape_\w+)$'
                     r'|string::String::(truncate|retain|remove|pop|insert|insert_str|drain|replace_range|clear|split_off)$'
                     r'|(String) as std::iter::FromIterator<char>>::from_iter$|(?:str|String) as std::ops::(Index)(?:Mut)?<|<impl std::ops::(Index)(?:Mut)?<.*> for str>::index|(from_utf8_lossy)$'
                     r'|char::methods::<impl char>::(to_ascii_\w+|to_lowercase|to_uppercase)$')
# layer -> method -> (how many sites, why they are harmless); reviewed on the pinned tree
TEXT_OPS_ALLOWED = {
    'backends': {'lines': (2, 'doc text split into one #[doc] per line; the offending line of an unparsable output for the error message'),
                 'repeat': (1, 'the caret under the offending column of that error message'),
                 'trim': (1, 'name of the generated associated constant of an enum variant'),
                 'to_uppercase': (2, 'the same constant name')},
    'grammar': {'split': (1, 'ItemPath::from(&str): `a::b` into segments')},
    'parser': {'trim': (1, 'prologue / epilogue text of a backend block (reference grammar event `trim`)')},
}
TEXT_PROPS = {'backends': ['C14', 'C17', 'C13'], 'parser': ['C18', 'C14', 'C12'], 'grammar': ['C18', 'C11'], 'semantic': ['C11', 'C16', 'C17', 'C12'], 'lib': ['C14', 'C12']}


def text_operations(ctx):
    """names, documentation, prologue / epilogue text and the generated code travel from the input to the output as they are:
    every call that cuts, replaces, re-cases or re-assembles text is one of the reviewed few (per layer and method, counted).
    A new one ("tolerate a BOM", "tidy the output", "fold spellings") changes what is compared, reported or emitted."""
    P = ctx.prog
    seen = {}
    n = 0
    for f in P.fns.values():
        if f.raw.get('derived'):
            continue
        layer = re.sub(r'^<', '', f.id).split('::')[0]
        layer = layer if layer in ('backends', 'parser', 'grammar', 'semantic') else 'lib'
        for c in f.calls():
            n += 1
            m = TEXT_OP.search(c['path'] or '')
            if m:
                meth = next(g for g in m.groups() if g)
                seen.setdefault((layer, meth), []).append(loc(c['span']))
    for (layer, meth), sites in sorted(seen.items()):
        allowed = TEXT_OPS_ALLOWED.get(layer, {}).get(meth, (0, ''))
        ctx.ob(TEXT_PROPS[layer], 'R-TABLE', 'text-ops|%s|%s' % (layer, meth), len(sites) <= allowed[0],
               'text-transforming call `%s` in %s: %d site(s), reviewed %d (%s)' % (meth, layer, len(sites), allowed[0], allowed[1] or 'none reviewed: text must pass through unchanged'),
               sites[-1])
    ctx.ob(['C14', 'C18'], 'R-TABLE', 'text-ops|census', n >= 1500 and len(seen) >= 5, 'call sites examined for text transformations: %d, transforming (layer, method) pairs found: %d (floor 5)' % (n, len(seen)), nontrivial=False)


CTOR_PROPS = [
    (r'function::(FunctionBody|Function|Argument)', ['C07', 'C05', 'C04', 'C16']),
    (r'type_definition::(Region|TypeDefinition|vftable)', ['C01', 'C04', 'C06', 'C17']),
    (r'TypeRegistry', ['C02', 'C11', 'C10']),
    (r'grammar::(ItemPath|ItemPathSegment|Ident)', ['C11', 'C14', 'C18']),
    (r'ItemDefinition', ['C14', 'C10']),
    (r'module::Module', ['C14', 'C19']),
    (r'grammar::', ['C18']),
]


def plain_constructors(P, also=()):
    """id -> rendering of the value a *called* plain constructor of the crate builds from its parameters (no loop, no branch, one
    exit, result is one of the crate's own types).  The rules read calls of these by name; what they build is checked here."""
    unc = mirlib_uncalled(P)
    called = set()
    for f in P.fns.values():
        if f.raw.get('derived'):
            continue
        for c in f.calls():
            if c['path'] in P.fns:
                called.add(c['path'])
    out = {}
    for f in P.fns.values():
        if f.raw.get('derived') or f.kind == 'Closure' or f.id in unc or (f.id not in called and f.id not in also):
            continue
        if not re.match(r'^<?(grammar|semantic)::', f.id) or f.loops() or f.switches() or len(f.exits()) != 1:
            continue
        if re.sub(r'<.*$', '', f.raw.get('output', '') or '') not in P.adts:
            continue
        e = ('call', f.id, [('arg', i + 1, 'a%d' % (i + 1)) for i in range(f.nargs)], f.id, f.id)
        try:
            v = ctor_value(P, e, any_plain=True)
        except Exception:
            v = None
        if v is None:
            continue
        if v[0] == 'update':
            txt = 'update(%s){%s}' % (show(v[1]), ', '.join('%s: %s' % (k_, show(x_)) for k_, x_ in v[2]))
        else:
            txt = show(v)
        # an empty map is an empty map, whichever container the field uses
        txt = re.sub(r'\b(HashMap|BTreeMap)::new\(\)', 'Map::new()', txt)
        txt = re.sub(r'\b(HashSet|BTreeSet)::new\(\)', 'Set::new()', txt)
        if 'closure<' in txt or 'promoted[' in txt:
            continue        # not a plain aggregate of the parameters (decided by the rules of the function itself)
        if any(str(a_.get('place', {}).get('ty', '')).startswith('&mut ') for c in f.calls() for a_ in c['term']['args'][:1]):
            continue        # builds its value by mutation (`let mut p = self.clone(); p.push(x); p`): not read off the exit alone
        names = set(re.findall(r'([A-Za-z_][\w:]*)\(', txt))
        if not names <= {'to_string', 'clone', 'Vec::new', 'Map::new', 'Set::new', 'String::new', 'Into::into', 'from', 'to_owned', 'ItemPath::empty', 'update', 'into'}:
            continue        # computes something (an iterator chain, a lookup): decided by the rules of the function itself
        out[f.id] = txt
    return out


def mirlib_uncalled(P):
    import mirlib
    return mirlib._uncalled(P)


def constructor_shapes(ctx):
    """the small constructors that the pinned code calls (`FunctionBody::field`, `Region::unnamed_field`, `ItemPath::join`, the `From`
    impls of the path and identifier types, the `with_*` builders ..) put every parameter into the field it is named after: the
    value each builds is compared with the reviewed one (spec/ctors.json; a constructor that no longer exists is not an error)"""
    P = ctx.prog
    try:
        with open(os.path.join(VERIF, 'spec', 'ctors.json')) as fh:
            ref = json.load(fh)['ctors']
    except Exception as e:
        ctx.fail_closed(['C14'], 'R-TABLE', 'ctor|reference', 'spec/ctors.json missing or unreadable: %s' % e)
        return
    cur = plain_constructors(P, also=set(ref))        # (a reviewed constructor that is no longer called is still what it was)
    n = 0
    for fid, want in sorted(ref.items()):
        if fid not in P.fns:
            continue
        n += 1
        props = next((pr for rx, pr in CTOR_PROPS if re.search(rx, fid)), ['C14'])
        got = cur.get(fid)
        ctx.ob(props, 'R-TABLE', 'ctor|%s' % re.sub(r'^semantic::|^grammar::', '', fid), got == want,
               'the value built by %s is %s%s' % (short(fid), want[:110], '' if got == want else ' — found: %s' % (got[:150] if got else 'not a plain constructor any more')),
               loc(P.fns[fid].span))
    ctx.ob(['C14'], 'R-TABLE', 'ctor|census', n >= 12, 'called plain constructors compared with their reviewed value: %d of %d reviewed (floor 12)' % (n, len(ref)), nontrivial=False)


def run(ctx):
    P = ctx.prog
    structural_impls(ctx)
    text_operations(ctx)
    constructor_shapes(ctx)

    def one(suffix):
        c = [f for f in P.fns.values() if f.id == suffix or f.id.endswith('::' + suffix)]
        return c[0] if len(c) == 1 else None

    def ob(props, key, ok, what, f):
        ctx.ob(props, 'R-TABLE', 'accessor|' + key, bool(ok), what, loc(f.span) if f else '')

    BOOL = [(True,), (False,)]
    BB = [(a, b) for a in (True, False) for b in (True, False)]
    # ---- predicates that select the worklist (C10): unresolved() = not predefined and not resolved; resolved() = not predefined and resolved
    for nm, want in (('unresolved', lambda p, r: (not p) and (not r)), ('resolved', lambda p, r: (not p) and r)):
        f = one('TypeRegistry::' + nm)
        ok = False
        det = 'not found'
        if f:
            e = strip(expand(f, f.exits()[0]['expr'])) if len(f.exits()) == 1 else None
            det = show(e)[:100] if e else 'several exits'
            # follow a shared private helper: unresolved() = helper(false)
            hops = 0
            args = {}
            # (the helper may hand back the iterator itself: `helper(flag).cloned().collect()` — the wrappers are put back around
            # what the helper returns)
            wrappers = []
            if e is not None and e[0] == 'call' and e[1] not in P.fns:
                inner_ = e
                while inner_[0] == 'call' and inner_[2] and re.search(r'Iterator::(collect|cloned|copied)$', inner_[3] if len(inner_) > 3 else inner_[1]):
                    wrappers.append(inner_)
                    inner_ = strip(inner_[2][0])
                if wrappers and inner_[0] == 'call' and inner_[1] in P.fns:
                    e = inner_
                else:
                    wrappers = []
            while e is not None and e[0] == 'call' and e[1] in P.fns and hops < 2:
                g = P.fns[e[1]]
                args = {i + 1: (bool(strip(a)[1]) if strip(a)[0] == 'int' else (strip(a) if strip(a)[0] in ('closure', 'fnref') else None)) for i, a in enumerate(e[2])}
                args = {k: v for k, v in args.items() if v is not None}
                f = g
                e = strip(expand(g, g.exits()[0]['expr'])) if len(g.exits()) == 1 else None
                hops += 1
            if wrappers and e is not None:
                for w_ in reversed(wrappers):
                    e = (w_[0], w_[1], [e] + list(w_[2][1:])) + tuple(w_[3:])
            e_raw = strip(f.exits()[0]['expr']) if len(f.exits()) == 1 else None
            lbv = loop_built(f, e_raw[1]) if (e_raw is not None and e_raw[0] == 'var') else None
            if lbv and len(lbv.get('pushes', [lbv['push']])) == 1:
                # the same list built by a loop with one push: which (predefined, resolved) combinations reach the push
                h_, body_, latches_ = lbv['loop']
                src_ = strip(expand(f, lbv['source']))
                over_ = any(isinstance(x, tuple) and x[0] == 'field' and x[2] == 'types' for x in walk(src_)) and \
                    not any(re.search(r'Iterator::(skip|take|step_by|take_while|skip_while|rev|filter|filter_map)$', c_[3]) for c_ in calls_in(src_))
                some_t = [tgt for s_ in f.switches() if s_['block'] in body_ and s_['cond'][0] == 'discr' and is_call(strip(s_['cond'][1]), 'Iterator::next') for lab, tgt in s_['edges'] if lab == 'Some']
                pb = lbv['push'] if isinstance(lbv['push'], int) else lbv['push']['block']
                t = {}
                if over_ and len(some_t) == 1:
                    for p_, r_ in BB:
                        atoms = [(r'is_predefined\(', p_), (r'is_resolved\(', r_)]
                        try:
                            t[(p_, r_)] = eval_fn(P, f, atoms, dict(args), 0, some_t[0], dict([(pb, True), (h_, False)] + [(l_, False) for l_ in latches_]))
                        except Undecided as u:
                            t[(p_, r_)] = 'undecided: %s' % u
                    el = strip(expand(f, lbv['elem']))
                    while el[0] == 'call' and el[2] and re.search(r'(::clone|::to_owned)$', el[1]):
                        el = strip(el[2][0])
                    okm = el[0] == 'field' and el[2] == '0' and any(isinstance(y, tuple) and y[0] == 'payload' and y[2] == 'Some' for y in walk(el))
                    ok = all(t.get((p_, r_)) is want(p_, r_) for p_, r_ in BB) and okm
                    det = 'loop form; table (predefined, resolved) -> pushed: %s; pushes the entry\'s own key: %s' % ({k: v for k, v in sorted(t.items())}, okm)
                e = None
            flt = [c_ for c_ in calls_in(e)] if e is not None else []
            fl = [c_ for c_ in flt if c_[3].endswith('Iterator::filter') or c_[3].endswith('Iterator::filter_map')]
            bad = [short(c_[3]) for c_ in flt if re.search(r'Iterator::(skip|take|step_by|take_while|skip_while|rev)$', c_[3])]
            over = any(isinstance(x, tuple) and x[0] == 'field' and x[2] == 'types' for x in walk(e)) if e is not None else False
            if len(fl) == 1 and not bad and over and is_call(e, 'Iterator::collect'):
                pf = predicate_fn(P, fl[0][2][1])
                if pf is not None:
                    # upvars of the closure stand for the helper's parameters (the bool flag)
                    caps = fl[0][2][1][2] if fl[0][2][1][0] == 'closure' else []
                    at = [(r'is_predefined\(', 'p'), (r'is_resolved\(', 'r')]
                    t = {}
                    for p_, r_ in BB:
                        atoms = [(at[0][0], p_), (at[1][0], r_)]
                        for i_, cexp in enumerate(caps):
                            cx = strip(cexp)
                            if cx[0] == 'arg' and cx[1] in args:
                                atoms.append((r'^upvar%d$|\bupvar%d\b' % (i_, i_), args[cx[1]]))
                        try:
                            t[(p_, r_)] = eval_fn(P, pf, atoms)
                        except Undecided as u:
                            t[(p_, r_)] = 'undecided: %s' % u
                    ok = all(t[(p_, r_)] is want(p_, r_) for p_, r_ in BB)
                    det = 'filter table (predefined, resolved) -> kept: %s' % {k: v for k, v in sorted(t.items())}
                    # the kept entries are mapped to their own key
                    mp = [c_ for c_ in flt if c_[3].endswith('Iterator::map')]
                    if fl[0][3].endswith('Iterator::filter_map'):
                        # the kept entry's key: then(|| key.clone())
                        okm = not mp
                        ths = [c_ for x_ in pf.exits() for c_ in calls_in(expand(pf, x_['expr'])) if re.search(r'bool>?::then$', c_[1])]
                        okm = okm and len(ths) == 1 and len(ths[0][2]) == 2
                        if okm:
                            kf = predicate_fn(P, ths[0][2][1])
                            caps_ = ths[0][2][1][2] if ths[0][2][1][0] == 'closure' else []
                            ex_ = [strip(subst_closure(kf, x['expr'], [], caps_)) for x in kf.exits()] if kf is not None else []
                            okm = len(ex_) == 1 and ex_[0][0] == 'field' and ex_[0][2] == '0'
                    else:
                        okm = len(mp) == 1
                        if okm:
                            mf = predicate_fn(P, mp[0][2][1])
                            ex_ = [strip(x['expr']) for x in mf.exits()] if mf is not None else []
                            okm = len(ex_) == 1 and ex_[0][0] == 'field' and ex_[0][2] == '0'
                    ok = ok and okm
        ob(['C10', 'C09'], 'TypeRegistry::' + nm, ok, '%s() lists exactly the keys of the entries that are not predefined and %s resolved (all of them, no other filter): %s' % (
            nm, 'not' if nm == 'unresolved' else 'are', det), f)
    # ---- ItemDefinition predicates
    f = one('types::ItemDefinition::is_predefined')
    if f:
        t = table(P, f, [(r'category', None)], [('Predefined',), ('Defined',), ('Extern',)])
        # `==` on the category: evaluate by giving the category an abstract value and the promoted constant its meaning
        t2 = {}
        for cat in ('Predefined', 'Defined', 'Extern'):
            try:
                t2[cat] = eval_fn(P, f, [(r'^[\w:<>]*promoted\[\d+\]$|^(\w+::)*ItemCategory::Predefined(\{\})?$', 'Predefined'), (r'^self\.category$|^discr\(self\.category\)$', cat)])
            except Undecided as u:
                t2[cat] = 'undecided: %s' % u
        okp = t2 == {'Predefined': True, 'Defined': False, 'Extern': False}
        # the promoted constant really is Predefined
        txt = json.dumps(f.raw['blocks'])
        okp = okp and ('Predefined' in txt or 'promoted' in txt)
        ob(['C10', 'C14'], 'ItemDefinition::is_predefined', okp, 'is_predefined() is true exactly for category Predefined: %s' % t2, f)
    f = one('types::ItemDefinition::is_resolved')
    if f:
        t = table(P, f, [(r'Option::is_some\(ItemDefinition::resolved\(self\)\)|is_some\(.*resolved', None)], BOOL)
        t1 = {}
        for v in (True, False):
            try:
                t1[v] = eval_fn(P, f, [(r'^Option::is_some\(ItemDefinition::resolved\(self\)\)$', v), (r'^Option::is_none\(ItemDefinition::resolved\(self\)\)$', not v),
                                       (r'^discr\(ItemDefinition::resolved\(self\)\)$|^discr\(self\.state\)$', 'Some' if v else 'None')])
            except Undecided as u:
                t1[v] = 'undecided: %s' % u
        okr_ = t1 == {True: True, False: False}
        if not okr_:
            # `matches!(self.state, ItemState::Resolved(_))`: decided on the state itself (resolved() is Some exactly for that variant:
            # accessor|ItemDefinition::resolved)
            t3 = {}
            for st_ in ('Resolved', 'Unresolved'):
                try:
                    t3[st_] = eval_fn(P, f, [(r'^discr\(self\.state\)$', st_)])
                except Undecided as u:
                    t3[st_] = 'undecided: %s' % u
            g_ = one('types::ItemDefinition::resolved')
            okg_ = False
            if g_:
                sw_ = [s_ for s_ in g_.switches() if show(s_['cond']) == 'discr(self.state)']
                ex_ = g_.exits()
                somes_ = [x for x in ex_ if x['kind'] == 'some']
                okg_ = len(sw_) == 1 and len(somes_) == 1 and all(x['kind'] in ('some', 'none') for x in ex_) and \
                    any(lab == 'Resolved' and (tgt == somes_[0]['block'] or g_.dominates(tgt, somes_[0]['block'])) for lab, tgt in sw_[0]['edges']) and \
                    any(isinstance(y, tuple) and y and y[0] == 'payload' and y[2] == 'Resolved' for y in walk(expand(g_, somes_[0]['expr'])))
            okr_ = t3 == {'Resolved': True, 'Unresolved': False} and okg_
            t1 = dict(t3, resolved_is_some_exactly_for_Resolved=okg_)
        ob(['C10'], 'ItemDefinition::is_resolved', okr_, 'is_resolved() ⇔ resolved() is Some: %s' % t1, f)
    # ---- ItemDefinitionInner::defaultable: Type -> its flag; Enum -> flag and a default variant
    f = one('types::ItemDefinitionInner::defaultable')
    if f:
        t = {}
        for kind in ('Type', 'Enum'):
            for fl_ in (True, False):
                for di in (True, False):
                    try:
                        t[(kind, fl_, di)] = eval_fn(P, f, [(r'^discr\(self\)$', kind), (r'unwrap_%s\(self\)\.defaultable$' % kind, fl_), (r'is_some\(unwrap_Enum\(self\)\.default_index\)', di),
                                                             (r'^discr\(unwrap_Enum\(self\)\.default_index\)$', 'Some' if di else 'None')])
                    except Undecided as u:
                        t[(kind, fl_, di)] = 'undecided: %s' % u
        want = {(k, a, b): (a if k == 'Type' else (a and b)) for k in ('Type', 'Enum') for a in (True, False) for b in (True, False)}
        ob(['C13'], 'ItemDefinitionInner::defaultable', t == want, 'a type is defaultable iff marked so; an enum iff marked so and it has a default variant: %s' % (
            'as expected' if t == want else {k: v for k, v in t.items() if v != want[k]}), f)
    # ---- Function::is_public / is_internal
    f = one('function::Function::is_public')
    if f:
        t = {}
        for vis in ('Public', 'Private'):
            try:
                t[vis] = eval_fn(P, f, [(r'^discr\(self\.visibility\)$', vis), (r'^self\.visibility$', vis), (r'^[\w:<>]*promoted\[\d+\]$|^(\w+::)*Visibility::Public(\{\})?$', 'Public')])
            except Undecided as u:
                t[vis] = 'undecided: %s' % u
        ob(['C07', 'C17', 'C13'], 'Function::is_public', t == {'Public': True, 'Private': False}, 'is_public() ⇔ visibility is Public: %s' % t, f)
    f = one('function::Function::is_internal')
    if f:
        ex = [strip(expand(f, x['expr'])) for x in f.exits()]
        ok = len(ex) == 1 and is_call(ex[0], 'str>::starts_with') or (len(ex) == 1 and ex[0][0] == 'call' and ex[0][1].endswith('::starts_with'))
        ok = ok and ('str', '_') in list(walk(ex[0])) and any(isinstance(x, tuple) and x[0] == 'field' and x[2] == 'name' for x in walk(ex[0][2][0])) and not f.switches()
        ob(['C04', 'C07'], 'Function::is_internal', ok, 'is_internal() ⇔ the name starts with `_`: %s' % [show(e)[:80] for e in ex], f)
    # ---- path algebra
    f = one('grammar::ItemPath::len')
    if f:
        ex = [strip(expand(f, x['expr'])) for x in f.exits()]
        ok = len(ex) == 1 and is_call(ex[0], '::len') and strip(ex[0][2][0]) == ('field', ('arg', 1, 'self'), '0') and not f.switches()
        ob(['C11', 'C14'], 'ItemPath::len', ok, 'len() is the number of segments: %s' % [show(e)[:60] for e in ex], f)
    f = one('grammar::ItemPath::is_empty')
    if f:
        t = {}
        for n_ in (0, 1, 3):
            try:
                t[n_] = eval_fn(P, f, [(r'^(ItemPath::len\(self\)|Vec::len\(self\.0\))$', n_), (r'^Vec::is_empty\(self\.0\)$', n_ == 0)])
            except Undecided as u:
                t[n_] = 'undecided: %s' % u
        ob(['C11', 'C14'], 'ItemPath::is_empty', t == {0: True, 1: False, 3: False}, 'is_empty() ⇔ no segments: %s' % t, f)
    f = one('grammar::ItemPath::last')
    if f:
        ex = [strip(expand(f, x['expr'])) for x in f.exits()]
        ok = len(ex) == 1 and ex[0][0] == 'call' and ex[0][1].endswith('::last') and any(strip(x) == ('field', ('arg', 1, 'self'), '0') for x in walk(ex[0])) and not f.switches() and \
            not any(re.search(r'Iterator::|::get$|::first$', c_[3]) for c_ in calls_in(ex[0]))
        ob(['C11', 'C14'], 'ItemPath::last', ok, 'last() is the last segment: %s' % [show(e)[:60] for e in ex], f)
    f = one('grammar::ItemPath::parent')
    if f:
        ok, det = parent_ok(P, f)
        ob(['C11', 'C14', 'C19'], 'ItemPath::parent', ok, 'parent() is None for the empty path, else all segments but the last, in order: %s' % det, f)
    f = one('grammar::ItemPath::join')
    if f:
        ok, det = join_ok(P, f)
        ob(['C11', 'C14', 'C19'], 'ItemPath::join', ok, 'join(s) is a copy of the path with s appended at the end: %s' % det, f)
    f = one('<grammar::ItemPath as std::fmt::Display>::fmt')
    if f:
        lits = set()
        for bi in f.normal_blocks():
            for op in f.block_operands(bi):
                if op.get('k') == 'Const' and 'str' in op:
                    lits.add(op['str'])
                if op.get('k') == 'Const' and (op.get('text') or '').startswith('b"'):
                    lits.add(re.sub(r'\\x[0-9a-f]{2}', '', op['text'][2:-1]))
        srcs = []
        for L in f.loops():
            sty, src = loop_source(f, L)
            if src is not None:
                srcs.append(expand(f, src))
        okl = bool(srcs) and all(any(strip(x) == ('field', ('arg', 1, 'self'), '0') for x in walk(s_)) and not any(
            re.search(r'Iterator::(rev|take|step_by|filter|skip_while|take_while)$', c_[3]) for c_ in calls_in(s_)) for s_ in srcs)
        ok = '::' in lits and all(x in ('::', '', '{}') for x in lits) and okl
        ob(['C11', 'C13', 'C14'], 'ItemPath::Display', ok, 'a path prints as its segments in order separated by `::` (literals %s, %d loop(s) over the own segments)' % (sorted(lits), len(srcs)), f)
    # ---- Module::definitions: every definition path of the module, looked up in the registry
    f = one('module::Module::definitions')
    if f:
        ex = [strip(expand(f, x['expr'])) for x in f.exits()]
        ok = False
        det = [show(e)[:100] for e in ex]
        if len(ex) == 1:
            e = ex[0]
            ch = [c_[3] for c_ in calls_in(e)]
            fm = [c_ for c_ in calls_in(e) if c_[3].endswith('Iterator::filter_map') or c_[3].endswith('Iterator::map') or c_[3].endswith('Iterator::flat_map')]
            bad = [short(c_) for c_ in ch if re.search(r'Iterator::(skip|take|step_by|filter|take_while|skip_while)$', c_)]
            over = bool(find_calls(e, 'definition_paths')) or any(isinstance(x, tuple) and x[0] == 'field' and x[2] == 'definition_paths' for x in walk(e))
            okc = False
            if len(fm) == 1:
                pf = predicate_fn(P, fm[0][2][1])
                ex2 = [strip(expand(pf, x['expr'])) for x in pf.exits()] if pf is not None else []
                okc = len(ex2) == 1 and is_call(ex2[0], 'TypeRegistry::get') and not pf.switches()
            ok = over and not bad and okc
        ob(['C14'], 'Module::definitions', ok, 'definitions() yields the registry entry of every definition path of the module (no other filter): %s' % det, f)


def parent_ok(P, f):
    """None iff empty; otherwise ItemPath(segments[..len-1])"""
    ex = f.exits()
    vals = []
    for x in ex:
        if x['kind'] in ('none_prop',):
            continue
        vals.append(opt_norm(f, expand(f, x['expr'])))
    # form 1: an Option chain — (!is_empty).then(|| ItemPath(self.0[..len-1].to_vec())), len.checked_sub(1).map(|n| ItemPath(self.0[..n]..))
    if len(ex) == 1:
        e = strip(expand(f, ex[0]['expr']))
        if e[0] == 'call' and re.search(r'bool>?::(then|then_some)$|Option::<T>::(map|and_then|filter)$', e[1]):
            from guards import canon_pred
            conds, body = opt_sem(f, e)
            conds = [canon_pred(c_) for c_ in conj_simplify(conds)]
            selfv = (('field', ('arg', 1, 'self'), '0'), ('arg', 1, 'self'))

            def nonempty(c):
                c = strip(c)
                if c[0] == 'un' and c[1] == 'Not' and is_call(strip(c[2]), '::is_empty') and strip(strip(c[2])[2][0]) in selfv:
                    return True
                if c[0] == 'bin' and is_call(strip(c[2]), '::len') and strip(strip(c[2])[2][0]) in selfv:
                    return (c[1] in ('Gt', 'Ne') and is_int(c[3], 0)) or (c[1] == 'Ge' and is_int(c[3], 1))
                return False
            if len(conds) == 1 and nonempty(conds[0]) and _all_but_last(body):
                return True, show(e)[:80]
    # form 2: let (_last, init) = self.0.split_last()?; Some(ItemPath(init.to_vec()))
    somes = [v for v in vals if v[0] == 'some']
    props = [x for x in ex if x['kind'] == 'none_prop']
    if len(somes) == 1 and len(props) <= 1 and len(ex) == 1 + len(props):
        v = somes[0][1]
        sl = [c_ for c_ in calls_in(v) if c_[1].endswith('::split_last')]
        ok = len(sl) == 1 and strip(sl[0][2][0]) in (('field', ('arg', 1, 'self'), '0'),) or (len(sl) == 1 and any(strip(x) == ('field', ('arg', 1, 'self'), '0') for x in walk(sl[0][2][0])))
        tv = [c_ for c_ in calls_in(v) if c_[1].endswith('::to_vec')]
        ok = ok and len(tv) == 1 and any(isinstance(x, tuple) and x[0] == 'field' and x[2] == '1' for x in walk(tv[0][2][0])) and v[0] == 'agg' and v[1].endswith('ItemPath')
        return bool(ok), 'split_last form: ' + show(v)[:80]
    return False, 'unrecognised form: %s' % [x['kind'] for x in ex]


def _all_but_last(body):
    b = strip(body)
    if not (b[0] == 'agg' and b[1].endswith('ItemPath') and b[2]):
        return False
    v = strip(b[2][0][1])
    if not (v[0] == 'call' and v[1].endswith('::to_vec')):
        return False
    ix = strip(v[2][0])
    if ix[0] == 'call' and ix[1].endswith('::index') or ix[0] == 'index':
        base, rng = (ix[2][0], ix[2][1]) if ix[0] == 'call' else (ix[1], ix[2])
        rng = strip(rng)
        if not any(strip(x) == ('field', ('arg', 1, 'self'), '0') for x in walk(base)):
            return False
        if rng[0] == 'agg' and rng[1].endswith('RangeTo'):
            end = strip(rng[2][0][1])
            return end[0] == 'bin' and end[1] == 'Sub' and is_call(strip(end[2]), '::len') and is_int(end[3], 1)
    return False


def join_ok(P, f):
    """a clone of self (or of its vector) with exactly one push of the argument, returned"""
    ex = f.exits()
    if len(ex) != 1:
        return False, 'several exits'
    e = ex[0]['expr']
    e0 = strip(e)
    var = None
    if e0[0] == 'agg' and e0[1].endswith('ItemPath') and e0[2]:
        inner = e0[2][0][1]
        if strip(inner)[0] == 'var':
            var = strip(inner)[1]
        # expr_of_* shows a mutated local by its initialiser; find the local behind it
        for l, ds in ([] if var is not None else f.defs().items()):
            if len(ds) == 1 and f.expr_of_def(ds[0]) == inner and l in f.names:
                var = l
    elif e0[0] == 'var':
        var = e0[1]
    else:
        for l, ds in f.defs().items():
            if len(ds) == 1 and f.expr_of_def(ds[0]) == e and l in f.names:
                var = l
    if var is None:
        # `self.0.iter().cloned().chain(once(segment)).collect()`: every own segment in order, then the argument
        v = strip(expand(f, e0))
        if v[0] == 'agg' and v[1].endswith('ItemPath') and v[2]:
            v = strip(v[2][0][1])
        while v[0] == 'call' and v[2] and re.search(r'(Iterator::collect|FromIterator<.*>>::from_iter|::from_iter)$', v[1]):
            v = strip(v[2][0])
        if is_call(v, 'Iterator::chain') and len(v[2]) == 2:
            a, b = strip(v[2][0]), strip(v[2][1])
            while a[0] == 'call' and a[2] and re.search(r'(Iterator::cloned|Iterator::copied|slice::<impl \[T\]>::iter|IntoIterator>::into_iter|Deref>::deref|::as_slice|::clone|::to_vec)$', a[1]):
                a = strip(a[2][0])
            own = a == ('field', ('arg', 1, 'self'), '0')
            tail = (is_call(b, 'iter::once') or is_call(b, 'Option::Some') or (b[0] == 'agg' and b[1].endswith('Option::Some'))) and any(
                isinstance(y, tuple) and y[:2] == ('arg', 2) for y in walk(b)) and not any(isinstance(y, tuple) and y and y[0] == 'call' and y[1] in P.fns for y in walk(b))
            if own and tail and not f.loops():
                return True, 'own segments chained with the argument'
        return False, 'returned value is not a local copy: %s' % show(e0)[:60]
    init = f.expr_of_def(f.defs()[var][0])
    okinit = init[0] == 'call' and init[1].endswith('::clone') and (strip(init[2][0]) in (('field', ('arg', 1, 'self'), '0'), ('arg', 1, 'self')))
    mt = set()
    for bi in f.normal_blocks():
        for st in f.blocks[bi]['stmts']:
            if st['k'] == 'Assign' and st['rv']['k'] in ('Ref', 'RawPtr') and st['rv'].get('mutbl') and st['rv']['place']['local'] == var:
                mt.add(st['place']['local'])
    writes = [c for c in f.calls() if any(a.get('k') in ('Copy', 'Move') and a['place']['local'] in mt for a in c['term']['args'])]
    okw = len(writes) == 1 and re.search(r'(Vec::<T, A>::push|ItemPath::push)$', writes[0]['path'] or '') is not None and \
        strip(f.expr_of_operand(writes[0]['term']['args'][1])) == ('arg', 2, f.names.get(2, 'segment')) and not f.loops()
    if not okinit and init[0] == 'call' and re.search(r'Vec::<T>::(with_capacity|new)$', init[1]) and len(writes) == 2 and not f.loops():
        # an empty vector filled with all own segments (`extend_from_slice(&self.0)` / `extend(self.0.iter().cloned())`) and then the
        # argument: the same copy, pre-sized
        w0, w1 = sorted(writes, key=lambda c: c['block'])
        src0 = strip(expand(f, f.expr_of_operand(w0['term']['args'][1]))) if len(w0['term']['args']) > 1 else ('x',)
        while src0[0] == 'call' and src0[2] and re.search(r'(Deref>::deref|::as_slice|::iter|::cloned|::clone|IntoIterator>::into_iter|::borrow|::as_ref)$', src0[1]):
            src0 = strip(src0[2][0])
        own = src0 == ('field', ('arg', 1, 'self'), '0')
        ok0 = re.search(r'(Vec::<T, A>::extend_from_slice|Extend<.*>>::extend)$', w0['path'] or '') is not None and own and f.dominates(w0['block'], w1['block'])
        ok1 = re.search(r'(Vec::<T, A>::push|ItemPath::push)$', w1['path'] or '') is not None and strip(f.expr_of_operand(w1['term']['args'][1])) == ('arg', 2, f.names.get(2, 'segment'))
        if ok0 and ok1:
            return True, 'empty vector filled with the own segments, then the argument'
    return bool(okinit and okw), 'copy of %s, writes %s' % (show(init)[:40], [short(c['path']) for c in writes])
