"""r_function — function::build (C05, C16, C10-D2, C04-D5, C17-D2) and enum_definition::build (C08, C02-D3, C15, C17)."""
import re
from mirlib import *
from guards import *
from r_panic import cycle_without

FUNCTION = 'semantic::function::Function'


def run(ctx):
    fb(ctx)
    enum(ctx)
    resolve_discipline(ctx)
    attribute_scans(ctx)
    attribute_table(ctx)
    attr_literal_table(ctx)
    unresolved_is_deferred(ctx)


def fb(ctx):
    P = ctx.prog
    c = [f for f in P.fns.values() if f.kind != 'Closure' and any(t == '&grammar::Function' for t in f.raw.get('inputs', [])) and FUNCTION in f.raw.get('output', '') and 'Result' in f.raw.get('output', '')]
    if len(c) != 1:
        ctx.fail_closed(['C05', 'C16'], 'R-ANCHOR', 'FB', 'expected one function from &grammar::Function to Result<Function>, found %s' % [f.id for f in c])
        return
    f = c[0]
    ctx.FB = f
    where = loc(f.span)
    gs = guards_of(f)
    isv = [i for i in range(1, f.nargs + 1) if f.local_ty(i) == 'bool']
    garg = [i for i in range(1, f.nargs + 1) if f.local_ty(i) == '&grammar::Function'][0]
    GA = ('arg', garg, f.names.get(garg, '_%d' % garg))
    if len(isv) != 1:
        ctx.fail_closed(['C05'], 'R-ANCHOR', 'FB|is_vfunc', 'expected one bool parameter', where)
        return
    V = ('arg', isv[0], f.names.get(isv[0], '_%d' % isv[0]))
    # success value
    oks = [x for x in f.exits() if x['kind'] == 'ok']
    if len(oks) != 1 or oks[0]['expr'][2][0][1][0] != 'agg':
        ctx.fail_closed(['C05', 'C16'], 'R-ANCHOR', 'FB|exit', 'expected one Ok(Function{..})', where)
        return
    F = dict(oks[0]['expr'][2][0][1][2])
    body = F['body']
    # G9: !is_vfunc && body.is_none() => Err.  Decided on the CFG itself: once every branch edge that implies "the body is
    # Some" or "is_vfunc is true" is removed, Ok(Function) must be unreachable (whatever the spelling: two ifs, one match with a
    # guard, let-else)
    bvs = [x for x in walk(body) if isinstance(x, tuple) and x and x[0] == 'var' and 'FunctionBody' in f.local_ty(x[1]) and f.local_ty(x[1]).startswith('std::option::Option<')]
    ok9 = False
    g9 = []
    if bvs:
        bodyvar = bvs[0]
        removed = []
        tested = False
        for s_ in f.switches():
            c_ = s_['cond']
            neg = False
            cc_ = strip(c_)
            while cc_[0] == 'un' and cc_[1] == 'Not':
                cc_, neg = strip(cc_[2]), not neg
            for lab, tgt in s_['edges']:
                if c_[0] == 'discr' and strip(c_[1]) == bodyvar:
                    tested = True
                    if lab == 'Some':
                        removed.append((s_['block'], tgt))
                elif (is_call(cc_, 'Option::<T>::is_none') or is_call(cc_, 'Option::<T>::is_some')) and strip(cc_[2][0]) == bodyvar:
                    tested = True
                    says_some = (is_call(cc_, 'is_some') == (lab is True)) != neg
                    if says_some:
                        removed.append((s_['block'], tgt))
                elif cc_ == V:
                    if (lab is True) != neg:
                        removed.append((s_['block'], tgt))
        ok9 = tested and unreachable_without(f, oks[0]['block'], removed_edges=removed)
        # ... and not by panicking either: no explicit panic is reachable under the same assumption
        pan = [c_['block'] for c_ in f.calls(lambda r: r['path'] and re.search(r'^(core|std)::panicking::|^std::rt::(panic_fmt|begin_panic)', r['path']))]
        ok9 = ok9 and all(unreachable_without(f, pb_, removed_edges=removed) for pb_ in pan)
        g9 = [g for g in gs if g.kind == 'reject' and g.kinds <= {'err_own'} and any(strip(x) in (bodyvar, V) for x in walk(g.pred))]
    ctx.ob(['C05', 'C12'], 'R-GUARD', 'G9|missing-address-rejected', ok9, 'a non-virtual function without a body (no address attribute) is rejected before Ok(Function): !is_vfunc && body.is_none() ⇒ Err', g9[0].where() if g9 else where)
    # body definitions
    bv = strip(unwrap_all(body))
    bdefs = f.init_of(bv[1]) if bv[0] == 'var' else []
    thn = [d for d in bdefs if is_call(d, 'bool>::then') or is_call(d, 'bool::then') or (d[0] == 'call' and re.search(r'bool>?::then$', d[1]))]
    addr = [d for d in bdefs if d[0] == 'agg' and d[1].endswith('Option::Some') and d[2][0][1][0] == 'agg' and d[2][0][1][1].endswith('FunctionBody::Address')]
    okb = len(bdefs) == 2 and len(thn) == 1 and len(addr) == 1 and strip(thn[0][2][0]) == V
    if not okb and bv[0] == 'var' and len(bdefs) == 3 and len(addr) == 1 and not thn:
        # `if is_vfunc { Some(FunctionBody::Vftable{..}) } else { None }` instead of `is_vfunc.then(..)`
        from mirlib import _edge_conds
        vs, ns = [], []
        for dd in f.defs().get(bv[1], []):
            de = strip(f.expr_of_def(dd))
            conds = [(strip(c_), l_) for b_, c_, l_ in _edge_conds(f, dd[0])]
            if de[0] == 'agg' and de[1].endswith('Option::Some') and strip(de[2][0][1])[0] == 'agg' and strip(de[2][0][1])[1].endswith('FunctionBody::Vftable'):
                vs.append(conds)
            elif de[0] == 'agg' and de[1].endswith('Option::None'):
                ns.append(conds)
        okb = len(vs) == 1 and len(ns) == 1 and (strip(V), True) in vs[0] and (strip(V), False) in ns[0]
        if okb:
            vdef = [strip(f.expr_of_def(dd)) for dd in f.defs().get(bv[1], []) if strip(f.expr_of_def(dd))[0] == 'agg' and strip(f.expr_of_def(dd))[1].endswith('Option::Some') and
                    strip(strip(f.expr_of_def(dd))[2][0][1])[1].endswith('FunctionBody::Vftable')]
            direct_vft = strip(vdef[0][2][0][1]) if vdef else None
            thn = [('call', 'bool::then', [V, ('direct', direct_vft)])]
    ctx.ob(['C05', 'C04'], 'R-SLP', 'FB|body-sources', okb, 'the body is Vftable{..} exactly when is_vfunc (bool::then) or Address{..} from the address attribute: %s' % [show(d)[:100] for d in bdefs], where)
    if okb:
        a = dict(addr[0][2][0][1][2])['address']
        u = unwrap_all(a)
        while is_call(u, 'with_context') or is_call(u, 'Context::context') or is_call(u, 'map_err'):
            u = unwrap_all(u[2][0])
        tf = (is_call(u, 'try_into') or is_call(u, 'try_from') or is_call(u, 'TryInto') or is_call(u, 'TryFrom')) and any(isinstance(x, tuple) and x[0] == 'payload' and x[2] == 'IntLiteral' for x in walk(u))
        ctx.ob(['C05'], 'R-EXPR', 'FB|address-checked-conversion', bool(tf), 'the address literal is converted with a checked conversion whose failure is an error: %s' % show(a)[:140], where)
        # vftable body name = function name (C04-D5)
        cl = thn[0][2][1]
        okn = False
        det = ''
        if cl[0] == 'direct' and cl[1] is not None:
            fnm = strip(expand(f, dict(cl[1][2])['function_name']))
            det = show(fnm)

            def as0d(e):
                e = strip(e)
                while e[0] == 'call' and e[2] and re.search(r'(::clone|::to_owned|::to_string|Into<.*>>::into|From<.*>>::from)$', e[1]):
                    e = strip(e[2][0])
                if e[0] == 'call' and e[1].endswith('Ident::as_str') and e[2]:
                    return ('field', as0d(e[2][0]), '0')
                if e[0] == 'field':
                    return ('field', as0d(e[1]), e[2])
                return e
            okn = as0d(fnm) == as0d(expand(f, F['name']))
        elif cl[0] == 'closure' and cl[1] in P.fns:
            cf = P.fns[cl[1]]
            ex = cf.exits()
            if len(ex) == 1 and ex[0]['expr'][0] == 'agg' and ex[0]['expr'][1].endswith('FunctionBody::Vftable'):
                fnm = strip(dict(ex[0]['expr'][2])['function_name'])
                det = show(fnm)
                # upvar k -> captured operand k
                def res(e):
                    if e[0] == 'upvar':
                        return strip(cl[2][e[1]]) if e[1] < len(cl[2]) else e
                    if e[0] == 'field':
                        return ('field', res(strip(e[1])), e[2])
                    return e
                def as0(e):
                    # `ident.as_str()` is the text of the newtype: `ident.0`
                    e = strip(e)
                    if e[0] == 'call' and e[1].endswith('Ident::as_str') and e[2]:
                        return ('field', as0(res(strip(e[2][0]))), '0')
                    if e[0] == 'field':
                        return ('field', as0(e[1]), e[2])
                    return e
                okn = as0(res(fnm)) == as0(F['name'])
        ctx.ob(['C04'], 'R-SLP', 'FB|slot-name-agreement', okn, 'the slot name a virtual wrapper reads and the wrapper\'s own name come from the same grammar function name: %s vs %s' % (det, show(F['name'])), where)
    # address on vfunc => Err; index on non-vfunc => Err
    gv = [g for g in gs if g.kind == 'reject' and g.kinds <= {'err_own'} and strip(g.pred) == V]
    gnv = [g for g in gs if g.kind == 'reject' and g.kinds <= {'err_own'} and g.pred[0] == 'un' and g.pred[1] == 'Not' and strip(g.pred[2]) == V]
    ctx.ob(['C05'], 'R-GUARD', 'FB|address-on-virtual-rejected', len(gv) == 1, 'an address attribute on a virtual function is rejected', gv[0].where() if gv else where)
    ctx.ob(['C04'], 'R-GUARD', 'FB|index-on-non-virtual-rejected', len(gnv) == 1, 'an index attribute on a non-virtual function is rejected', gnv[0].where() if gnv else where)
    # G10 calling convention parse error propagated
    g10 = [g for g in gs if g.kind == 'reject' and g.pred[0] == 'fails' and find_calls(g.pred, 'str>::parse') or (g.kind == 'reject' and g.pred[0] == 'fails' and find_calls(g.pred, 'FromStr'))]
    ok10 = False
    if g10:
        pc = (find_calls(g10[0].pred, 'str>::parse') + find_calls(g10[0].pred, 'FromStr'))[0]
        ok10 = 'CallingConvention' in pc[4]
    ctx.ob(['C16'], 'R-GUARD', 'G10|unknown-convention-rejected', ok10, 'a calling_convention string that does not parse is an error', g10[0].where() if g10 else where)
    # E7 default convention, FB declared convention: decision table of Function.calling_convention
    rows = value_table(f, F['calling_convention'])

    def cond_kind(c, lab):
        """('declared', Some|None) for the test of the parsed attribute option; ('receiver', bool) for any(arguments, is_self)"""
        c = strip(expand(f, c)) if not (c and c[0] == 'discr') else ('discr', strip(expand(f, c[1])))
        if c[0] == 'discr':
            x = strip(c[1])
            if x[0] == 'var' and any(find_calls(d_, 'parse') for d_ in f.init_of(x[1])):
                return ('declared', lab)
            return ('other', show(c)[:60])
        neg = False
        while c[0] == 'un' and c[1] == 'Not':
            c, neg = strip(c[2]), not neg
        if is_call(c, 'Option::<T>::is_some') or is_call(c, 'Option::<T>::is_none'):
            x = strip(c[2][0])
            if x[0] == 'var' and any(find_calls(d_, 'parse') for d_ in f.init_of(x[1])):
                some = is_call(c, 'is_some') == (lab is True)
                return ('declared', 'Some' if (some != neg) else 'None')
        if (is_call(c, 'Iterator::any') or is_call(c, 'Iterator::all')) and len(c[2]) == 2:
            pf = predicate_fn(P, c[2][1])
            selfp = False
            pneg = False        # the predicate is the negation of is_self
            if pf is not None:
                if pf.id.endswith('Argument::is_self'):
                    selfp = True
                else:
                    sws = [s_ for s_ in pf.switches() if s_['cond'][0] == 'discr']
                    if sws:
                        tr = set()
                        for lab_, tgt in sws[0]['edges']:
                            if any(x_['expr'] == ('int', 1, 'bool') and pf.dominates(tgt, x_['block']) for x_ in pf.exits()):
                                tr |= set(lab_.split('|'))
                        selfp = tr == {'ConstSelf', 'MutSelf'}
                        if tr == {'Field'} and len(sws) == 1:
                            selfp, pneg = True, True
                    else:
                        ex_ = [strip(x_['expr']) for x_ in pf.exits()]
                        while len(ex_) == 1 and ex_[0][0] == 'un' and ex_[0][1] == 'Not':
                            ex_, pneg = [strip(ex_[0][2])], not pneg
                        selfp = len(ex_) == 1 and ex_[0][0] == 'call' and ex_[0][1].endswith('Argument::is_self') and len(ex_[0][2]) == 1 and \
                            strip(ex_[0][2][0])[0] == 'arg'
            if is_call(c, 'Iterator::all'):
                # all(!is_self) is !any(is_self); all(is_self) is something else
                if not pneg:
                    selfp = False
                neg = not neg
            elif pneg:
                selfp = False
            it = strip(expand(f, c[2][0]))
            src_ = it
            while src_[0] == 'call' and src_[2] and re.search(r'(slice::<impl \[T\]>::iter|::into_iter|::deref|::as_slice|::as_ref|::borrow)$', src_[1]):
                src_ = strip(src_[2][0])
            over = strip(unwrap_all(src_)) in (strip(unwrap_all(F['arguments'])), strip(unwrap_all(expand(f, F['arguments']))))
            if selfp and over:
                return ('receiver', (lab is True) != neg)
            return ('other', 'any() with another predicate or source')
        return ('other', show(c)[:60])
    tab = []
    for cs, v in rows:
        ks = [cond_kind(c, lab) for c, lab in cs]
        v = strip(v)
        if v[0] == 'agg' and v[1].split('::')[-1] in ('Thiscall', 'System', 'C', 'Cdecl', 'Stdcall', 'Fastcall', 'Vectorcall'):
            val = v[1].split('::')[-1]
        elif v[0] == 'payload' and v[2] == 'Some':
            val = 'declared-value'
        else:
            val = 'other:' + show(v)[:40]
        tab.append((sorted(set(ks), key=repr), val))
    want = [([('declared', 'Some')], 'declared-value'), ([('declared', 'None'), ('receiver', True)], 'Thiscall'), ([('declared', 'None'), ('receiver', False)], 'System')]
    norm = lambda t: sorted((sorted(k, key=repr), v) for k, v in t)
    ok7 = norm(tab) == norm(want)
    det = '; '.join('%s -> %s' % (k, v) for k, v in tab)
    ctx.ob(['C16'], 'R-EXPR', 'E7|default-convention', ok7,
           'the convention is the declared one; without an attribute it is thiscall if any argument is a receiver, else system (and depends on nothing else): %s' % det, where)
    okattr = any(v == 'declared-value' and k == [('declared', 'Some')] for k, v in tab)
    ctx.ob(['C16'], 'R-SLP', 'FB|declared-convention-used', bool(okattr), 'a declared calling_convention attribute is the function\'s convention: %s' % det[:160], where)
    # visibility / doc / name provenance (C17-D2)
    okv = is_call(F['visibility'], 'into') or is_call(F['visibility'], 'From') or is_call(F['visibility'], 'from')
    okv = okv and strip(unwrap_all(F['visibility'])) == ('field', GA, 'visibility') or (F['visibility'][0] == 'call' and strip(F['visibility'][2][0]) == ('field', GA, 'visibility'))
    okd = any(is_call(x, 'Attributes::doc') and strip(x[2][0]) == ('field', GA, 'attributes') for x in walk(F['doc']))
    okn = strip(F['name']) == ('field', ('field', GA, 'name'), '0')
    ctx.ob(['C17', 'C05'], 'R-SLP', 'FB|visibility-doc-name', bool(okv and okd and okn), 'Function.visibility, .doc and .name come from the grammar function\'s own visibility, attributes and name: %s / %s / %s' % (
        show(F['visibility'])[:60], show(F['doc'])[:80], show(F['name'])[:40]), where)
    # return type: Some(resolved declared type) exactly when a return type is declared (any spelling: map/transpose/?, match, let-else)
    okr, detr = return_type_rows(f, F['return_type'], GA)
    ctx.ob(['C04', 'C05', 'C06', 'C20'], 'R-EXPR', 'FB|return-type', okr,
           'Function.return_type is Some(resolve(scope, declared type)) exactly when the grammar function declares a return type, None exactly when it does not '
           '(no filter, default or substitution in between): %s' % detr, where)
    # arguments: map over the grammar arguments in order, each variant to its counterpart
    args = seq_chain(f, F['arguments'])
    u = unwrap_all(args)
    oka = is_call(u, 'Iterator::collect') and is_call(u[2][0], 'Iterator::map') and is_call(u[2][0][2][0], 'slice::<impl [T]>::iter') and \
        strip(strip(u[2][0][2][0][2][0])) == ('field', GA, 'arguments') or (is_call(u, 'Iterator::collect') and any(strip(x) == ('field', GA, 'arguments') for x in walk(u)) and not any(
            re.search(r'Iterator::(rev|skip|take|filter|step_by|chain|map_while|scan|take_while|skip_while|fuse|cycle)$', c_[1]) for c_ in calls_in(u)))
    ctx.ob(['C05', 'C04'], 'R-ITER', 'FB|arguments-in-order', bool(oka), 'semantic arguments are the grammar arguments mapped one to one in declaration order: %s' % show(u)[:160], where)
    # what each grammar argument becomes: &self -> ConstSelf, &mut self -> MutSelf, name: T -> Field(name, resolve(scope, T)) — the
    # resolved type itself, not something derived from it (an array that "decays" to a pointer is a different signature)
    mp = [x for x in walk(u) if is_call(x, 'Iterator::map') and len(x[2]) == 2]
    okm, detm = False, 'mapping closure not found'
    pf = predicate_fn(P, mp[0][2][1]) if mp else None
    rows = None
    if pf is None:
        # loop form: `for a in &function.arguments { arguments.push(match a { .. }) }`
        pu = [c for c in f.calls(lambda r: r['path'] and re.search(r'Vec::<T, A>::push$', r['path'])) if 'function::Argument' in str(c['term']['args'][1].get('place', {}).get('ty', '') or c['term']['args'][1].get('ty', ''))]
        if len(pu) == 1:
            rows = []
            for conds, v in value_table(f, f.expr_of_operand(pu[0]['term']['args'][1])):
                labs = sorted({lab for c_, lab in conds if isinstance(c_, tuple) and c_ and c_[0] == 'discr' and lab in ('ConstSelf', 'MutSelf', 'Named')})
                v = strip(expand(f, v))
                while v[0] in ('try',) or (v[0] == 'agg' and v[1].endswith('Result::Ok') and v[2]):
                    v = strip(v[1] if v[0] == 'try' else v[2][0][1])
                rows.append((labs, v))
            sw = [1]
    if pf is not None:
        rows = []
        sw = [s_ for s_ in pf.switches() if s_['cond'][0] == 'discr' and strip(s_['cond'][1])[0] in ('arg', 'carg') and set(s_['cond'][2]) >= {'ConstSelf', 'MutSelf', 'Named'}]
        for x in pf.exits():
            if x['kind'] not in ('ok', 'passthrough', 'other'):
                continue
            labs = sorted({lab for s_ in sw for lab, tgt in s_['edges'] if tgt == x['block'] or pf.dominates(tgt, x['block'])})
            v = strip(expand(pf, x['expr']))
            while v[0] == 'agg' and v[1].endswith('Result::Ok') and v[2]:
                v = strip(v[2][0][1])
            rows.append((labs, v))
    if rows is not None:
        def field_ok(v):
            if v[0] != 'agg' or not v[1].endswith('Argument::Field') or len(v[2]) != 2:
                return False
            nm, ty = strip(v[2][0][1]), strip(v[2][1][1])
            while nm[0] == 'call' and nm[2] and re.search(r'(::clone|::to_string|::to_owned|::as_str|Into<.*>>::into|From<.*>>::from|Deref>::deref)$', nm[1]):
                nm = strip(nm[2][0])
            named = lambda q, i: (q[0] == 'field' and q[2] == '0' and named(strip(q[1]), i)) if i is None else (strip(q)[0] == 'payload' and strip(q)[2] == 'Named')
            okn_ = (nm[0] == 'field' and nm[2] == '0' and strip(nm[1])[0] == 'payload' and strip(nm[1])[2] == 'Named') or (nm[0] == 'payload' and nm[2] == 'Named')
            for _ in range(6):
                if ty[0] == 'try':
                    ty = strip(ty[1])
                elif ty[0] == 'payload' and ty[2] in ('Some', 'Ok', 'Continue'):
                    ty = strip(ty[1])
                elif ty[0] == 'call' and ty[2] and re.search(r'(::ok_or_else|::ok_or|::with_context|::context)$', ty[1]):
                    ty = strip(ty[2][0])
                else:
                    break
            okt_ = is_call(ty, 'TypeRegistry::resolve_grammar_type') and len(ty[2]) == 3 and any(
                isinstance(y, tuple) and y and y[0] == 'payload' and y[2] == 'Named' for y in walk(ty[2][2]))
            return okn_ and okt_
        kinds = []
        for labs, v in rows:
            if v[0] == 'agg' and v[1].endswith('Argument::ConstSelf') and labs == ['ConstSelf']:
                kinds.append('ConstSelf')
            elif v[0] == 'agg' and v[1].endswith('Argument::MutSelf') and labs == ['MutSelf']:
                kinds.append('MutSelf')
            elif labs in (['Named'], []) and field_ok(v):
                kinds.append('Field')
            else:
                kinds.append('? %s under %s' % (show(v)[:60], labs))
        okm = sorted(kinds) == ['ConstSelf', 'Field', 'MutSelf'] and len(sw) >= 1
        detm = '%s' % kinds
    ctx.ob(['C05', 'C04', 'C06', 'C16'], 'R-SLP', 'FB|argument-mapping', okm,
           '&self becomes ConstSelf, &mut self becomes MutSelf, `name: T` becomes Field(name, resolve_grammar_type(scope, T)) with the resolved type unchanged: %s' % detm, where)


def return_type_rows(f, e, GA):
    """decision table of the Function.return_type value; (ok, detail)"""
    P = f.prog
    RT = ('field', GA, 'return_type')

    def peel_opt(x):
        x = strip(x)
        while x[0] == 'call' and re.search(r'Option::<T>::(as_ref|as_deref)$', x[1]) and x[2]:
            x = strip(x[2][0])
        return x

    def is_declared_payload(x):
        # the declared type itself: payload Some of function.return_type (or `try` of it inside a map closure), through reference adapters
        x = strip(x)
        while x[0] == 'call' and re.search(r'(::as_ref|::deref|::borrow|::clone)$', x[1]) and x[2]:
            x = strip(x[2][0])
        if x[0] == 'payload' and x[2] == 'Some':
            return peel_opt(x[1]) == RT
        if x[0] == 'try':
            return peel_opt(x[1]) == RT
        return False

    def resolved_declared(v):
        v = unwrap_all(v)
        while v[0] == 'call' and re.search(r'(ok_or_else|ok_or|with_context|context)$', v[1]) and v[2]:
            v = unwrap_all(v[2][0])
        return is_call(v, 'resolve_grammar_type') and len(v[2]) >= 3 and is_declared_payload(v[2][-1])

    det = []
    ok = True
    for cs, v in value_table(f, e):
        v = strip(v)
        conds = [(peel_opt(c[1]) if c[0] == 'discr' else c, lab) for c, lab in cs]
        declared = (RT, 'Some') in conds
        absent = (RT, 'None') in conds
        if v[0] == 'agg' and v[1].endswith('Option::None'):
            det.append('declared=%s -> None' % ('no' if absent else 'yes' if declared else '?'))
            ok = ok and absent
        elif v[0] == 'agg' and v[1].endswith('Option::Some') and v[2]:
            good = declared and resolved_declared(v[2][0][1])
            det.append('declared=%s -> Some(%s)' % ('yes' if declared else '?', 'resolved declared type' if good else show(v[2][0][1])[:60]))
            ok = ok and good
        else:
            x = v
            if x[0] == 'try':
                x = strip(x[1])
            if is_call(x, 'Option::<T>::transpose') or is_call(x, 'transpose'):
                x = strip(x[2][0])
            n = opt_norm(f, x)
            good = False
            if is_call(x, 'Option::<T>::map') and peel_opt(x[2][0]) == RT and n[0] == 'some':
                good = resolved_declared(n[1])
            det.append('map over the declared type -> %s' % ('Some(resolved declared type)' if good else show(v)[:80]))
            ok = ok and good
    return bool(ok and det), '; '.join(det)


def resolve_discipline(ctx):
    """R-ERR (C10-D2, C05-D2): a None from the name resolver is deferred or turned into Err, never absorbed into data"""
    P = ctx.prog
    S = {f.id for f in P.fns.values() if re.search(r'TypeRegistry::(resolve_grammar_type|resolve_string|padding_type)$', re.sub(r'::\{closure#\d+\}', '', f.id))}
    n = 0
    for f in P.fns.values():
        base = re.sub(r'(::\{closure#\d+\})+$', '', f.id)
        if base in S or f.raw.get('derived'):
            continue
        for c in f.calls(lambda r: r['path'] and re.search(r'TypeRegistry::(resolve_grammar_type|resolve_string)$', r['path'])):
            n += 1
            ce = f.expr_of_call(c['term'])
            how = None
            for g in guards_of(f):
                if g.kind in ('defer', 'reject') and g.pred[0] == 'is_none' and g.pred[1] == ce:
                    how = '%s on None' % g.kind
                if g.kind == 'reject' and g.pred[0] == 'fails':
                    e = g.pred[1]
                    while e[0] == 'call' and (e[3].endswith('Context::with_context') or e[3].endswith('Context::context') or re.search(r'Option::<T>::(ok_or|ok_or_else)$|::map_err$', e[1])):
                        e = e[2][0]
                    if e == ce:
                        how = 'converted to Err and propagated'
            what = sorted(set(fields_in(ce[2][-1])) | {x[2] for x in walk(ce[2][-1]) if isinstance(x, tuple) and x[0] == 'payload'})
            disc = '+'.join(what)[:40] or 'type'
            if how is None:
                # returned from a closure as Result via ok_or_else(..)? inside the closure
                for x in f.exits():
                    if any(y == ce for y in walk(x['expr'])):
                        xe = strip(x['expr'])
                        wrapped = xe
                        while wrapped[0] == 'call' and (wrapped[3].endswith('Context::with_context') or wrapped[3].endswith('Context::context') or re.search(r'Option::<T>::(ok_or|ok_or_else)$', wrapped[1])):
                            wrapped = strip(wrapped[2][0])
                        if wrapped == ce and xe != ce and f.kind == 'Closure' and f.parent in P.fns:
                            # Result built inside a closure: the creator must propagate it
                            par = P.fns[f.parent]
                            if any(g_.kind == 'reject' and g_.pred[0] == 'fails' and any(isinstance(y, tuple) and y[0] == 'closure' and y[1] == f.id for y in walk(g_.pred)) for g_ in guards_of(par)):
                                how = 'converted to Err inside a closure whose Result the creator propagates with `?`'
                                break
                        if x['kind'] in ('err_prop',):
                            how = 'converted to Err and propagated'
                        elif x['kind'] in ('passthrough', 'other', 'some', 'ok', 'none') and not find_calls(x['expr'], 'ok_or'):
                            how = None
                            absorbed = 'the raw Option is returned from %s into an Option combinator (and_then/map): an unresolvable name silently becomes "no value"' % f.id
                            ctx.ob(['C10', 'C05'], 'R-ERR', 'resolver-none|%s|%s' % (re.sub(r'\{closure#\d+\}', '{closure}', f.id), disc), False, absorbed, loc(c['span']), show(ce)[:160])
                            how = 'ABSORBED'
            if how == 'ABSORBED':
                continue
            ctx.ob(['C10', 'C05', 'C15'], 'R-ERR', 'resolver-none|%s|%s' % (re.sub(r'\{closure#\d+\}', '{closure}', f.id), disc), how is not None,
                   ('None from the resolver is ' + how) if how else 'the Option returned by the resolver is not checked', loc(c['span']), show(ce)[:160])
    ctx.ob(['C10'], 'R-ERR', 'resolver-none|census', n >= 4, 'resolver call sites outside the resolver examined: %d (floor 4)' % n, nontrivial=False)
    # discarded results of in-crate fallible functions
    nd = 0
    for f in P.fns.values():
        if f.raw.get('derived'):
            continue
        used = set()
        for bi in f.normal_blocks():
            for op in f.block_operands(bi):
                if op.get('k') in ('Copy', 'Move'):
                    used.add(op['place']['local'])
            for st in f.blocks[bi]['stmts']:
                if st['k'] == 'Assign':
                    rv = st['rv']
                    if rv['k'] in ('Ref', 'RawPtr', 'CopyForDeref', 'Discriminant'):
                        used.add(rv['place']['local'])
            t = f.term(bi)
            if t['k'] == 'Drop':
                pass
        for c in f.calls(lambda r: r['path'] in P.fns and not P.fns[r['path']].raw.get('derived')):
            out = P.fns[c['path']].raw.get('output', '')
            if not (out.startswith('std::option::Option<') or out.startswith('std::result::Result<')):
                continue
            d = c['term']['dest']
            nd += 1
            if d['proj']:
                continue
            l = d['local']
            ok = l in used or l == 0
            ctx.ob(['C10', 'C14'], 'R-ERR', 'discarded|%s|%s' % (re.sub(r'\{closure#\d+\}', '{closure}', f.id), short(c['path'])), ok,
                   'result of fallible %s is used' % short(c['path']) if ok else 'the Option/Result returned by %s is discarded' % c['path'], loc(c['span']), nontrivial=not ok)
    ctx.ob(['C10'], 'R-ERR', 'discarded|census', nd >= 20, 'calls of in-crate Option/Result functions examined: %d (floor 20)' % nd, nontrivial=False)
    swallowed_errors(ctx)


SWALLOW_ALLOWED = {
    # (function, sink): why no rejection is lost there
    ('semantic::semantic_state::SemanticState::add_file', 'Result::unwrap_or'):
        'strip_prefix(base).unwrap_or(path): a path outside the base directory keeps its full path; no description error is involved',
    ('backends::rust::write_module', 'match-arm(Err)'):
        'the Err of syn::parse_file: the unformatted text is still written and the error is returned afterwards (decided by C13-D1|parse-gate)',
    ('build', 'filter_map(Result::ok)'):
        'glob entries that cannot be read are skipped by lib.rs::build (directory-walk errors, not description errors)',
}
SWALLOW_SINK = re.compile(r'Result::<T, E>::(ok|err|unwrap_or|unwrap_or_else|unwrap_or_default|map_or|map_or_else|is_ok|is_ok_and|iter|iter_mut|into_iter|or|or_else|and)$')
SWALLOW_ADAPTER = re.compile(r'Iterator::(flat_map|filter_map|find_map|map_while|flatten)$')


def _swallow_props(fid):
    if 'semantic_state' in fid or 'module' in fid:
        return ['C15', 'C14', 'C10']
    if 'enum_definition' in fid:
        return ['C08', 'C10']
    if 'vftable' in fid:
        return ['C04', 'C06', 'C10']
    if 'semantic::function' in fid:
        return ['C05', 'C16', 'C10']
    if 'type_definition' in fid or 'type_registry' in fid:
        return ['C03', 'C10', 'C05']
    if fid.startswith('backends'):
        return ['C13', 'C14']
    if fid.startswith('parser'):
        return ['C18']
    return ['C14', 'C10']


def swallowed_errors(ctx):
    """an Err that is turned into a value or silently skipped is a description that should have been rejected and is accepted:
    every place where a Result loses its Err (ok(), unwrap_or*, is_ok, iterating a Result, flat_map / filter_map / flatten over a
    Result-valued closure, filter_map(Result::ok)) is either in the reviewed table or a violation"""
    P = ctx.prog
    n = 0
    seen = {}
    for f in P.fns.values():
        if f.raw.get('derived') or f.raw.get('is_test'):
            continue
        base = re.sub(r'(::\{closure#\d+\})+$', '', f.id)
        for bi in f.normal_blocks():
            t = f.term(bi)
            if t['k'] != 'Call' or not t.get('callee'):
                continue
            p_ = t['callee'].get('rpath') or t['callee']['path']
            sinks = []
            if SWALLOW_SINK.search(t['callee']['path']) or SWALLOW_SINK.search(p_):
                sinks.append('Result::' + t['callee']['path'].split('::')[-1])
            if re.search(r'IntoIterator::into_iter$', t['callee']['path']) and str(t['callee'].get('self_ty') or '').startswith('std::result::Result<'):
                sinks.append('for-over-Result')
            if SWALLOW_ADAPTER.search(t['callee']['path']):
                ad = t['callee']['path'].split('::')[-1]
                for a in t['args'][1:]:
                    a_ = strip(f.expr_of_operand(a))
                    if a_[0] in ('closure', 'fnref') and a_[1] in P.fns:
                        rt = P.fns[a_[1]].local_ty(0) if P.fns[a_[1]].kind == 'Closure' else P.fns[a_[1]].raw.get('output', '')
                        if str(rt).startswith('std::result::Result<') and ad in ('flat_map', 'map_while', 'find_map', 'filter_map'):
                            sinks.append('%s(Result-valued %s)' % (ad, 'closure' if a_[0] == 'closure' else short(a_[1])))
                    elif a_[0] == 'fnref' and re.search(r'Result::<T, E>::(ok|err)$', a_[1]):
                        sinks.append('%s(Result::%s)' % (ad, a_[1].split('::')[-1]))
                if ad == 'flatten' and re.search(r'Item = std::result::Result<|std::result::Result<', str(t['callee'].get('self_ty') or '')) and \
                        re.search(r'(Map|IntoIter|Iter)<.*std::result::Result<', str(t['callee'].get('self_ty') or '')):
                    sinks.append('flatten(over Results)')
            for sk in sinks:
                n += 1
                why = SWALLOW_ALLOWED.get((base, sk))
                k = 'swallowed|%s|%s' % (re.sub(r'\{closure#\d+\}', '{closure}', f.id), sk)
                seen[k] = seen.get(k, 0) + 1
                if seen[k] > 1:
                    k += '#%d' % seen[k]
                ctx.ob(_swallow_props(f.id), 'R-ERR', k, why is not None,
                       ('an Err is dropped by %s: %s' % (sk, why)) if why else
                       'an Err is dropped by %s in %s: whatever the failing step would have rejected is accepted (or silently left out)' % (sk, f.id), loc(t['span']),
                       nontrivial=why is None)
    # the same by hand: `match r { Ok(v) => .., Err(_) => <carry on / return Ok> }`, `if let Ok(v) = r { .. }`, `let Ok(v) = r else { return Ok(..) }`:
    # an arm taken for Err from which the function can still finish without an error
    seen_scr = set()
    for f in P.fns.values():
        if f.raw.get('derived') or f.raw.get('is_test'):
            continue
        base = re.sub(r'(::\{closure#\d+\})+$', '', f.id)
        for s_ in f.switches():
            c_ = s_['cond']
            if c_[0] != 'discr' or not (set(c_[2]) >= {'Ok', 'Err'}) or len(c_[2]) != 2:
                continue
            for lab, tgt in s_['edges']:
                if lab == 'Ok':
                    continue
                ks = f.exit_kinds_from(tgt)
                if ks <= {'err_own', 'err_prop', 'diverge', 'panic'}:
                    continue
                scr = strip(c_[1])
                if (f.id, repr(scr)) in seen_scr:
                    continue            # the same scrutinee tested again (drop flags, nested patterns)
                seen_scr.add((f.id, repr(scr)))
                n += 1
                sk = 'match-arm(Err)'
                if scr[0] == 'payload' and scr[2] == 'Some' and is_call(strip(scr[1]), 'Iterator::next') and find_calls(scr, 'glob::glob') and \
                        not [x for x in walk(scr) if isinstance(x, tuple) and x and x[0] == 'call' and x[1] in P.fns]:
                    # `for entry in glob(..)? { let Ok(path) = entry else { continue }; .. }` is `.filter_map(Result::ok)` written by hand
                    sk = 'filter_map(Result::ok)'
                why = SWALLOW_ALLOWED.get((base, sk))
                k = 'swallowed|%s|%s' % (re.sub(r'\{closure#\d+\}', '{closure}', f.id), sk)
                seen[k] = seen.get(k, 0) + 1
                if seen[k] > 1:
                    k += '#%d' % seen[k]
                ctx.ob(_swallow_props(f.id), 'R-ERR', k, why is not None,
                       ('the Err arm of a match on %s does not end in an error: %s' % (show(strip(c_[1]))[:50], why)) if why else
                       'the Err arm of a match on %s in %s can finish without an error (%s): whatever the failing step would have rejected is accepted' % (show(strip(c_[1]))[:50], f.id, sorted(ks)),
                       loc(s_.get('span') or f.span), nontrivial=why is None)
    # the expected count is small (possibly zero after a refactoring): the matchers are tested on the spellings they must recognise
    selftest = bool(SWALLOW_SINK.search('std::result::Result::<T, E>::ok')) and bool(SWALLOW_SINK.search('std::result::Result::<T, E>::unwrap_or')) and \
        bool(SWALLOW_ADAPTER.search('std::iter::Iterator::flat_map')) and not SWALLOW_SINK.search('std::option::Option::<T>::ok_or')
    ctx.ob(['C10'], 'R-ERR', 'swallowed|census', selftest, 'places where a Result loses its Err: %d, all in the reviewed table (matchers self-tested on ok / unwrap_or / flat_map)' % n, nontrivial=False)


def resolved_struct_fields(f, ed, tyname):
    """a struct value built with the crate's constructors / builders / later field stores instead of one literal shows up with every
    field as `<that local>.<field>` (or as the per-field local the loader split it into): each is read as the value the field ends
    up with, where that can be said without a case split"""
    ed = dict(ed)
    for k_, v_ in list(ed.items()):
        v0 = strip(v_)
        fv = None
        if v0[0] == 'field' and v0[2] == k_ and strip(v0[1])[0] == 'var' and f.local_ty(strip(v0[1])[1]).endswith(tyname):
            fv = final_field_value(f, strip(v0[1]), k_)
        elif v0[0] == 'var' and len(f.defs().get(v0[1], [])) >= 2 and str(f.names.get(v0[1], '')).endswith('.' + k_):
            fv = final_field_value(f, v0, k_)
        if fv is not None:
            ed[k_] = fv
    return ed


# ------------------------------------------------------------------------------------------------
def enum(ctx):
    P = ctx.prog
    c = [f for f in P.fns.values() if f.kind != 'Closure' and any(t == '&grammar::EnumDefinition' for t in f.raw.get('inputs', [])) and 'ItemStateResolved' in f.raw.get('output', '')]
    if len(c) != 1:
        ctx.fail_closed(['C08'], 'R-ANCHOR', 'EB', 'expected one function from &grammar::EnumDefinition to ItemStateResolved, found %s' % [f.id for f in c])
        return
    f = c[0]
    where = loc(f.span)
    gs = guards_of(f)
    oks = [x for x in f.exits() if x['kind'] == 'ok_some']
    if len(oks) != 1:
        ctx.fail_closed(['C08'], 'R-ANCHOR', 'EB|exit', 'expected one Ok(Some(..))', where)
        return
    isr = dict(oks[0]['expr'][2][0][1][2][0][1][2])
    ed = None
    for x in walk(isr['inner']):
        if isinstance(x, tuple) and x[0] == 'agg' and x[1].endswith('EnumDefinition'):
            ed = dict(x[2])
    if not ed:
        ctx.fail_closed(['C08'], 'R-ANCHOR', 'EB|exit', 'no EnumDefinition literal', where)
        return
    ed = resolved_struct_fields(f, ed, 'EnumDefinition')
    ty = strip(ed['type_'])
    # the enum's own doc text is the doc of its own attribute list (C17), handed on as it is
    d0 = strip(ed.get('doc', ('x',)))
    hops_ = 0
    while d0[0] == 'var' and len(f.defs().get(d0[1], [])) == 1 and not (1 <= d0[1] <= f.nargs) and hops_ < 4:
        d0, hops_ = strip(f.expr_of_def(f.defs()[d0[1]][0])), hops_ + 1
    dcall = unwrap_all(d0)
    okdoc = is_call(dcall, 'Attributes::doc') and dcall[2] and strip(dcall[2][0])[0] == 'field' and strip(dcall[2][0])[2] == 'attributes' and \
        strip(strip(dcall[2][0])[1])[0] in ('arg', 'var') and not any(isinstance(y, tuple) and y and y[0] == 'payload' for y in walk(strip(dcall[2][0])))
    ctx.ob(['C17'], 'R-SLP', 'EB|doc-from-own-attributes', okdoc, 'EnumDefinition.doc is Attributes::doc of the definition\'s own attribute list, unchanged: %s' % show(d0)[:100], where)
    # D3 (C02): size and alignment of the base type
    def pure_call(e, name):
        # the value is the call itself (possibly unwrapped / given an error context), nothing computed on top of it
        e = unwrap_all(e)
        while is_call(e, 'Context::with_context') or is_call(e, 'Context::context') or is_call(e, 'ok_or'):
            e = unwrap_all(e[2][0])
        return is_call(e, name) and strip(e[2][0]) == ty
    oksz = pure_call(isr['size'], 'Type::size') and pure_call(isr['alignment'], 'Type::alignment')
    okty = any(is_call(x, 'resolve_grammar_type') for x in walk(ty))
    ctx.ob(['C08', 'C02'], 'R-SLP', 'EB|size-align-of-base', oksz and okty, 'an enum\'s size and alignment are Type::size/alignment of the very type stored as its representation: %s' % show(ty)[:120], where)
    # E4 counter
    fields = strip(ed['fields'])
    pushes = [c_ for c_ in f.calls(lambda r: r['path'] and r['path'].endswith('Vec::<T, A>::push')) if strip(f.expr_of_operand(c_['term']['args'][0])) == fields]
    ok4 = False
    det = ''
    if len(pushes) == 1 and fields[0] == 'var':
        pe = f.expr_of_operand(pushes[0]['term']['args'][1])
        if pe[0] == 'tuple' and len(pe[1]) == 2:
            val = strip(pe[1][1])
            if val[0] == 'var':
                vdefs = f.init_of(val[1])
                def pure_lit(d):
                    # the literal itself: the IntLiteral payload (or the verified projection onto it), nothing computed on top
                    x = unwrap_all(d)
                    while is_call(x, 'Context::with_context') or is_call(x, 'Context::context') or is_call(x, 'ok_or'):
                        x = unwrap_all(x[2][0])
                    if x[0] == 'payload' and x[2] == 'IntLiteral':
                        return True
                    return x[0] == 'call' and variant_projection(P, x[1]) == ('IntLiteral', 0)
                lit = [d for d in vdefs if pure_lit(d)]
                ctr = [d for d in vdefs if strip(d)[0] == 'var' and strip(d) != val]
                if len(vdefs) == 2 and len(lit) == 1 and len(ctr) == 1:
                    cv = strip(ctr[0])
                    cdefs = f.init_of(cv[1])
                    z = [d for d in cdefs if is_int(d, 0)]
                    inc = [d for d in cdefs if (d[0] == 'bin' and d[1] == 'Add' and strip(d[2]) == val and is_int(d[3], 1)) or
                           (is_call(unwrap_all(d), 'checked_add') and strip(unwrap_all(d)[2][0]) == val and is_int(unwrap_all(d)[2][1], 1))]
                    ok4 = len(cdefs) >= 2 and len(z) == 1 and len(inc) == len(cdefs) - 1
                    # ... on every trip: no way round the loop that leaves the counter as it was
                    inc_blocks = {d_[0] for d_ in f.defs().get(cv[1], []) if f.expr_of_def(d_) in inc}
                    L_ = innermost_loop(f, pushes[0]['block'])
                    ok4 = ok4 and bool(L_) and bool(inc_blocks) and inc_blocks <= L_[1] and not cycle_without(f, L_[1], L_[0], inc_blocks)
                    det = 'value ∈ %s; counter ∈ %s' % ([show(d)[:60] for d in vdefs], [show(d)[:60] for d in cdefs])
        L = innermost_loop(f, pushes[0]['block'])
        sty, src = loop_source(f, L) if L else (None, None)
        every = bool(L) and not cycle_without(f, L[1], L[0], {pushes[0]['block']}) and sty is not None and re.match(r"^(std::iter::Enumerate<)?std::slice::Iter<'_, grammar::EnumStatement>>?$", sty) is not None
        ok4 = ok4 and every
        nm = strip(pe[1][0]) if pe[0] == 'tuple' else None
        ok4 = ok4 and nm is not None and nm[0] == 'field' and nm[2] == '0'
    ctx.ob(['C08', 'C20', 'C13'], 'R-EXPR', 'E4|discriminant-counter', ok4, 'each variant gets its literal or the counter; the counter starts at 0 and is always set to value + 1; every statement is pushed once in order: %s' % det, where)
    # G12 default consistency
    dflt = strip(ed['defaultable'])
    di = strip(ed['default_index'])
    ga = [g for g in gs if g.kind == 'reject' and g.pred[0] == 'is_none' and strip(g.pred[1]) == di and any(strip(s['cond']) == dflt and lab is True and f.dominates(tgt, g.block) for s in f.switches() for lab, tgt in s['edges'])]
    gb = [g for g in gs if g.kind == 'reject' and g.pred[0] == 'is_some' and strip(g.pred[1]) == di and any(strip(s['cond']) == dflt and lab is False and f.dominates(tgt, g.block) for s in f.switches() for lab, tgt in s['edges'])]
    gc = [g for g in gs if g.kind == 'reject' and g.pred[0] == 'is_some' and strip(g.pred[1]) == di and innermost_loop(f, g.block)]
    sw = [s for s in f.switches() if strip(s['cond']) == dflt]
    cov = False
    if len(ga) == 1 and len(gb) == 1:
        # each test lies on every path to success that takes the matching edge of its `defaultable` branch
        def cov1(g, want):
            best = None
            for s in f.switches():
                if strip(s['cond']) == dflt or (s['cond'][0] == 'un' and strip(s['cond'][2]) == dflt):
                    neg = s['cond'][0] == 'un'
                    mine = [(s['block'], tgt) for lab, tgt in s['edges'] if (lab is (want != neg)) and f.dominates(tgt, g.block)]
                    if mine and (best is None or f.dominates(best[0], s['block'])):
                        others = [(s['block'], tgt) for lab, tgt in s['edges'] if (s['block'], tgt) not in mine]
                        best = (s['block'], others)
            return best is not None and covers_all_paths(f, g, exempt_edges=best[1])
        cov = cov1(ga[0], True) and cov1(gb[0], False)
    ctx.ob(['C08'], 'R-GUARD', 'G12|default-consistency', len(ga) == 1 and len(gb) == 1 and len(gc) == 1 and cov,
           'defaultable without a default, a default without defaultable, and a second default are all rejected (%d/%d/%d), on every path to success' % (len(ga), len(gb), len(gc)), where)
    # default_index = len(fields) - 1 after the push
    ddefs = f.init_of(di[1]) if di[0] == 'var' else []
    okdi = False
    for d in ddefs:
        if d[0] == 'agg' and d[1].endswith('Option::Some'):
            v = d[2][0][1]
            if v[0] == 'bin' and v[1] == 'Sub' and is_int(v[3], 1) and is_call(v[2], 'Vec::<T, A>::len') and strip(v[2][2][0]) == fields:
                # the assignment is dominated by the push in the iteration
                for (bi, si, kind, payload, span) in f.defs()[di[1]]:
                    e = f.expr_of_def((bi, si, kind, payload, span))
                    if e == d and pushes and f.dominates(pushes[0]['block'], bi):
                        okdi = True
            # or: the length is taken before the push of the same iteration (`let i = fields.len(); fields.push(..); .. Some(i)`)
            if is_call(v, 'Vec::<T, A>::len') and strip(v[2][0]) == fields and pushes:
                L = innermost_loop(f, pushes[0]['block'])
                for (bi, si, kind, payload, span) in f.defs()[di[1]]:
                    if f.expr_of_def((bi, si, kind, payload, span)) != d or kind != 'rv':
                        continue
                    hops = 0
                    while payload.get('k') == 'Use' and hops < 5:
                        hops += 1
                        pl = (payload.get('op') or {}).get('place') or {}
                        ds_ = f.defs().get(pl.get('local'), [])
                        if pl.get('proj') or len(ds_) != 1 or ds_[0][2] != 'rv':
                            break
                        payload = ds_[0][3]
                    if not payload.get('ops'):
                        continue
                    pl = payload['ops'][0].get('place') or {}
                    l2 = pl.get('local')
                    if l2 is None or pl.get('proj') or len(f.defs().get(l2, [])) != 1:
                        continue
                    hops = 0
                    while hops < 5 and f.defs()[l2][0][2] == 'rv' and f.defs()[l2][0][3].get('k') == 'Use':
                        hops += 1
                        p2 = (f.defs()[l2][0][3].get('op') or {}).get('place') or {}
                        if p2.get('proj') or len(f.defs().get(p2.get('local'), [])) != 1:
                            break
                        l2 = p2['local']
                    lb = f.defs()[l2][0][0]
                    if L and lb in L[1] and f.dominates(lb, pushes[0]['block']) and f.dominates(pushes[0]['block'], bi) and len(pushes) == 1:
                        okdi = True
    if not okdi and pushes:
        # or: the position of the statement in an enumerate() over the statement list, when every statement pushes exactly one field
        L_ = innermost_loop(f, pushes[0]['block'])
        sty_, src_ = loop_source(f, L_) if L_ else (None, None)
        if sty_ and re.match(r"^std::iter::Enumerate<std::slice::Iter<'_, grammar::EnumStatement>>$", sty_) and len(pushes) == 1 and not cycle_without(f, L_[1], L_[0], {pushes[0]['block']}):
            for d in ddefs:
                if d[0] == 'agg' and d[1].endswith('Option::Some'):
                    v = strip(d[2][0][1])
                    if v[0] == 'field' and v[2] == '0' and strip(v[1])[0] == 'payload' and strip(v[1])[2] == 'Some' and is_call(strip(strip(v[1])[1]), 'Iterator::next') and \
                            not any(re.search(r'Iterator::(skip|take|filter|rev|step_by|chain)$', c_[3]) for c_ in calls_in(expand(f, src_))):
                        okdi = True
    ctx.ob(['C08'], 'R-EXPR', 'EB|default-index', okdi, 'the default index is the index of the variant just pushed (len − 1 after the push): %s' % [show(d)[:80] for d in ddefs], where)
    # G17 range check (absent today)
    g17 = [g for g in gs if g.kind == 'reject' and (find_calls(g.pred, 'try_from') or find_calls(g.pred, 'TryFrom') or find_calls(g.pred, 'checked_') or
                                                    (cmp_parts(g.pred) and any(isinstance(x, tuple) and x[0] == 'var' and f.local_ty(x[1]) == 'isize' for x in walk(g.pred))))]
    ctx.ob(['C08'], 'R-GUARD', 'G17|discriminant-fits-base', len(g17) >= 1,
           'a discriminant that does not fit the base type must be rejected; ' + ('found a range test' if g17 else 'no test of the value against the base type\'s range exists — the backend emits `value as _`, which truncates'), where)
    # marker attributes: copyable => cloneable (C13-D3, C17-D3)
    okm = True
    homes = set()
    decoded = False
    for nm in ('copyable', 'cloneable', 'defaultable'):
        hf, hv = state_home(f, ed[nm])
        if hv[0] != 'var' and nm != 'defaultable':
            decoded = True      # decoded from other state: the finite-state check (copyable-implies-cloneable) decides it
        else:
            okm = okm and hv[0] == 'var'
        homes.add(hf.id)
    if decoded:
        hf_, _ = state_home(f, ed['defaultable'])
        okm = okm and marker_state_machine(P, hf_, ed['copyable'], ed['cloneable'])[0]
    okm = okm and len(homes) == 1
    hf = P.fns[sorted(homes)[0]]
    strs = [op.get('str') for bi in hf.normal_blocks() for op in hf.block_operands(bi) if op.get('k') == 'Const' and 'str' in op]
    strs += [op.get('str') for bi in f.normal_blocks() for op in f.block_operands(bi) if op.get('k') == 'Const' and 'str' in op]
    okm = okm and all(s in strs for s in ('copyable', 'cloneable', 'defaultable', 'singleton'))
    ctx.ob(['C17', 'C13'], 'R-SLP', 'EB|markers', okm, 'copyable/cloneable/defaultable/default/singleton attributes are read into the enum definition', where)
    copy_implies_clone(ctx, f, ed, 'EB')
    A = getattr(ctx, 'A', None)
    if A:
        tdb = A['TDB']
        ok_exit = [x for x in tdb.exits() if x['kind'] == 'ok_some']
        td = None
        for x in walk(ok_exit[0]['expr']):
            if isinstance(x, tuple) and x[0] == 'agg' and x[1].endswith('type_definition::TypeDefinition'):
                td = dict(x[2])
        if td:
            copy_implies_clone(ctx, tdb, td, 'TDB')


class _Undec(Exception):
    pass


def marker_state_machine(P, f, e_copy, e_clone):
    """decide `copyable == (some attribute is copyable)` and `cloneable == (some attribute is copyable or cloneable)` when the
    two are *decoded* from other state (e.g. a three-valued private enum): abstract interpretation of the attribute loop over the
    finite values of the state locals, for the attribute kinds copyable / cloneable / anything else, then a search of all
    reachable (state, set of attributes seen).  Returns (ok, detail); raises nothing (undecided -> (False, reason))."""
    LITS = ('copyable', 'cloneable')

    def enum_variants(ty):
        a = P.adts.get(ty)
        if a and a.get('kind') == 'Enum' and all(not v['fields'] for v in a['variants']):
            return [v['name'] for v in a['variants']]
        return None

    def const_val(e, ty_hint=None):
        e = strip(e)
        if e[0] == 'int':
            return bool(e[1]) if (len(e) > 2 and e[2] == 'bool') else e[1]
        if e[0] == 'agg' and not e[2] and '::' in e[1]:
            return e[1].split('::')[-1]
        if e[0] == 'const':
            m = re.search(r'::promoted\[(\d+)\]$', str(e[1]))
            if m:
                pr = [p_ for p_ in (f.raw.get('promoted') or []) if p_['i'] == int(m.group(1))]
                tx = (pr[0].get('texts') or ['']) if pr else ['']
                m2 = re.match(r'^Adt\(DefId\([^~]*~ \w+\[\w+\]::([\w:]+)\), (\d+), \[\]', tx[0])
                if m2:
                    vs = enum_variants(m2.group(1))
                    if vs and int(m2.group(2)) < len(vs):
                        return vs[int(m2.group(2))]
        raise _Undec('not a constant: ' + show(e)[:50])
    try:
        # state locals: multi-definition locals of bool / fieldless-enum type that the two results are decoded from
        S = []
        for e in (e_copy, e_clone):
            for x in walk(expand(f, e)):
                if isinstance(x, tuple) and x and x[0] == 'var' and isinstance(x[1], int) and len(f.defs().get(x[1], [])) >= 2 and \
                        (f.local_ty(x[1]) == 'bool' or enum_variants(f.local_ty(x[1]))) and x[1] not in S:
                    S.append(x[1])
        if not S:
            return False, 'no finite state local found'
        defblocks = {s_: [(d[0], const_val(f.expr_of_def(d))) for d in f.defs()[s_]] for s_ in S}
        # the attribute loop: the innermost loop that contains the non-initial definitions
        loops = [L for L in f.loops() if any(b in L[1] for s_ in S for b, v in defblocks[s_])]
        if not loops:
            return False, 'state is not updated in a loop'
        L = min(loops, key=lambda L_: len(L_[1]))
        h, body, latches = L
        init = {}
        for s_ in S:
            outside = [v for b, v in defblocks[s_] if b not in body]
            if len(outside) != 1:
                return False, 'initial value of %s unclear' % f.names.get(s_)
            init[s_] = outside[0]
        start = [tgt for s2 in f.switches() if s2['block'] in body and s2['cond'][0] == 'discr' and is_call(strip(s2['cond'][1]), 'Iterator::next') for lab, tgt in s2['edges'] if lab == 'Some']
        if len(start) != 1:
            return False, 'loop element switch not found'
        sw = {s2['block']: s2 for s2 in f.switches()}

        def val(e, st):
            e = strip(e)
            if e[0] == 'var' and e[1] in st:
                return st[e[1]]
            if e[0] == 'un' and e[1] == 'Not':
                return not val(e[2], st)
            if e[0] == 'bin' and e[1] in ('Eq', 'Ne'):
                a, b = val(e[2], st), val(e[3], st)
                return (a == b) if e[1] == 'Eq' else (a != b)
            if e[0] == 'call' and re.search(r'::(eq|ne)$', e[1]) and len(e[2]) == 2 and not any(isinstance(y, tuple) and y and y[0] == 'str' for y in e[2]):
                a, b = val(e[2][0], st), val(e[2][1], st)
                return (a == b) if e[1].endswith('eq') else (a != b)
            if e[0] == 'discr':
                return val(e[1], st)
            return const_val(e)

        def step(kind, st0):
            """states at the end of one trip for an attribute of this kind (several when a test cannot be decided)"""
            outs = []
            work = [(start[0], dict(st0), 0)]
            while work:
                b, st, n = work.pop()
                if n > 200:
                    raise _Undec('trip too long')
                if b == h or b in latches and False:
                    outs.append(st)
                    continue
                if b not in body:
                    continue        # the trip leaves the loop (an error): no state to carry on
                for st_ in f.blocks[b]['stmts']:
                    if st_['k'] == 'Assign' and not st_['place']['proj'] and st_['place']['local'] in S:
                        st[st_['place']['local']] = const_val(f.expr_of_rvalue(st_['rv']))
                s2 = sw.get(b)
                if s2 is None:
                    for y in f.succ(b):
                        work.append((y, dict(st), n + 1))
                    continue
                c = s2['cond']
                lt = _literal_test(P, c)
                if lt:
                    lit, want = lt
                    v = (lit == kind) == want
                    work.extend((t, dict(st), n + 1) for lab, t in s2['edges'] if lab is v)
                    continue
                try:
                    v = val(expand(f, c), st)
                    nxt = [t for lab, t in s2['edges'] if lab == v or lab is v or (isinstance(lab, str) and isinstance(v, str) and v in lab.split('|'))]
                    if nxt:
                        work.extend((t, dict(st), n + 1) for t in nxt[:1])
                        continue
                except _Undec:
                    pass
                # which kind of attribute it is: `copyable` / `cloneable` are bare identifiers
                if c[0] == 'discr' and kind in LITS and any(isinstance(lab, str) and 'Ident' in lab.split('|') for lab, t in s2['edges']) and \
                        any(isinstance(y, tuple) and y and y[0] == 'payload' and y[2] == 'Some' and is_call(strip(y[1]), 'Iterator::next') for y in walk(c[1])):
                    work.extend((t, dict(st), n + 1) for lab, t in s2['edges'] if isinstance(lab, str) and 'Ident' in lab.split('|'))
                    continue
                # a test this analysis does not follow (an argument pattern, another attribute's name): every outcome
                work.extend((t, dict(st), n + 1) for lab, t in s2['edges'])
            return outs
        seen = set()
        frontier = [(tuple(sorted(init.items())), frozenset())]
        bad = []
        while frontier:
            stt, H = frontier.pop()
            if (stt, H) in seen:
                continue
            seen.add((stt, H))
            st = dict(stt)
            got = (val(expand(f, e_copy), st), val(expand(f, e_clone), st))
            want = ('copyable' in H, 'copyable' in H or 'cloneable' in H)
            if got != want:
                bad.append((dict((f.names.get(k, k), v) for k, v in st.items()), sorted(H), got))
            if len(seen) > 400:
                return False, 'state space too large'
            for kind in LITS + ('other',):
                for st2 in step(kind, st):
                    frontier.append((tuple(sorted(st2.items())), H | ({kind} if kind in LITS else set())))
        return (not bad), 'finite-state check over %s: %d reachable (state, attributes seen) pairs%s' % (
            [f.names.get(s_, s_) for s_ in S], len(seen), '' if not bad else '; wrong: %s' % bad[:2])
    except _Undec as u:
        return False, 'undecided: %s' % u
    except Exception as ex:
        return False, 'undecided (%s)' % ex


def copy_implies_clone(ctx, f, d, tag):
    """wherever the `copyable` flag is set to true, `cloneable` is set to true on the same path"""
    (f1, cp), (f2, cl) = state_home(f, d['copyable']), state_home(f, d['cloneable'])
    ok = False
    if cp[0] == 'var' and cl[0] == 'var' and f1 is f2:
        f = f1
        sets_cp = [(bi) for (bi, si, kind, payload, span) in f.defs()[cp[1]] if f.expr_of_def((bi, si, kind, payload, span)) == ('int', 1, 'bool')]
        sets_cl = [(bi) for (bi, si, kind, payload, span) in f.defs()[cl[1]] if f.expr_of_def((bi, si, kind, payload, span)) == ('int', 1, 'bool')]
        ok = bool(sets_cp) and all(any(b == c or (f.dominates(b, c) and f.postdominates(c, b)) or (f.dominates(c, b) and f.postdominates(b, c)) for c in sets_cl) for b in sets_cp)
    det = ''
    if not ok and not (cp[0] == 'var' and cl[0] == 'var'):
        # the two flags are decoded from other state (a private enum with three values, ..): decide by exploring that state
        ok, det = marker_state_machine(ctx.prog, f1 if f1 is f2 else f, d['copyable'], d['cloneable'])
    ctx.ob(['C13', 'C17'], 'R-PAIR', '%s|copyable-implies-cloneable' % tag, ok, 'whenever copyable is set, cloneable is set on the same path (Copy requires Clone) %s' % det, loc(f.span))


# ------------------------------------------------------------------------------------------------
def scan_tags(fid_, what):
    if 'Attributes::doc' in fid_:
        return ['C17']
    if 'enum_definition' in fid_:
        return ['C08', 'C17', 'C15']
    if 'function::build' in fid_:
        return ['C05', 'C16', 'C04', 'C20']
    if 'vftable' in fid_:
        return ['C04', 'C20']
    if 'add_module' in fid_:
        return ['C15', 'C02']
    if 'type_definition::build' in fid_ and 'statements' in what:
        return ['C01', 'C07', 'C20', 'C04', 'C06']
    if 'type_definition::build' in fid_:
        return ['C02', 'C03', 'C17', 'C15']
    return ['C17']


def attribute_scans(ctx):
    """every loop that scans an attribute list looks at every attribute: the only ways out of the loop are the end of the
    list and an Err (an early `break` makes the meaning of an item depend on the order in which its attributes are written)"""
    P = ctx.prog
    n = 0
    for f in P.fns.values():
        if f.raw.get('derived') or f.id.startswith('parser::'):
            continue
        for L in f.loops():
            h, body, latches = L
            drv = None
            for bi in sorted(body):
                t = f.term(bi)
                if t['k'] == 'Call' and t.get('callee') and t['callee']['path'].endswith('Iterator::next'):
                    sty = t['callee'].get('self_ty') or (t['callee'].get('gargs') or ['?'])[0]
                    if re.match(r"^std::slice::Iter<'_, grammar::Attribute>$", sty):
                        drv = (bi, t)
            if not drv:
                continue
            # innermost loop of this driver only
            inner = innermost_loop(f, drv[0])
            if inner is None or inner[0] != h:
                continue
            n += 1
            nb, nt = drv
            # the switch on the result of next()
            sw = [s for s in f.switches() if s['block'] in body and s['cond'][0] == 'discr' and s['cond'][1] == f.expr_of_call(nt)]
            none_edges = {(s['block'], tgt) for s in sw for lab, tgt in s['edges'] if lab == 'None'}
            bad = []
            for b in body:
                for s_ in f.succ(b):
                    if s_ in body or (b, s_) in none_edges:
                        continue
                    ks = f.exit_kinds_from(s_)
                    if not ks and f.term(s_)['k'] == 'Unreachable':
                        continue
                    if not (ks and ks <= {'err_own', 'err_prop', 'diverge'}):
                        bad.append(loc(f.term(b)['span']))
            src = strip(f.expr_of_operand(nt['args'][0]))
            what = sorted(set(fields_in(expand(f, src))))
            key = '%s|%s' % (re.sub(r'\{closure#\d+\}', '{closure}', f.id), '+'.join(what)[:40] or 'attributes')
            tags = scan_tags(f.id, what)
            ctx.ob(tags, 'R-ITER', 'attribute-scan-complete|' + key, not bad,
                   'the scan over the attribute list ends only at the end of the list or with an error' + ('' if not bad else ' — it can leave early at %s' % bad), loc(f.term(h)['span']))
    # an attribute is recognised wherever it stands in its list: every test of an attribute's kind reads an element handed out by
    # an iteration (or a parameter / closure parameter), never a fixed position of the list (slice pattern, [i], first(), last())
    m = 0
    for f in P.fns.values():
        if f.raw.get('derived') or f.id.startswith('parser::'):
            continue
        bad = []
        cnt = 0
        for bi in f.normal_blocks():
            for st in f.raw['blocks'][bi]['stmts']:
                rv = st.get('rv') or {}
                if rv.get('k') != 'Discriminant' or rv['place'].get('ty') != 'grammar::Attribute':
                    continue
                cnt += 1
                x = f.expr_of_place(rv['place'])
                while isinstance(x, tuple) and x:
                    if x[0] in ('cindex', 'index', 'subslice'):
                        bad.append(loc(st.get('span') or f.span))
                        break
                    if x[0] == 'call':
                        if re.search(r'(::first|::last|::get|::get_mut|::split_first|::split_last|::nth|::pop|::swap_remove|::remove|::first_chunk|::last_chunk)$', x[1]):
                            bad.append(loc(st.get('span') or f.span))
                            break
                        if x[1].endswith('Iterator::next') or not x[2]:
                            break
                        x = x[2][0]
                    elif len(x) > 1 and isinstance(x[1], tuple):
                        x = x[1]
                    else:
                        break
        if cnt:
            m += 1
            ctx.ob(list(dict.fromkeys(scan_tags(f.id, []) + ['C20'])), 'R-ITER', 'attribute-kind-tested-on-scanned-element|' + re.sub(r'\{closure#\d+\}', '{closure}', f.id), not bad,
                   'an attribute is recognised wherever it stands in its list: %d kind tests, all on an element handed out by an iteration%s' % (
                       cnt, '' if not bad else ' — fixed position of the list read at %s' % sorted(set(bad))), loc(f.span))
    ctx.ob(['C17'], 'R-ITER', 'attribute-kind-tested-on-scanned-element|census', m >= 3, 'functions that test attribute kinds: %d (floor 3)' % m, nontrivial=False)
    ctx.ob(['C17'], 'R-ITER', 'attribute-scan-complete|census', n >= 8, 'attribute scanning loops examined: %d (floor 8)' % n, nontrivial=False)
    # Attributes::doc joins all doc attributes in order
    d = [f for f in P.fns.values() if f.id.endswith('grammar::Attributes::doc')]
    if d:
        f = d[0]
        fam = [f] + P.closures_of(f)
        ps = [(g, c) for g in fam for c in g.calls(lambda r: r['path'] and r['path'].endswith('String::push_str'))]
        pc = [(g, c) for g in fam for c in g.calls(lambda r: r['path'] and r['path'].endswith('String::push'))]
        ok = len(ps) == 1 and len(pc) == 1 and ps[0][0] is pc[0][0]
        if ok:
            g, c1 = ps[0]
            c2 = pc[0][1]
            v = g.expr_of_operand(c1['term']['args'][1])
            sep = g.expr_of_operand(c2['term']['args'][1])
            okv = bool(find_calls(expand(g, v), 'string_literal'))
            per_item = False
            if g is f:
                L = innermost_loop(f, c1['block'])
                per_item = bool(L) and c2['block'] in L[1]
            else:
                # the appends sit in the callback of a fold over the collected doc strings: once per string, in order
                for cf_ in f.calls(lambda r: r['gpath'] and r['gpath'].endswith('Iterator::fold')):
                    fe = f.expr_of_call(cf_['term'])
                    if len(fe[2]) == 3 and fe[2][2][0] == 'closure' and fe[2][2][1] == g.id:
                        src_ = expand(f, fe[2][0])
                        per_item = not any(re.search(r'Iterator::(rev|skip|take|step_by|skip_while|take_while|map_while|scan|fuse|cycle)$', c_[3]) for c_ in calls_in(src_))
                        in_chain = bool(find_calls(src_, 'string_literal')) or any(
                            isinstance(y, tuple) and y and y[0] == 'closure' and y[1] in P.fns and any(find_calls(expand(P.fns[y[1]], x_['expr']), 'string_literal') for x_ in P.fns[y[1]].exits())
                            for y in walk(src_))
                        okv = okv or (strip(v)[0] == 'arg' and in_chain)
            ok = okv and (sep == ('int', 10, 'char') or (sep[0] in ('const', 'str') and '\\n' in str(sep[1]))) and per_item
        ctx.ob(['C17', 'C20'], 'R-EXPR', 'DOC|joined-in-order', ok, 'Attributes::doc appends the string of every `doc = ".."` attribute in list order, separated by a newline', loc(f.span))


# ------------------------------------------------------------------------------------------------
def _literal_test(P, c, depth=0):
    """(literal, value of the condition when the name equals the literal) for `name == "lit"` / `name != "lit"`, also when the
    comparison is wrapped in a predicate function of the crate (`is_default_marker(attribute)`) that is true exactly there"""
    if c[0] == 'call' and len(c[2]) == 2 and any(isinstance(x, tuple) and x[0] == 'str' for x in c[2]) and re.search(r'::(eq|ne)$', c[1]):
        return [x[1] for x in c[2] if x[0] == 'str'][0], not c[1].endswith('::ne')
    if c[0] == 'call' and c[1] in P.fns and depth < 2 and P.fns[c[1]].raw.get('output') == 'bool':
        H = P.fns[c[1]]
        tests = [(s_, _literal_test(P, s_['cond'], depth + 1)) for s_ in H.switches()]
        tests = [(s_, t) for s_, t in tests if t]
        if len(tests) == 1:
            s_, (lit, want) = tests[0]
            tg = [t for l, t in s_['edges'] if l is want]
            ex = H.exits()
            trues = [x for x in ex if strip(x['expr']) == ('int', 1, 'bool')]
            falses = [x for x in ex if strip(x['expr']) == ('int', 0, 'bool')]
            if tg and trues and len(trues) + len(falses) == len(ex) and all(H.dominates(tg[0], x['block']) for x in trues) and H.pred(tg[0]) == [s_['block']]:
                return lit, True
            if tg and falses and len(trues) + len(falses) == len(ex) and all(H.dominates(tg[0], x['block']) for x in falses) and H.pred(tg[0]) == [s_['block']] and \
                    not any(H.dominates(tg[0], x['block']) for x in trues):
                return lit, False
    return None


def attr_assignments(f):
    """[(attribute name literal, set of locals assigned under the branch that matched it)]"""
    out = []
    for s_ in f.switches():
        c = s_['cond']
        lt = _literal_test(f.prog, c)
        if lt:
            lit, want = lt
            tg = [t for l, t in s_['edges'] if l is want]
            if not tg:
                continue
            assigned = set()
            roots = [tg[0]] if f.pred(tg[0]) == [s_['block']] else []
            seen_roots = set()
            while roots:
                r_ = roots.pop()
                if r_ in seen_roots:
                    continue
                seen_roots.add(r_)
                for l, ds in f.defs().items():
                    for d in ds:
                        if f.dominates(r_, d[0]):
                            assigned.add(l)
                            # `let target = match name { "size" => &mut size, .. }; *target = v`: choosing the reference under the
                            # literal is assigning its referent under the literal
                            rv_ = d[3] if d[2] == 'rv' else {}
                            hops_ = 0
                            while rv_.get('k') in ('Ref', 'RawPtr') and rv_.get('mutbl') and hops_ < 3:
                                pl_ = rv_['place']
                                if not pl_['proj']:
                                    assigned.add(pl_['local'])
                                    break
                                if [e_['k'] for e_ in pl_['proj']] != ['Deref']:
                                    break
                                ds_ = [x_ for x_ in f.defs().get(pl_['local'], []) if x_[2] == 'rv']
                                if len(ds_) != 1 or len(f.defs().get(pl_['local'], [])) != 1:
                                    break
                                rv_, hops_ = ds_[0][3], hops_ + 1
                            # the match result materialised as a bool (`matches!(..)`, an inlined predicate): what is done under
                            # `if <that bool>` is done under the literal test
                            if f.local_ty(l) == 'bool' and 2 <= len(ds) <= 4 and strip(f.expr_of_def(d)) == ('int', 1, 'bool') and \
                                    all(strip(f.expr_of_def(d2))[0] == 'int' for d2 in ds):
                                for s2 in f.switches():
                                    c2 = strip(s2['cond'])
                                    neg = False
                                    if c2[0] == 'un' and c2[1] == 'Not':
                                        c2, neg = strip(c2[2]), True
                                    if c2[:2] == ('var', l):
                                        for lab2, t2 in s2['edges']:
                                            if lab2 is (not neg) and f.pred(t2) == [s2['block']]:
                                                roots.append(t2)
            out.append((lit, assigned, s_['span']))
    return out


def attribute_table(ctx):
    """which attribute name sets which piece of state (a swapped pair — `size` feeding the alignment, `cloneable` setting
    copyable — passes every structural rule about the state itself)"""
    P = ctx.prog
    A = getattr(ctx, 'A', None)

    def var_of(e):
        e = strip(e)
        return e[1] if e[0] == 'var' else None

    def rehome(f, exprs):
        """roles given as expressions of f -> (home function, {role: local}); every role must live in the same function"""
        out, homes = {}, {}
        for k, e in exprs.items():
            hf, hv = state_home(f, e) if e is not None else (f, ('none',))
            out[k] = hv[1] if hv[0] == 'var' else None
            homes[hf.id] = hf
        if len(homes) != 1:
            return f, {k: None for k in exprs}
        return list(homes.values())[0], out

    def check(tag, props, f, roles, expect):
        """roles: name -> local; expect: literal -> set of role names"""
        if any(v is None for v in roles.values()):
            ctx.fail_closed(props, 'R-TABLE', 'attr-table|' + tag, 'cannot identify the state variables %s' % [k for k, v in roles.items() if v is None], loc(f.span))
            return
        rl = {v: k for k, v in roles.items()}
        got = {}
        for lit, assigned, sp in attr_assignments(f):
            names = frozenset(rl[l] for l in assigned if l in rl)
            if names or lit in expect:
                got.setdefault(lit, []).append(names)
        ok = True
        det = {}
        for lit, want in expect.items():
            g = got.get(lit, [])
            det[lit] = [sorted(x) for x in g]
            if frozenset(want) not in g:
                ok = False
        # and no other literal sets a role variable
        for lit, g in got.items():
            if lit not in expect and any(g_ for g_ in g):
                ok = False
                det[lit] = [sorted(x) for x in g]
        ctx.ob(props, 'R-TABLE', 'attr-table|' + tag, ok, 'attribute name → state it sets: %s' % det, loc(f.span))

    if A:
        tdb = A['TDB']
        ok_exit = [x for x in tdb.exits() if x['kind'] == 'ok_some']
        td = None
        isr = None
        if ok_exit:
            for x in walk(ok_exit[0]['expr']):
                if isinstance(x, tuple) and x[0] == 'agg' and x[1].endswith('type_definition::TypeDefinition'):
                    td = dict(x[2])
                if isinstance(x, tuple) and x[0] == 'agg' and x[1].endswith('ItemStateResolved'):
                    isr = dict(x[2])
        if td and isr:
            roles = {k: var_of(td[k]) for k in ('copyable', 'cloneable', 'defaultable', 'packed', 'singleton')}
            rr = A['RR']
            tsz = None
            for c in tdb.calls(lambda r: r['path'] == rr.id):
                for i, a in enumerate(c['term']['args']):
                    if a.get('place', {}).get('ty') == 'std::option::Option<usize>':
                        tsz = var_of(tdb.expr_of_operand(a))
            roles['target_size'] = tsz
            al = None
            for d in (tdb.init_of(var_of(isr['alignment'])) if var_of(isr['alignment']) is not None else []):
                for x in walk(d):
                    if isinstance(x, tuple) and x[0] == 'call' and x[1].endswith('Option::<T>::or') and var_of(x[2][0]) is not None:
                        al = var_of(x[2][0])
            roles['align'] = al
            check('type', ['C17', 'C02', 'C03', 'C15'], tdb, roles,
                  {'size': {'target_size'}, 'align': {'align'}, 'singleton': {'singleton'}, 'copyable': {'copyable', 'cloneable'},
                   'cloneable': {'cloneable'}, 'defaultable': {'defaultable'}, 'packed': {'packed'}})
    eb = [f for f in P.fns.values() if f.kind != 'Closure' and any(t == '&grammar::EnumDefinition' for t in f.raw.get('inputs', [])) and 'ItemStateResolved' in f.raw.get('output', '')]
    if len(eb) == 1:
        f = eb[0]
        ed = None
        for x_ in f.exits():
            if x_['kind'] == 'ok_some':
                for x in walk(x_['expr']):
                    if isinstance(x, tuple) and x[0] == 'agg' and x[1].endswith('EnumDefinition'):
                        ed = dict(x[2])
        if ed:
            ed = resolved_struct_fields(f, ed, 'EnumDefinition')
            # the variant marker: only `default` marks the default variant
            check('enum-variant', ['C08'], f, {'default_index': var_of(ed.get('default_index', ('none',)))}, {'default': {'default_index'}})
            f0 = f
            f, roles = rehome(f, {k: ed[k] for k in ('copyable', 'cloneable', 'defaultable', 'singleton')})
            expect = {'singleton': {'singleton'}, 'copyable': {'copyable', 'cloneable'}, 'cloneable': {'cloneable'}, 'defaultable': {'defaultable'}}
            if roles.get('copyable') is None and roles.get('cloneable') is None:
                # the two flags are decoded from other state: decided by exploring that state (marker_state_machine)
                hf_, _ = state_home(f0, ed['defaultable'])
                okm_, detm_ = marker_state_machine(P, hf_, ed['copyable'], ed['cloneable'])
                if okm_:
                    f, roles = rehome(f0, {k: ed[k] for k in ('defaultable', 'singleton')})
                    expect = {'singleton': {'singleton'}, 'defaultable': {'defaultable'}, 'copyable': set(), 'cloneable': set()}
            check('enum', ['C17', 'C08', 'C15'], f, roles, expect)
    am = [f for f in P.fns.values() if f.id.endswith('SemanticState::add_module')]
    if am:
        f = am[0]
        isr = None
        for h_ in method_family(P, am[0], exclude=('SemanticState::add_item',)):
            for c in h_.calls(lambda r: r['path'] and r['path'].endswith('SemanticState::add_item')):
                e = h_.expr_of_operand(c['term']['args'][1])
                if e[0] == 'agg' and dict(e[2]).get('category', ('x', ''))[1].endswith('ItemCategory::Extern'):
                    for x in walk(e):
                        if isinstance(x, tuple) and x[0] == 'agg' and x[1].endswith('ItemStateResolved'):
                            isr = dict(x[2])
                            f = h_
        if isr:
            def src_var(e):
                # the Option<usize> state variable behind the value, followed into the helper that reads the attributes
                hf, hv = state_home(f, e)
                for x in walk(expand(hf, hv)):
                    if isinstance(x, tuple) and x[0] == 'var' and hf.local_ty(x[1]) == 'std::option::Option<usize>':
                        return hf, x[1]
                return hf, None
            (h1, v1), (h2, v2) = src_var(isr['size']), src_var(isr['alignment'])
            roles = {'size': v1, 'alignment': v2} if h1 is h2 else {'size': None, 'alignment': None}
            check('extern-type', ['C02', 'C01'], h1, roles, {'size': {'size'}, 'align': {'alignment'}})
        else:
            ctx.fail_closed(['C02'], 'R-TABLE', 'attr-table|extern-type', 'extern type registration not found', loc(f.span))


ATTR_LITERALS = {
    # builder -> attribute name -> type fragments of the named locals it sets (one entry per place the name is recognised)
    'function': ('semantic::function::build', {'address': [['FunctionBody']], 'index': [[]], 'calling_convention': [['CallingConvention']]}, ['C05', 'C04', 'C16']),
    'type': ('semantic::type_definition::build', {'size': [['usize'], ['usize']], 'singleton': [['usize']], 'align': [['usize']], 'copyable': [[]], 'cloneable': [[]],
                                                 'defaultable': [['bool']], 'packed': [['bool']], 'base': [['bool']], 'address': [['usize']], '_': [[]]}, ['C01', 'C02', 'C03', 'C06', 'C07', 'C15', 'C17']),
    'enum': (None, {'default': [['usize']], 'copyable': [[]], 'cloneable': [[]], 'defaultable': [['bool']], 'singleton': [['usize']]}, ['C08', 'C15', 'C17']),
    'module': ('semantic::semantic_state::SemanticState::add_module', {'address': [['usize']], 'size': [['usize']], 'align': [['usize']]}, ['C15', 'C02']),
    'vftable': ('semantic::type_definition::vftable::convert_grammar_functions_to_semantic_functions', {'index': [['usize']]}, ['C04', 'C06']),
    'doc': ('grammar::Attributes::doc', {'doc': [[]]}, ['C17']),
}


def attr_literal_table(ctx):
    """the attribute names of the language: every builder recognises exactly its own set of names, each where it sets state of
    the expected kind (a misspelt or swapped name changes the meaning of every description that uses it)"""
    P = ctx.prog
    for tag, (fid, expect, props) in ATTR_LITERALS.items():
        if fid is None:
            eb = [f for f in P.fns.values() if f.kind != 'Closure' and any(t == '&grammar::EnumDefinition' for t in f.raw.get('inputs', [])) and 'ItemStateResolved' in f.raw.get('output', '')]
            root = eb[0] if len(eb) == 1 else None
        else:
            root = P.fns.get(fid)
        if root is None:
            ctx.fail_closed(props, 'R-TABLE', 'attr-literals|' + tag, 'builder function not found')
            continue
        others = [x[0] for k, x in ATTR_LITERALS.items() if k != tag and x[0]]
        got = {}
        lits = set()
        for g in exclusive_family(P, root, exclude=others):
            for lit, assigned, sp in attr_assignments(g):
                tys = sorted({g.local_ty(l) for l in assigned if l in g.names})
                got.setdefault(lit, []).append(tys)
            # every comparison of a name with a literal, wherever it stands (branch condition, filter closure, predicate)
            for c in g.calls(lambda r: r['path'] and re.search(r'::(eq|ne)$', r['path'])):
                for a in g.expr_of_call(c['term'])[2]:
                    a = strip(a)
                    if a[0] == 'str':
                        lits.add(a[1])
                    elif a[0] == 'upvar' and g.kind == 'Closure' and getattr(g, 'parent', None) in P.fns:
                        # the name is a captured value of the closure (`.filter(move |(key, _)| key.as_str() == name)` with
                        # `name` = "doc" where the closure was made)
                        par = P.fns[g.parent]
                        for c2 in par.calls():
                            for y in walk(expand(par, par.expr_of_call(c2['term']))):
                                if isinstance(y, tuple) and y and y[0] == 'closure' and y[1] == g.id and len(y) > 2 and a[1] < len(y[2]):
                                    cv = strip(expand(par, y[2][a[1]]))
                                    if cv[0] == 'str':
                                        lits.add(cv[1])
        for l_ in lits:
            got.setdefault(l_, [[]])
        ok = set(got) == set(expect)
        for lit, occs in expect.items():
            have = got.get(lit, [])
            if len(have) < len(occs):
                ok = False
            for frag in occs:
                if not any(all(any(fr in t for t in tys) for fr in frag) for tys in have):
                    ok = False
        det = {k: [[t.split('::')[-1].rstrip('>') for t in tys][:4] for tys in v] for k, v in sorted(got.items())}
        ctx.ob(props, 'R-TABLE', 'attr-literals|' + tag, ok,
               'attribute names recognised (and the kind of state each sets) are exactly %s: found %s' % (sorted(expect), det), loc(root.span))


# ------------------------------------------------------------------------------------------------
def unresolved_is_deferred(ctx):
    """a type whose size/alignment is not known *yet* (None from Type::size / Type::alignment / Region::size) must defer the
    item (Ok(None)), never fail the build: whether it is known depends on the order in which the worklist is processed"""
    P = ctx.prog
    n = 0
    SIZEQ = r'(types::Type::(size|alignment)|type_definition::Region::size)$'

    def peel(e):
        e = strip(e)
        while e[0] == 'call' and (e[3].endswith('Context::with_context') or e[3].endswith('Context::context') or re.search(r'Option::<T>::(ok_or|ok_or_else)$', e[1])):
            e = strip(e[2][0])
        return e
    for f in P.fns.values():
        if f.raw.get('derived') or f.id.startswith('backends::'):
            continue
        gs = guards_of(f)
        for g in gs:
            if g.kind != 'reject' or g.pred[0] not in ('fails', 'is_none'):
                continue
            x = peel(g.pred[1])
            if not (x[0] == 'call' and re.search(SIZEQ, x[1])):
                continue
            n += 1
            subj = strip(x[2][0])
            # a deferral test on the size/alignment of the same type must dominate
            ok = False
            for d in gs:
                if d.kind == 'defer' and d.pred[0] == 'is_none':
                    y = peel(d.pred[1])
                    if y[0] == 'call' and re.search(SIZEQ, y[1]) and strip(y[2][0]) == subj and any(f.dominates(t, g.block) for (_, t) in d.others):
                        ok = True
            ctx.ob(['C10', 'C09'], 'R-ERR', 'unresolved-is-deferred|%s|%s' % (re.sub(r'\{closure#\d+\}', '{closure}', f.id), short(x[1])), ok,
                   'turning a missing size/alignment into an error is preceded by a deferral test on the same type (so a not-yet-resolved type defers instead of failing): %s' % show(x)[:120], g.where())
    ctx.ob(['C10'], 'R-ERR', 'unresolved-is-deferred|census', n >= 1, 'sites that turn a missing size/alignment into an error: %d (floor 1)' % n, nontrivial=False)
