"""R-PANIC / R-CAST / R-LOOP — C12: every panic-capable site, lossy literal cast and cycle that is
reachable from the public API must be discharged (automatically by a checked condition, or by a
reviewed table entry) or be a listed finding."""
import re
from mirlib import *

PANIC_CALLS = [
    # (regex on resolved callee path, kind)
    (r'^std::option::Option::<T>::(unwrap|expect)$', 'unwrap'),
    (r'^std::result::Result::<T, E>::(unwrap|expect|unwrap_err|expect_err)$', 'unwrap'),
    (r'^(core|std)::panicking::', 'panic'),
    (r'^std::rt::(panic_fmt|begin_panic)', 'panic'),
    (r'::assert_failed', 'panic'),
    (r'as std::ops::Index(Mut)?<.*>>::index(_mut)?$', 'index'),
    (r'<impl std::ops::Index(Mut)?<.*> for .*>::index(_mut)?$', 'index'),       # `&s[1..]` on str, `&v[a..b]` on slices (impl-path spelling)
    (r'^<(usize|isize|u\d+|i\d+) as std::ops::(Add|Sub|Mul|Div|Rem|Shl|Shr|Neg)(<.*>)?>::', 'intop'),
    (r'^<(usize|isize|u\d+|i\d+) as std::ops::(Add|Sub|Mul|Div|Rem|Shl|Shr)Assign(<.*>)?>::', 'intop'),
    (r'^<&(usize|isize|u\d+|i\d+) as std::ops::(Add|Sub|Mul|Div|Rem)(<.*>)?>::', 'intop'),
    (r'^std::iter::Iterator::(sum|product)$', 'intop'),
    (r'^(core|std)::num::<impl (usize|isize|u\d+|i\d+)>::(pow|abs|next_power_of_two|div_euclid|rem_euclid|ilog\w*|isqrt)$', 'intop'),
    (r'^quote::__private::mk_ident$', 'ident'),
    (r'^proc_macro2::Ident::new(_raw)?$', 'ident'),
    (r'^proc_macro2::Literal::\w+_(un)?suffixed$', 'lit'),
    (r'^std::str::<impl str>::repeat$', 'alloc'),
    (r'^std::vec::Vec::<T, A>::(remove|insert|swap_remove|split_off|drain|split_at)$', 'index'),
    (r'^std::slice::<impl \[T\]>::(split_at|split_at_mut|copy_from_slice|clone_from_slice|swap|chunks|chunks_exact|windows|rotate_left|rotate_right|select_nth_unstable\w*)$', 'index'),
    (r'^std::string::String::(insert|insert_str|remove|truncate|split_off|drain|replace_range)$', 'index'),
    (r'^std::str::<impl str>::(split_at|split_at_mut)$', 'index'),
    (r'^std::cell::RefCell::<T>::(borrow|borrow_mut)$', 'panic'),
    (r'^std::iter::Iterator::step_by$', 'panic'),
    (r'^std::(thread|process)::', 'process'),
    (r'^std::vec::Vec::<T>::with_capacity$', 'alloc'),
    (r'^std::iter::repeat', 'alloc'),
]
PANIC_CALLS = [(re.compile(r), k) for r, k in PANIC_CALLS]


def nf(e, fn, d=0):
    """name-free rendering of an expression (locals by kind/type, not by debug name)"""
    if not isinstance(e, tuple) or d > 6:
        return '…'
    k = e[0]
    N = lambda x: nf(x, fn, d + 1)
    if k == 'arg':
        # by type, not by position: moving code between a closure and its creator, or adding a parameter, renumbers arguments
        return 'arg:' + re.sub(r"'\\w+ ?", '', fn.local_ty(e[1]))[:40]
    if k == 'var':
        return 'var:' + re.sub(r"'\w+ ?", '', fn.local_ty(e[1]))[:40]
    if k == 'int':
        return str(e[1])
    if k == 'str':
        return repr(e[1])[:20]
    if k == 'const':
        return 'const'
    if k == 'upvar':
        return 'upvar%d' % e[1]
    if k == 'field':
        return N(e[1]) + '.' + e[2]
    if k == 'payload':
        return '%s!(%s)' % (e[2], N(e[1]))
    if k == 'try':
        return 'try(%s)' % N(e[1])
    if k == 'call':
        return '%s(%s)' % (short(e[1]), ','.join(N(a) for a in e[2]))
    if k == 'bin':
        return '%s(%s,%s)' % (e[1], N(e[2]), N(e[3]))
    if k == 'un':
        return '%s(%s)' % (e[1], N(e[2]))
    if k == 'cast':
        return 'cast(%s)' % N(e[4])
    if k == 'index':
        return '%s[%s]' % (N(e[1]), N(e[2]))
    if k == 'cindex':
        return '%s[#%d]' % (N(e[1]), e[2])
    if k == 'closure':
        return 'closure'
    if k == 'agg':
        return short(e[1]) + '{..}'
    if k == 'discr':
        return 'discr(%s)' % N(e[1])
    return k


def stable_id(fid):
    return re.sub(r'\{closure#\d+\}', '{closure}', fid)


def _msg(c):
    """printable text of a byte-string constant (format pieces of a panic / identifier)"""
    return re.sub(r'\\x[0-9a-f]{2}|\\[rnt]', '~', c)[:60]


def head(e, fn, d=0):
    """outermost constructor of an expression, operands by type: the coarse, position- and function-independent part of a site"""
    if not isinstance(e, tuple) or d > 8:
        return '…'
    k = e[0]
    if k in ('try',):
        return head(e[1], fn, d + 1)
    if k == 'payload':
        return head(e[1], fn, d + 1)
    if k == 'call':
        sh = short(e[1])
        if re.search(r'(^|::)(deref|deref_mut|must_use|into_iter|clone|borrow|as_ref|next|from)$', sh) and e[2]:
            return head(e[2][0], fn, d + 1)
        if sh.endswith('Arguments::new') and e[2] and e[2][0][0] == 'const':
            return 'fmt(%s)' % _msg(e[2][0][1])
        return sh
    if k == 'field':
        return '.' + e[2]
    if k in ('arg', 'var'):
        return re.sub(r"'\w+ ?|&(mut )?", '', fn.local_ty(e[1]))[:40]
    if k == 'upvar':
        return 'cap'
    if k == 'int':
        return str(e[1])
    if k == 'str':
        return repr(e[1])[:24]
    if k == 'const':
        return _msg(e[1]) if e[1].startswith('b"') else 'const'
    if k == 'bin':
        return e[1]
    if k == 'un':
        return e[1]
    if k == 'cast':
        return head(e[4], fn, d + 1)
    if k == 'agg':
        return short(e[1])
    return k


def ident_literals(P, f, e, depth=0):
    """the string literals that can end up in the text handed to an identifier constructor (join separators, fixed pieces):
    the arguments are expanded, pure in-crate helpers (single exit) are read through, and literals that only feed an error message
    (context / with_context / expect) are left out"""
    out = set()

    def body(g):
        # text built by side effects (push / push_str in a loop or fold): every literal of the body
        for bi in g.normal_blocks():
            for op in g.block_operands(bi):
                if op.get('k') == 'Const' and 'str' in op:
                    out.add(op['str'])
                elif op.get('k') == 'Const' and op.get('ty') == 'char' and str(op.get('val', '')).isdigit():
                    out.add(chr(int(op['val'])))

    def go(x, fn, d):
        if not isinstance(x, tuple) or not x:
            return
        if x[0] == 'int' and len(x) > 2 and x[2] == 'char':
            out.add(chr(x[1]))
            return
        if x[0] == 'str':
            out.add(x[1])
            return
        if x[0] == 'call':
            if re.search(r'Context::(with_context|context)$|::(expect|unwrap_or_else)$', x[3] if len(x) > 3 else x[1]) or re.search(r'::(expect)$', x[1]):
                if x[2]:
                    go(x[2][0], fn, d)
                return
            g = P.fns.get(x[1])
            if g is not None and d < 3 and not g.loops() and len(g.exits()) == 1:
                go(subst_args(expand(g, g.exits()[0]['expr']), x[2]), g, d + 1)
                return
            if g is not None and d < 3:
                body(g)
            for a in x[2]:
                go(a, fn, d)
            return
        if x[0] in ('closure', 'fnref') and x[1] in P.fns and d < 3:
            g = P.fns[x[1]]
            for ex in g.exits():
                go(expand(g, ex['expr']), g, d + 1)
            body(g)
            if x[0] == 'closure':
                for c_ in x[2]:
                    go(c_, fn, d)
            return
        for y in x:
            if isinstance(y, tuple):
                go(y, fn, d)
            elif isinstance(y, list):
                for z in y:
                    if isinstance(z, tuple) and len(z) == 2 and isinstance(z[0], str) and isinstance(z[1], tuple):
                        go(z[1], fn, d)
                    elif isinstance(z, tuple):
                        go(z, fn, d)
    go(expand(f, e), f, depth)
    return sorted(out)


def coarse_of(s):
    hs = []
    for i, o in enumerate(s['ops'][:2]):
        o_ = strip(o)
        tys = s.get('op_tys') or []
        plain = o_[0] in ('arg', 'var', 'upvar') or (o_[0] == 'payload' and o_[2] == 'Some' and strip(o_[1])[0] == 'call' and short(strip(o_[1])[1]).endswith('next'))
        if plain and i < len(tys) and tys[i]:
            hs.append(re.sub(r"'\w+ ?|&(mut )?", '', tys[i])[:40])
        else:
            hs.append(head(o, s['fn']))
    return '%s(%s)' % (s['what'], ','.join(hs))


def tcoarse_of(s):
    """operation + operand types only (last resort when a reviewed site was rewritten in place)"""
    tys = [re.sub(r"'\w+ ?|&(mut )?", '', t or '?')[:40] for t in (s.get('op_tys') or [])[:2]]
    return '%s<%s>' % (s['what'], ','.join(tys))


def panic_sites(P, reach):
    """yield dict(fn, kind, what, sig, block, span, expr...) for every panic-capable site"""
    for fid in sorted(reach):
        f = P.fns[fid]
        if f.raw.get('derived'):
            continue
        for bi in sorted(f.normal_blocks()):
            t = f.term(bi)
            if t['k'] == 'Assert':
                ops = [f.expr_of_operand(o) for o in t['msg_ops']]
                what = t['msg'] + (':' + t['binop'] if t.get('binop') else '')
                if t['msg'] in ('DivisionByZero', 'RemainderByZero'):
                    # the message operand is the dividend; the divisor is in the asserted condition Eq(d, 0)
                    c = f.expr_of_operand(t['cond'])
                    ops = [c[2]] if c[0] == 'bin' and c[1] == 'Eq' else [c]
                yield dict(fn=f, kind='assert', what=what, ops=ops, block=bi, span=t['span'],
                           op_tys=[(o.get('place') or {}).get('ty') or o.get('ty') for o in t['msg_ops']],
                           sig='%s(%s)' % (what, ','.join(nf(o, f) for o in ops)),
                           key='%s|%s(%s)' % (stable_id(f.id), what, ','.join(nf(o, f, 4) for o in ops)))
            elif t['k'] == 'Call' and t.get('callee'):
                c = t['callee']
                p = c.get('rpath') or c['path']
                for rx, kind in PANIC_CALLS:
                    if rx.search(p):
                        args = [f.expr_of_operand(a) for a in t['args']]
                        yield dict(fn=f, kind=kind, what=short(p), path=p, ops=args, block=bi, span=t['span'],
                                   op_tys=[(o.get('place') or {}).get('ty') or o.get('ty') for o in t['args']],
                                   callee=c, sig='%s(%s)' % (short(p), ','.join(nf(a, f) for a in args)),
                                   key='%s|%s(%s)' % (stable_id(f.id), short(p), ','.join(nf(a, f, 4) for a in args[:2])))
                        break


# ---- automatic discharge conditions ------------------------------------------------------
def _dominating_guards(f, block):
    """(cond expr, label) of every switch edge that dominates `block`"""
    out = []
    for s in f.switches():
        for lab, tgt in s['edges']:
            # edge (s.block -> tgt) dominates `block` if tgt dominates block and tgt's only pred is s.block
            if f.dominates(tgt, block) and f.pred(tgt) == [s['block']]:
                c = s['cond']
                # `ensure!(c)` / `if !c`: a negated condition is the condition itself under the opposite label
                while lab in (True, False) and strip(c)[0] == 'un' and strip(c)[1] == 'Not':
                    c, lab = strip(c)[2], not lab
                out.append((c, lab, s['block'], tgt))
    return out


def _same(a, b):
    return strip(a) == strip(b)


def _no_redef_between(f, var, guard_block, site_block, edge_target=None):
    """the multi-def local `var` is not redefined on any path from the guard edge to the site
    (paths that re-enter the guard block are re-tested and therefore not considered)"""
    if var[0] != 'var':
        return True
    l = var[1]
    start = edge_target if edge_target is not None else guard_block
    r1 = f.reach(start, stop={guard_block})
    r2 = {b for b in f.normal_blocks() if site_block in f.reach(b, stop={guard_block})}
    between = (r1 & r2) | {site_block}
    between.discard(guard_block)
    for (bi, si, kind, payload, span) in f.defs().get(l, []):
        if bi in between:
            return False
    return True


def _range_end_of_index(f, idx):
    """E when `idx` is the loop variable of `for i in 0..E` (`Some(next(range))` with range = Range{start: 0, end: E}), else None"""
    idx = strip(idx)
    if not (idx[0] == 'payload' and idx[2] == 'Some'):
        return None
    nx = strip(idx[1])
    if not (nx[0] == 'call' and nx[2] and re.search(r'Iterator>::next$|Iterator::next$|range::<impl .*>::next$|range::.*::next$', nx[1] + ' ' + (nx[3] if len(nx) > 3 else ''))):
        return None
    for x in walk(expand(f, nx[2][0])):
        if isinstance(x, tuple) and x and x[0] == 'agg' and re.search(r'ops::Range$|ops::range::Range$', x[1]) and len(x[2]) == 2:
            d_ = dict(x[2])
            st_, en_ = strip(d_.get('start', ('x',))), d_.get('end')
            if st_[:2] == ('int', 0) and en_ is not None:
                return strip(en_)
    return None


def auto_discharge(P, s):
    f = s['fn']
    sp = s['span']
    macros = sp.get('macros') or []
    # `for i in 0..xs.len() { .. xs[i] .. }` (also `&mut xs[i]`): the index is below the length of the very list it indexes
    if (s['kind'] == 'index' or (s['kind'] == 'assert' and s['what'] == 'BoundsCheck')) and len(s['ops']) >= 2:
        a0, a1 = s['ops'][0], s['ops'][1]
        end_ = _range_end_of_index(f, a1)
        if end_ is not None:
            ln = is_len_of(expand(f, end_))
            tgt = strip(expand(f, a0))
            if s['kind'] == 'assert':
                l0 = is_len_of(tgt)
                tgt = strip(l0) if l0 is not None else None
            norm_ = lambda z: (strip(z[2][0]) if (z is not None and z[0] == 'call' and z[2] and re.search(r'(::deref|::deref_mut|::as_slice|::as_mut_slice)$', z[1])) else z)
            if ln is not None and tgt is not None and norm_(norm_(strip(ln))) == norm_(norm_(tgt)):
                # the list must not shrink inside the loop: no length-changing call on it anywhere in the function's loops is checked
                # by R-SEQ (order-changing operations on order-bearing sequences are reviewed one by one)
                return 'DC-RANGE-LEN', 'index is the variable of `for i in 0..len` over the length of the very list that is indexed'
            if tgt is not None:
                # .. or a dominating rejection shows the indexed list to be at least as long as the range: `if xs.len() < n { bail }`
                from guards import guards_of, cmp_parts
                for g_ in guards_of(f):
                    cp = cmp_parts(g_.pred)
                    if g_.kind != 'reject' or not cp or not f.dominates(g_.block, s['block']):
                        continue
                    op, a_, b_ = cp
                    if op == 'Gt':
                        op, a_, b_ = 'Lt', b_, a_
                    la_ = is_len_of(expand(f, a_))
                    if op == 'Lt' and la_ is not None and norm_(norm_(strip(la_))) == norm_(norm_(tgt)) and strip(expand(f, b_)) == strip(expand(f, end_)):
                        return 'DC-RANGE-GUARD', 'index is the variable of `for i in 0..n` and a dominating rejection shows the indexed list to have at least n elements'
    # quote!'s repetition counters (`_i += 1` bounded by the collection being iterated)
    if s['kind'] == 'assert' and s['what'] == 'Overflow:Add' and any(m.startswith('quote::') for m in macros):
        if s['ops'][1] == ('int', 1, 'usize'):
            return 'DC-COUNTER', 'quote! repetition counter, bounded by the length of the interpolated collection'
    if s['kind'] == 'ident' and any('custom_keyword' in m for m in macros):
        return 'DC-CONST', 'syn::custom_keyword! builds an identifier from a literal keyword'
    if s['kind'] == 'assert' and s['what'] in ('DivisionByZero', 'RemainderByZero'):
        d = s['ops'][0]
        if d[0] == 'int' and d[1] != 0:
            return 'DC-CONST', 'non-zero constant divisor'
        for cond, lab, gb, gt in _dominating_guards(f, s['block']):
            c = cond
            if c[0] == 'call' and c[1].endswith('::is_power_of_two') and lab is True and _same(c[2][0], d) and _no_redef_between(f, d, gb, s['block'], gt):
                return 'DC-GUARD', 'divisor tested to be a power of two (hence non-zero) by a dominating branch'
            if c[0] == 'bin' and c[1] in ('Ne', 'Eq') and c[3] == ('int', 0, 'usize') and _same(c[2], d):
                if (c[1] == 'Ne') == (lab is True) and _no_redef_between(f, d, gb, s['block'], gt):
                    return 'DC-GUARD', 'divisor tested non-zero by a dominating branch'
        # divisor is a parameter: every call site must pass a value guarded there
        if d[0] == 'arg' and f.kind != 'Closure':
            sites = [(g, c) for g in P.fns.values() if not g.raw.get('derived') for c in g.calls(lambda r: r['path'] == f.id)]
            if sites:
                okall = True
                for g, c in sites:
                    a = strip(g.expr_of_operand(c['term']['args'][d[1] - 1]))
                    hit = False
                    for cond, lab, gb, gt in _dominating_guards(g, c['block']):
                        if cond[0] == 'call' and cond[1].endswith('::is_power_of_two') and lab is True and _same(cond[2][0], a):
                            hit = True
                        if cond[0] == 'bin' and cond[1] in ('Ne', 'Eq') and cond[3] == ('int', 0, 'usize') and _same(cond[2], a) and (cond[1] == 'Ne') == (lab is True):
                            hit = True
                    okall = okall and hit
                if okall:
                    return 'DC-GUARD', 'divisor is a parameter and every call site passes a value tested non-zero by a dominating branch'
    if s['kind'] == 'assert' and s['what'] == 'Overflow:Sub':
        a, b = s['ops']
        for cond, lab, gb, gt in _dominating_guards(f, s['block']):
            c = cond
            if c[0] == 'bin' and c[1] in ('Lt', 'Le', 'Gt', 'Ge'):
                x, y = c[2], c[3]
                op = c[1]
                if lab is False:
                    op = {'Lt': 'Ge', 'Le': 'Gt', 'Gt': 'Le', 'Ge': 'Lt'}[op]
                # need b <= a
                if (op in ('Lt', 'Le') and _same(x, b) and _same(y, a)) or (op in ('Gt', 'Ge') and _same(x, a) and _same(y, b)):
                    return 'DC-GUARD', 'subtrahend tested <= minuend by a dominating branch'
        # len(v) - 1 right after a push on the same vector
        if b == ('int', 1, 'usize') and a[0] == 'call' and a[1].endswith('::len'):
            v = a[2][0]
            pushes = [c for c in f.calls(lambda r: r['path'] and r['path'].endswith('Vec::<T, A>::push'))
                      if _same(f.expr_of_operand(c['term']['args'][0]), v)]
            shrink = [c for c in f.calls(lambda r: r['path'] and re.search(r'Vec::<T, A>::(pop|remove|clear|truncate|drain|swap_remove|retain|split_off)$', r['path']))
                      if _same(f.expr_of_operand(c['term']['args'][0]), v)]
            if pushes and not shrink and any(f.dominates(c['block'], s['block']) for c in pushes):
                return 'DC-JUST-PUSHED', 'len-1 dominated by a push on the same vector, which is never shrunk'
    def _is_len(x):
        x = strip(x)
        return x[0] == 'call' and re.search(r'(Vec::<T, A>|slice::<impl \[T\]>|str::<impl str>|String|HashMap<.*>|HashSet<.*>|BTreeMap<.*>|VecDeque<.*>)::len$', x[1]) is not None
    if s['kind'] == 'assert' and s['what'] == 'Overflow:Add' and len(s['ops']) == 2:
        a, b = strip(s['ops'][0]), strip(s['ops'][1])
        if (a[0] == 'int' and 0 <= a[1] <= 65536 and _is_len(b)) or (b[0] == 'int' and 0 <= b[1] <= 65536 and _is_len(a)):
            return 'DC-COUNTER', 'length of an in-memory collection (at most isize::MAX elements) plus a small constant cannot overflow usize'
    if s['kind'] == 'alloc' and s['what'].endswith('with_capacity') and s['ops']:
        a = strip(s['ops'][0])
        small_plus_len = a[0] == 'bin' and a[1] == 'Add' and ((strip(a[2])[0] == 'int' and _is_len(a[3])) or (strip(a[3])[0] == 'int' and _is_len(a[2])))
        if a[0] == 'int' or (a[0] == 'call' and re.search(r'::(len|size_hint|count)$', a[1])) or small_plus_len:
            return 'DC-COUNTER', 'capacity is a constant or the length of an existing collection (bounded by memory already in use)'
    if s['kind'] == 'unwrap' and s['ops']:
        # write!/writeln! into a String: String's fmt::Write never fails, and a failing Display impl of an argument makes
        # format!() — which the same text is otherwise built with — panic in exactly the same case
        r0 = strip(s['ops'][0])
        if r0[0] == 'call' and r0[3].endswith('fmt::Write::write_fmt') and len(r0) > 4 and re.search(r'<std::string::String as std::fmt::Write>', r0[4] or ''):
            return 'DC-INFALLIBLE', 'formatting into a String (fmt::Write for String cannot fail; same panic condition as format!)'
    if s['kind'] == 'index':
        full = s['callee'].get('rfull', '') + ' ' + ' '.join(s['callee'].get('gargs', []))
        if 'RangeFull' in full:
            return 'DC-FULL-RANGE', 'indexing with `..` cannot fail'
    # site inside a closure passed to bool::then whose receiver is the needed test
    if f.kind == 'Closure' and f.parent in P.fns:
        par = P.fns[f.parent]
        for c in par.calls(lambda r: r['path'] and re.search(r'bool>?::then$', r['path'])):
            args = [par.expr_of_operand(a) for a in c['term']['args']]
            if len(args) == 2 and args[1][0] == 'closure' and args[1][1] == f.id:
                recv = args[0]
                caps = args[1][2]

                def res(e):
                    e = strip(e)
                    if e[0] == 'upvar' and e[1] < len(caps):
                        return strip(caps[e[1]])
                    if e[0] == 'field':
                        return ('field', res(e[1]), e[2])
                    return e
                if s['kind'] == 'assert' and s['what'] == 'Overflow:Sub' and s['ops'][1] == ('int', 1, 'usize'):
                    a = s['ops'][0]
                    if a[0] == 'call' and a[1].endswith('::len') and recv[0] == 'un' and recv[1] == 'Not' \
                            and recv[2][0] == 'call' and recv[2][1].endswith('::is_empty') \
                            and res(a[2][0]) == res_parent(recv[2][2][0]):
                        return 'DC-THEN', 'len-1 inside bool::then on !is_empty of the same vector'
                if s['kind'] == 'assert' and s['what'] == 'BoundsCheck' and len(s['ops']) == 2:
                    # slice[k] inside bool::then(len == n / len >= n / len > n): the bounds check of a constant index below n
                    ln, idx = strip(s['ops'][0]), strip(s['ops'][1])
                    v = strip(ln[2]) if ln[0] == 'un' and ln[1] == 'PtrMetadata' else (strip(ln[2][0]) if ln[0] == 'call' and ln[1].endswith('::len') and ln[2] else None)
                    rl = strip(recv[2]) if recv[0] == 'bin' else None
                    rv_ = None
                    if rl is not None:
                        rv_ = strip(rl[2]) if rl[0] == 'un' and rl[1] == 'PtrMetadata' else (strip(rl[2][0]) if rl[0] == 'call' and rl[1].endswith('::len') and rl[2] else None)
                    if v is not None and rv_ is not None and recv[1] in ('Eq', 'Ge', 'Gt') and strip(recv[3])[0] == 'int' and idx[0] == 'int' and \
                            (idx[1] < strip(recv[3])[1] or (recv[1] == 'Gt' and idx[1] <= strip(recv[3])[1])) and res(v) == res_parent(rv_):
                        return 'DC-THEN', 'constant slice index below the length tested by the bool::then receiver'
                if s['kind'] == 'index':
                    idx = s['ops'][1] if len(s['ops']) > 1 else None
                    v = s['ops'][0]
                    if recv[0] == 'bin' and recv[1] in ('Eq', 'Ge', 'Gt') and recv[2][0] == 'call' and recv[2][1].endswith('::len') \
                            and recv[3][0] == 'int' and idx and idx[0] == 'int' \
                            and (idx[1] < recv[3][1] or (recv[1] != 'Gt' and idx[1] < recv[3][1]) or (recv[1] == 'Gt' and idx[1] <= recv[3][1])) \
                            and res(v) == res_parent(recv[2][2][0]):
                        return 'DC-THEN', 'constant index below the length tested by the bool::then receiver'
                    # upper part of a range index bounded by len-1 under !is_empty is covered by the Sub case
                    if recv[0] == 'un' and recv[1] == 'Not' and recv[2][0] == 'call' and recv[2][1].endswith('::is_empty') \
                            and idx and idx[0] == 'agg' and 'RangeTo' in idx[1] and res(v) == res_parent(recv[2][2][0]):
                        e = idx[2][0][1]
                        if e[0] == 'bin' and e[1] == 'Sub' and e[3] == ('int', 1, 'usize') and e[2][0] == 'call' and e[2][1].endswith('::len'):
                            return 'DC-THEN', '[..len-1] inside bool::then on !is_empty of the same vector'
    # `ys.iter().enumerate().find(|(i, y)| xs[*i] != **y)` (and `xs[i]` with the i it found) after `if xs.len() < ys.len() { bail }`:
    # the index is an enumerate position of ys, and xs is at least as long
    if s['kind'] == 'assert' and s['what'] == 'BoundsCheck' and len(s['ops']) == 2:
        ln, idx = strip(s['ops'][0]), strip(s['ops'][1])
        X = is_len_of(ln)
        host, Y, site_block = None, None, None

        def enum_src(it, fn_):
            it = strip(expand(fn_, it))
            while it[0] == 'call' and it[2] and re.search(r'(IntoIterator::into_iter)$', it[3] if len(it) > 3 else it[1]):
                it = strip(it[2][0])
            if it[0] == 'call' and (it[1].endswith('Iterator::enumerate') or (len(it) > 3 and str(it[3]).endswith('Iterator::enumerate'))) and it[2]:
                src = strip(it[2][0])
                while src[0] == 'call' and src[2] and re.search(r'(slice::<impl \[T\]>::iter|IntoIterator::into_iter|::deref|::as_slice|Vec::<T, A>::iter)$', src[3] if len(src) > 3 else src[1]):
                    src = strip(src[2][0])
                return src
            return None
        if X is not None and f.kind == 'Closure' and f.parent in P.fns and idx == ('field', ('arg', 2, '_2'), '0'):
            par = P.fns[f.parent]
            for c in par.calls(lambda r: r['path'] and re.search(r'Iterator::(find|position|any|all|find_map|filter)$', r['path'])):
                args = [par.expr_of_operand(a) for a in c['term']['args']]
                if len(args) == 2 and strip(args[1])[0] == 'closure' and strip(args[1])[1] == f.id:
                    caps = strip(args[1])[2]
                    Y = enum_src(args[0], par)
                    if X[0] == 'upvar' and X[1] < len(caps):
                        X = strip(expand(par, caps[X[1]]))
                        while X[0] == 'call' and X[2] and re.search(r'(::deref|::as_slice)$', X[1]):
                            X = strip(X[2][0])
                    host, site_block = par, c['block']
        elif X is not None and idx[0] == 'field' and idx[2] == '0':
            pl = strip(idx[1])
            if pl[0] == 'payload' and pl[2] == 'Some':
                fnd = strip(expand(f, pl[1]))
                if fnd[0] == 'call' and re.search(r'Iterator::find$', fnd[3] if len(fnd) > 3 else fnd[1]) and fnd[2]:
                    Y = enum_src(fnd[2][0], f)
                    X = strip(expand(f, X))
                    while X[0] == 'call' and X[2] and re.search(r'(::deref|::as_slice)$', X[1]):
                        X = strip(X[2][0])
                    host, site_block = f, s['block']
        if host is not None and Y is not None:
            from guards import guards_of, cmp_parts
            for g_ in guards_of(host):
                cp = cmp_parts(g_.pred)
                if g_.kind != 'reject' or not cp or not host.dominates(g_.block, site_block):
                    continue
                op, a, b = cp
                if op == 'Gt':
                    op, a, b = 'Lt', b, a
                la, lb_ = is_len_of(expand(host, a)), is_len_of(expand(host, b))
                norm_ = lambda z: strip(z[2][0]) if (z is not None and z[0] == 'call' and z[2] and re.search(r'(::deref|::as_slice)$', z[1])) else z
                if op == 'Lt' and la is not None and lb_ is not None and norm_(la) == norm_(X) and norm_(lb_) == norm_(Y):
                    return 'DC-ENUM-INDEX', 'index is an enumerate position of a list that a dominating test shows to be no longer than the indexed one'
    # `x.len().checked_sub(k).map(|n| .. x[..n] ..)`: the closure's parameter is len − k of the very vector it slices
    if s['kind'] == 'index' and f.kind == 'Closure' and f.parent in P.fns:
        par = P.fns[f.parent]
        for c in par.calls(lambda r: r['path'] and re.search(r'Option::<T>::(map|and_then)$', r['path'])):
            args = [par.expr_of_operand(a) for a in c['term']['args']]
            if len(args) == 2 and args[1][0] == 'closure' and args[1][1] == f.id:
                caps = args[1][2]
                recv = strip(expand(par, args[0]))

                def res2(e):
                    e = strip(e)
                    if e[0] == 'upvar' and e[1] < len(caps):
                        return strip(caps[e[1]])
                    if e[0] == 'field':
                        return ('field', res2(e[1]), e[2])
                    return e
                idx = s['ops'][1] if len(s['ops']) > 1 else None
                if recv[0] == 'call' and re.search(r'::checked_sub$', recv[1]) and len(recv[2]) == 2 and is_len_of(recv[2][0]) is not None and \
                        idx and idx[0] == 'agg' and 'RangeTo' in idx[1] and strip(idx[2][0][1])[:2] == ('arg', 2) and \
                        res2(s['ops'][0]) == strip(is_len_of(recv[2][0])):
                    return 'DC-CHECKED-SUB', '[..n] with n = len.checked_sub(k) of the same vector (n ≤ len)'
    return None


def is_len_of(e):
    e = strip(e)
    if e[0] == 'call' and e[1].endswith('::len') and e[2]:
        return strip(e[2][0])
    if e[0] == 'un' and e[1] == 'PtrMetadata':
        return strip(e[2])
    return None


def res_parent(e):
    return strip(e)


# ---- lossy integer casts --------------------------------------------------------------------
INT_BITS = {'u8': 8, 'u16': 16, 'u32': 32, 'u64': 64, 'u128': 128, 'usize': 64,
            'i8': 8, 'i16': 16, 'i32': 32, 'i64': 64, 'i128': 128, 'isize': 64}


def lossy(frm, to):
    if frm not in INT_BITS or to not in INT_BITS:
        return False
    fs, ts = frm.startswith('i'), to.startswith('i')
    fb, tb = INT_BITS[frm], INT_BITS[to]
    # usize/isize may be 32 bit on the targets pyxis itself runs on
    fmin = 32 if frm in ('usize', 'isize') else fb
    tmin = 32 if to in ('usize', 'isize') else tb
    if fs and not ts:
        return True
    if not fs and ts:
        return fb >= tmin
    return fb > tmin


def cast_sites(P, reach):
    for fid in sorted(reach):
        f = P.fns[fid]
        if f.raw.get('derived'):
            continue
        for bi in sorted(f.normal_blocks()):
            for st in f.blocks[bi]['stmts']:
                if st['k'] == 'Assign' and st['rv']['k'] == 'Cast' and st['rv']['cast'] == 'IntToInt':
                    rv = st['rv']
                    if rv['op'].get('k') == 'Const':
                        continue
                    if st['span']['exp'] and any(m.startswith(('std::', 'core::', 'quote::', 'syn::')) for m in st['span'].get('macros', [])):
                        continue
                    if lossy(rv['from'], rv['to']):
                        e = f.expr_of_operand(rv['op'])
                        yield dict(fn=f, frm=rv['from'], to=rv['to'], expr=e, span=st['span'], block=bi,
                                   sig='%s->%s(%s)' % (rv['from'], rv['to'], nf(e, f)))


# ---- loops / recursion ------------------------------------------------------------------------
def loop_sites(P, reach):
    for fid in sorted(reach):
        f = P.fns[fid]
        if f.raw.get('derived'):
            continue
        for (h, body, latches) in f.loops():
            # driver: an Iterator::next call in the loop whose None edge leaves the loop
            drivers = []
            for bi in sorted(body):
                t = f.term(bi)
                if t['k'] == 'Call' and t.get('callee') and t['callee']['path'].endswith('Iterator::next'):
                    c = t['callee']
                    drivers.append((bi, c.get('self_ty') or (c.get('gargs') or ['?'])[0], f.expr_of_operand(t['args'][0])))
            exits = [(b, s) for b in body for s in f.succ(b) if s not in body]
            yield dict(fn=f, header=h, body=body, drivers=drivers, exits=exits, span=f.term(h)['span'])


# ---------------------------------------------------------------------------------------------
# supporting facts for table entries
def all_calls(P, rx, nonderived=True):
    rx = re.compile(rx)
    for f in P.fns.values():
        if nonderived and f.raw.get('derived'):
            continue
        for c in f.calls():
            full = (c['callee'] or {}).get('rfull') or (c['callee'] or {}).get('full') or ''
            if c['path'] and rx.search(full):
                yield f, c


def agg_sites(P, adt_rx):
    rx = re.compile(adt_rx)
    for f in P.fns.values():
        if f.raw.get('derived'):
            continue
        for bi in sorted(f.normal_blocks()):
            for st in f.blocks[bi]['stmts']:
                if st['k'] == 'Assign' and st['rv']['k'] == 'Aggregate' and st['rv'].get('agg') == 'Adt':
                    nm = st['rv']['adt'] + ('::' + st['rv']['variant'] if st['rv'].get('is_enum') else '')
                    if rx.search(nm):
                        yield f, bi, st


def supporting_fact(ctx, name):
    P = ctx.prog
    if name is None:
        return True, ''
    if name == 'unresolved-constructed-only-in-add_module':
        sites = [f.id for f, bi, st in agg_sites(P, r'semantic::types::Type::Unresolved$')]
        # every constructing function is add_module, one of its closures, or a private helper reachable only through add_module
        bad = []
        callers = {}
        for g in P.fns.values():
            for w in P.callees(g.id, kinds=('call', 'closure', 'fnref', 'generic-impl')):
                callers.setdefault(w, set()).add(g.id)
        for s0 in set(sites):
            todo, seen_ = [s0], set()
            while todo:
                x = todo.pop()
                if x in seen_ or 'SemanticState::add_module' in x:
                    continue
                seen_.add(x)
                cs = callers.get(x, set()) | ({P.fns[x].parent} if P.fns[x].kind == 'Closure' and P.fns[x].parent in P.fns else set())
                if P.fns[x].public or (not cs and x != s0):
                    bad.append(x)
                if not cs and x == s0:
                    bad.append(x)
                todo.extend(cs)
        return (len(sites) >= 1 and not bad), 'Type::Unresolved constructed in %s; reachable other than through add_module: %s' % (sorted(set(sites)), sorted(set(bad)))
    if name in ('registry-never-removes', 'modules-never-removed'):
        vty = 'semantic::types::ItemDefinition' if name == 'registry-never-removes' else 'semantic::module::Module'
        bad = [(f.id, c['path']) for f, c in all_calls(P, r'(?:HashMap|BTreeMap)::<grammar::ItemPath, %s>::(remove|remove_entry|clear|retain|drain|extract_if|pop_first|pop_last|split_off)$' % re.escape(vty))]
        return not bad, 'removing calls: %s' % bad
    if name == 'function_to_region-makes-Function':
        try:
            bt = [f for f in P.fns.values() if f.id.endswith('vftable::build_type')][0]
        except IndexError:
            return False, 'vftable::build_type not found'
        # its regions come from a map over function_to_region
        cl = P.closures_of(bt)
        ok1 = any(c['path'] and c['path'].endswith('function_to_region') for g in [bt] + cl for c in g.calls())
        ftr = [f for f in P.fns.values() if f.id.endswith('vftable::function_to_region')]
        ok2 = False
        if ftr:
            for x in ftr[0].exits():
                e = x['expr']
                if e[0] == 'agg' and e[1].endswith('Region'):
                    tr = dict(e[2]).get('type_ref')
                    ok2 = tr is not None and tr[0] == 'agg' and tr[1].endswith('Type::Function')
        return ok1 and ok2, 'build_type maps function_to_region: %s; function_to_region returns Region{type_ref: Type::Function}: %s' % (ok1, ok2)
    if name == 'registry-new-only-in-semantic-state':
        callers = {f.id for f, c in all_calls(P, r'TypeRegistry::new$')}
        ssn = [f for f in P.fns.values() if f.id.endswith('SemanticState::new')]
        # `u8` is a row of the predefined-type table that SemanticState::new registers (R-TABLE builtins)
        has_u8 = bool(ssn) and any(o.key.endswith('builtins|u8') for o in ctx.obs)
        return callers <= {'semantic::semantic_state::SemanticState::new'} and has_u8, 'callers of TypeRegistry::new: %s' % sorted(callers)
    if name in ('G9', 'P1', 'c10-d1'):
        tag = {'G9': 'G9', 'P1': 'P1', 'c10-d1': 'C10-D1'}[name]
        obs = [o for o in ctx.obs if ('|' + tag + '|') in o.key or o.key.endswith('|' + tag)]
        if not obs:
            return False, 'supporting obligation %s was not evaluated' % tag
        return all(o.ok for o in obs), 'supporting obligation %s: %s' % (tag, ['ok' if o.ok else 'FAILED' for o in obs])
    if name == 'alignments-nonzero':
        # every source of an alignment value is validated to be a power of two: the effective alignment of a type (G15),
        # extern types' align attribute, and the pointer size (before any type is built); built-ins are max(size, 1)
        g15 = [o for o in ctx.obs if o.key.endswith('G15|alignment-power-of-two')]
        ok15 = bool(g15) and all(o.ok for o in g15)
        g18 = [o for o in ctx.obs if o.key.endswith('G18|extern-align-power-of-two')]
        okx = bool(g18) and all(o.ok for o in g18)
        sb = [f for f in P.fns.values() if f.id.endswith('SemanticState::build')]
        okp = False
        if sb:
            from guards import guards_of, covers_all_paths
            for g_ in guards_of(sb[0]):
                if g_.kind == 'reject' and any(isinstance(x, tuple) and x[0] == 'call' and x[1].endswith('::is_power_of_two') and any(
                        isinstance(y, tuple) and y[0] == 'call' and y[1].endswith('pointer_size') for y in walk(x)) for x in walk(g_.pred)):
                    okp = covers_all_paths(sb[0], g_)
        fo = [o for o in ctx.obs if o.key.endswith('builtins|alignment-formula')]
        okb = (not fo) or all(o.ok for o in fo)
        return ok15 and okx and okp and okb, 'effective alignment validated: %s; extern align validated: %s; pointer size validated before resolution: %s; built-in formula max(size,1): %s' % (ok15, okx, okp, okb)
    if name == 'rem-decreases':
        g = P.fns.get('util::gcd')
        if not g:
            return False, 'gcd not found'
        # the only non-initial definition of the loop-test variable is a Rem by itself
        sw = [s for s in g.switches() if s['cond'][0] == 'bin' and s['cond'][1] == 'Ne' and s['cond'][3] == ('int', 0, 'usize')]
        if not sw or sw[0]['cond'][2][0] != 'var':
            return False, 'loop test is not `var != 0`'
        v = sw[0]['cond'][2][1]
        ds = g.init_of(v)
        ok = all(d[0] == 'bin' and d[1] == 'Rem' and d[3] == ('var', v, g.names.get(v, '_%d' % v)) for d in ds) and ds
        return bool(ok), 'definitions of the tested variable: %s' % [show(d) for d in ds]
    return False, 'unknown supporting fact ' + name


def len_bounded_push_loop(f, l, strict_only=False):
    """(ok, reason): the loop continues only while Vec::len(V) {<,<=} B for a loop-invariant B, every trip pushes onto V and
    nothing in the loop shrinks V"""
    h, body = l['header'], l['body']
    for s_ in f.switches():
        if s_['block'] not in body:
            continue
        c = s_['cond']
        if not (c[0] == 'bin' and c[1] in ('Lt', 'Le', 'Gt', 'Ge')):
            continue
        op, a, b = c[1], c[2], c[3]
        if b[0] == 'call' and b[1].endswith('::len'):
            op, a, b = {'Lt': 'Gt', 'Le': 'Ge', 'Gt': 'Lt', 'Ge': 'Le'}[op], b, a
        if not (a[0] == 'call' and a[1].endswith('Vec::<T, A>::len')):
            continue
        v = strip(a[2][0])
        # which edge stays in the loop?
        stay = [lab for lab, tgt in s_['edges'] if tgt in body and not _leaves(f, tgt, body, h)]
        leave = [lab for lab, tgt in s_['edges'] if tgt not in body]
        if not leave:
            continue
        cont_when = [lab for lab, tgt in s_['edges'] if tgt in body]
        if cont_when != [True] or op not in (('Lt',) if strict_only else ('Lt', 'Le')):
            continue
        # bound is loop invariant
        inv = True
        for x in walk(b):
            if isinstance(x, tuple) and x[0] == 'var':
                if any(d[0] in body for d in f.defs().get(x[1], [])):
                    inv = False
            if isinstance(x, tuple) and x[0] == 'call':
                inv = False
        pushes = [c_ for c_ in f.calls(lambda r: r['block'] in body and r['path'] and r['path'].endswith('Vec::<T, A>::push')) if strip(f.expr_of_operand(c_['term']['args'][0])) == v]
        shrink = [c_ for c_ in f.calls(lambda r: r['block'] in body and r['path'] and re.search(r'Vec::<T, A>::(pop|remove|clear|truncate|drain|swap_remove|retain|split_off)$', r['path']))]
        if inv and len(pushes) >= 1 and not shrink and not cycle_without(f, body, h, {pushes[0]['block']}):
            return True, 'COUNTER: the loop runs only while len(v) %s bound (loop-invariant) and every trip pushes onto v' % op, (op, v, b, pushes)
    return False, ''


def _leaves(f, tgt, body, h):
    return False


def cycle_without(f, body, header, cut):
    """is there still a cycle through `header` inside `body` when blocks in `cut` are removed?"""
    seen = set()
    st = [s for s in f.succ(header) if s in body and s not in cut]
    while st:
        x = st.pop()
        if x == header:
            return True
        if x in seen:
            continue
        seen.add(x)
        st.extend(s for s in f.succ(x) if s in body and s not in cut)
    return False


FINITE_ITER = re.compile(
    r'^(&mut )?(std::iter::(Enumerate|Filter|Map|FilterMap|Zip|Chain|Rev|Peekable|Skip|Take|FlatMap|Flatten|Copied|Cloned|Once)<.*|'
    r'std::slice::(Iter|IterMut)<.*|std::vec::IntoIter<.*|std::array::IntoIter<.*|std::ops::Range<usize>|'
    r'std::collections::hash_(map|set)::\w+<.*|std::str::(Lines|Chars|Split\w*)<.*|syn::punctuated::\w+<.*|'
    r'std::collections::btree_(map|set)::\w+<.*|std::option::(Iter|IntoIter)<.*|quote::__private::\w+.*|'
    r'glob::Paths|std::path::(Iter|Components|Ancestors)<.*|std::iter::(Inspect|TakeWhile|SkipWhile|MapWhile|StepBy|Fuse|Scan)<.*|std::vec::Drain<.*|'
    r'std::collections::(vec_deque|binary_heap|linked_list)::\w+<.*|std::str::(CharIndices|Bytes|SplitWhitespace|Matches|RMatches)<.*|std::fs::ReadDir|std::env::Args)$')
INFINITE = re.compile(r'std::iter::(Repeat|RepeatWith|Cycle|Successors|FromFn|RepeatN)\\b|std::ops::RangeFrom')


def finite_iter(ty):
    ty = re.sub(r"'\\w+ ?", '', ty)
    return bool(FINITE_ITER.match(ty)) and (not INFINITE.search(ty) or ty.startswith(('std::iter::Take<', 'std::iter::Zip<')))


CONSUMING = re.compile(r'^(syn::parse::ParseBuffer::<\'\w+>::(parse|parse_terminated|call|step)|syn::parse::ParseBuffer::parse|'
                       r'syn::parse::ParseBuffer::parse_terminated|syn::parse::ParseBuffer::call|parser::parse_\w+|'
                       r'parser::<impl .*>::parse\w*|parser::.*::parse_\w+|<.* as syn::parse::Parse>::parse)$')


def run(ctx):
    from spec_loader import load_spec
    T = load_spec('panic_table')
    P = ctx.prog
    roots = [f.id for f in P.fns.values() if f.public]
    reach, _ = P.reachable_from(roots)
    ctx.stats['public_roots'] = len(roots)
    # ---- D1 panic sites
    # Entries (reviewed table + listed findings) are matched to sites in two passes: by exact key (function + signature), then,
    # for entries whose site is gone, by the coarse signature alone — a site that merely moved to another function, or whose
    # operands were renamed, stays under the entry's key; an additional site of the same coarse shape is still reported.
    from core import load_known
    known, _fixed = load_known()
    entries = {}
    for k, t in T.TABLE.items():
        entries[k] = dict(kind='table', t=t, coarse=t[3] if len(t) > 3 else None, tcoarse=t[4] if len(t) > 4 else None, used=False)
    for (prop, k), r in known.items():
        if prop == 'C12' and k.startswith('R-PANIC|'):
            entries[k[len('R-PANIC|'):]] = dict(kind='known', coarse=r.get('coarse'), tcoarse=r.get('tcoarse'), used=False)
    seen = {}
    sites = []
    for s in panic_sites(P, reach):
        key = s['key']
        s['coarse'] = coarse_of(s)
        s['tcoarse'] = tcoarse_of(s) if s['kind'] in ('assert', 'intop') else None
        if s['kind'] == 'ident':
            fmt = [x for x in walk(('tuple', s['ops'])) if isinstance(x, tuple) and x and x[0] == 'const' and x[1].startswith('b"')]
            lits = ident_literals(P, s['fn'], ('tuple', s['ops']))
            # the fixed text that goes into the identifier is part of the site's identity: a reviewed finding about one
            # composition (`_`-joined segments) must not cover another (`.`-joined ones)
            lit_s = ('|lits=' + ','.join(repr(x) for x in lits)) if lits else ''
            key = '%s|format_ident(%s)%s' % (stable_id(s['fn'].id), fmt[0][1] if fmt else '?', lit_s)
            s['coarse'] = 'format_ident(%s)%s' % (fmt[0][1] if fmt else '?', lit_s)
        n = seen.get(key, 0)
        seen[key] = n + 1
        s['okey'] = key if n == 0 else '%s#%d' % (key, n + 1)
        s['auto'] = auto_discharge(P, s)
        sites.append(s)
    nsites = len(sites)
    for s in sites:
        if not s['auto'] and s['okey'] in entries and not entries[s['okey']]['used']:
            s['entry'] = s['okey']
            entries[s['okey']]['used'] = True
    for s in sites:
        if s['auto'] or s.get('entry'):
            continue
        for k, en in entries.items():
            # only a site that is no longer in the entry's function counts as "moved": a site that stayed where it was and whose
            # operands changed is a different site (e.g. nth(line) instead of nth(line - 1)) and must be reviewed afresh
            same_fn = k.split('|')[0] == stable_id(s['fn'].id)
            alias = isinstance(en['coarse'], tuple) and s['coarse'] in en['coarse'][1:]     # a reviewed equivalent spelling, listed explicitly
            if same_fn and not alias:
                continue
            if not en['used'] and en['coarse'] and (s['coarse'] == en['coarse'] or (isinstance(en['coarse'], tuple) and s['coarse'] in en['coarse'])):
                s['entry'] = k
                s['moved'] = True
                en['used'] = True
                break
    for s in sites:
        if s['auto'] or s.get('entry') or not s.get('tcoarse'):
            continue
        for k, en in entries.items():
            if k.split('|')[0] == stable_id(s['fn'].id):
                continue
            if not en['used'] and en.get('tcoarse') and en['tcoarse'] == s['tcoarse']:
                s['entry'] = k
                s['moved'] = True
                en['used'] = True
                break
    for s in sites:
        where = loc(s['span'])
        if s['auto']:
            ctx.ob('C12', 'R-PANIC', s['okey'], True, '%s: %s' % s['auto'], where, s['sig'])
            continue
        en = entries.get(s.get('entry'))
        moved = ' [site matched by its coarse signature %s; now in %s]' % (s['coarse'], s['fn'].id) if s.get('moved') else ''
        if en and en['kind'] == 'table':
            t = en['t']
            ok, why = supporting_fact(ctx, t[2])
            ctx.ob('C12', 'R-PANIC', s['entry'], ok, '%s (reviewed): %s%s%s' % (t[0], t[1], '' if ok else ' — SUPPORTING FACT FAILED: ' + why, moved),
                   where, s['sig'])
        elif en:
            ctx.ob('C12', 'R-PANIC', s['entry'], False,
                   'panic-capable site reachable from the public API with no discharge: %s in %s%s' % (s['what'], s['fn'].id, moved), where, s['sig'])
        else:
            ctx.ob('C12', 'R-PANIC', s['okey'], False,
                   'panic-capable site reachable from the public API with no discharge: %s in %s' % (s['what'], s['fn'].id), where,
                   s['sig'] + ' coarse=' + s['coarse'])
    ctx.ob('C12', 'R-PANIC', 'census', nsites >= 20, 'panic-capable sites enumerated: %d (floor 20: the census must not be vacuous)' % nsites,
           nontrivial=False)
    # ---- D2 lossy casts of run-time integers
    ncast = 0
    seenc = {}
    for c in cast_sites(P, reach):
        if re.match(r'grammar::Attribute::(address|size|align|singleton|index)$', c['fn'].id):
            # test-helper constructors usize -> isize: not on any input path (callers are tests only)
            callers = [f.id for f in P.fns.values() if c['fn'].id in P.callees(f.id)]
            ctx.ob('C12', 'R-CAST', '%s|%s' % (c['fn'].id, c['sig']), not callers,
                   'constructor helper casts usize→isize; it has no non-test caller' if not callers else 'helper with lossy cast is called from %s' % callers,
                   loc(c['span']))
            continue
        ncast += 1
        k = '%s|%s->%s' % (stable_id(c['fn'].id), c['frm'], c['to'])
        n = seenc.get(k, 0)
        seenc[k] = n + 1
        src = 'IntLiteral' if any(isinstance(x, tuple) and x[0] == 'payload' and x[2] == 'IntLiteral' for x in walk(c['expr'])) else 'value'
        ctx.ob(['C12'] + (['C15'] if re.search(r'add_module|enum_definition::build', c['fn'].id) else []) + (['C04'] if 'vftable' in c['fn'].id or 'type_definition::build' in c['fn'].id else []),
               'R-CAST', k if n == 0 else '%s#%d' % (k, n + 1), False,
               'value-changing `as` cast %s→%s of a run-time %s (negative or oversized numbers wrap silently); the sibling sites use TryFrom' % (c['frm'], c['to'], src),
               loc(c['span']), show(c['expr'])[:200])
    # ---- D3 loops and recursion
    nl = 0
    for l in loop_sites(P, reach):
        f = l['fn']
        nl += 1
        key = '%s|loop@%s' % (stable_id(f.id), ('iter:' + re.sub(r"'\w+ ?", '', l['drivers'][0][1])[:60]) if l['drivers'] else 'cond')
        where = loc(l['span'])
        # (a) driven by a finite std iterator whose None edge leaves the loop
        ok = False
        why = ''
        for (bi, sty, e) in l['drivers']:
            if sty.startswith('impl ') and not cycle_without(f, l['body'], l['header'], {bi}):
                # the iterator is a parameter of opaque type: every call site must pass a finite iterator
                r_ = _projection_of_param(strip(e))
                sites_ = [(g, c) for g in P.fns.values() if not g.raw.get('derived') for c in g.calls(lambda r: r['path'] == f.id)]
                tys = []
                if r_ and sites_:
                    for g, c in sites_:
                        a = c['term']['args'][r_[0] - 1]
                        tys.append((a.get('place') or {}).get('ty') or a.get('ty') or '?')
                if tys and all(finite_iter(t) for t in tys):
                    ok = True
                    why = 'iterator parameter; every call site passes a finite iterator: %s' % [t[:60] for t in tys]
                    break
            if finite_iter(sty) and not cycle_without(f, l['body'], l['header'], {bi}):
                ok = True
                why = 'every trip passes Iterator::next of finite %s' % sty[:80]
                break
        if not ok and any(m.startswith('quote::') for m in l['span'].get('macros', [])):
            ok = any(finite_iter(sty) for (_, sty, _) in l['drivers'])
            why = 'quote! repetition over finite iterators'
        if not ok and re.search(T.PARSER_LOOP_FNS, f.id):
            cut = {c['block'] for c in f.calls(lambda r: r['path'] and CONSUMING.match(r['path']))}
            ok = not cycle_without(f, l['body'], l['header'], cut)
            why = 'every trip around the loop passes a token-consuming parse call' if ok else 'a trip around the loop can avoid every token-consuming call'
        if not ok:
            # counter loop: `while v.len() < bound { .. v.push(..) .. }` with a loop-invariant bound
            r_ = len_bounded_push_loop(f, l)
            if r_[0]:
                ok, why = True, r_[1]
        if not ok and f.id in T.LOOPS:
            cls, reason, fact = T.LOOPS[f.id]
            ok, fw = supporting_fact(ctx, fact)
            why = '%s (reviewed): %s; %s' % (cls, reason, fw)
        ctx.ob('C12', 'R-LOOP', key, ok, why or 'loop with no termination class', where)
    ctx.ob('C12', 'R-LOOP', 'census', nl >= 30, 'loops classified: %d (floor 30)' % nl, nontrivial=False)
    # recursion: SCCs of the call graph
    cyc = recursive_fns(P, reach)
    for fid in sorted(cyc):
        base = re.sub(r'::\{closure#\d+\}', '', fid)
        sr = structural_recursion(P, fid, cyc)
        if sr[0]:
            ctx.ob('C12', 'R-LOOP', 'recursion|' + stable_id(base), True, 'structural recursion: ' + sr[1], loc(P.fns[fid].span))
            continue
        if 'work doubles' in sr[1]:
            ctx.ob('C12', 'R-LOOP', 'recursion|' + stable_id(base), False, 'recursion that repeats itself: ' + sr[1], loc(P.fns[fid].span))
            continue
        ctx.ob('C12', 'R-LOOP', 'recursion|' + stable_id(base), base in T.RECURSION,
               ('recursion along input nesting (reviewed): ' + T.RECURSION[base]) if base in T.RECURSION else
               'recursive function without a structural or reviewed termination argument (%s)' % sr[1],
               loc(P.fns[fid].span))
    # ---- D4 parse errors carry file, line and column
    af = [f for f in P.fns.values() if f.id.endswith('SemanticState::add_file')]
    if not af:
        ctx.fail_closed('C12', 'R-EXPR', 'C12-D4', 'SemanticState::add_file not found')
    else:
        af = af[0]
        cl = [af] + P.closures_of(af)        # the mapping may be a closure (`map_err(|e| ..)`) or an `Err(e) => ..` arm of add_file itself
        txt = json.dumps([c.raw['blocks'] for c in cl])
        has_fmt = any(('str' in x and 'failed to parse' in x.get('str', '')) for x in _all_consts(cl)) or 'failed to parse' in txt
        fields = set()
        for c in cl:
            for x in [e for cc in c.calls() for a in cc['term']['args'] for e in walk(c.expr_of_operand(a))]:
                pass
            for s_ in c.blocks:
                pass
        uses = {'line': False, 'column': False, 'start': False}
        for c in cl:
            t = json.dumps(c.raw['blocks'])
            uses['line'] |= '"name": "line"' in t
            uses['column'] |= '"name": "column"' in t
            uses['start'] |= 'Span::start' in t
        okd4 = all(uses.values())
        # the position in the message is a position in the file only if the parser saw the file's text itself: between the
        # read and parse_str nothing but borrows (no trimming, replacing, slicing — each shifts lines or columns)
        IDENT = re.compile(r'(Deref>::deref|::as_str|::as_ref|::borrow|::clone|::as_mut_str|::to_string|::to_owned|String::from|convert::From<.*>>::from|convert::Into<.*>>::into|ToString::to_string|ToOwned::to_owned)$')
        srcs = []
        for c in cl:
            for cc in c.calls(lambda r: (r['path'] or '').endswith('parser::parse_str')):
                e = strip(c.expr_of_call(cc['term'])[2][0])
                for _ in range(12):
                    if e[0] == 'try':
                        e = strip(e[1])
                    elif e[0] == 'payload' and e[2] in ('Ok', 'Continue', 'Some'):
                        e = strip(e[1])
                    elif e[0] == 'call' and e[2] and IDENT.search(e[1]):
                        e = strip(e[2][0])
                    elif e[0] == 'var' and len(c.init_of(e[1])) == 1 and strip(c.init_of(e[1])[0]) != e:
                        e = strip(c.init_of(e[1])[0])
                    else:
                        break
                whole = e[0] == 'call' and re.search(r'std::fs::read_to_string$', e[1]) is not None
                if not whole and e[0] in ('var', 'call'):
                    # `let mut s = String::new(); file.read_to_string(&mut s)?`
                    whole = (e[0] == 'call' and e[1].endswith('String::new')) and any(
                        re.search(r'Read>?::read_to_string$', r2['path'] or '') for r2 in c.calls())
                srcs.append((whole, show(e)[:80]))
        ctx.ob('C12', 'R-EXPR', 'C12-D4|parser-sees-the-file-text', bool(srcs) and all(w for w, _ in srcs),
               'what add_file hands to parse_str is the text read from the file, only borrowed on the way (line and column of a syntax error are positions in the file): %s' % [t_ for _, t_ in srcs], loc(af.span))
        ctx.ob('C12', 'R-EXPR', 'C12-D4', okd4,
               'add_file maps the parser error through span().start() and interpolates line and column into the context: %s' % uses, loc(af.span))


def _all_consts(fns):
    for f in fns:
        for bi in f.normal_blocks():
            for op in f.block_operands(bi):
                if op.get('k') == 'Const':
                    yield op


def _projection_of_param(e, d=0):
    """(param index, number of enum-payload steps) if `e` is a chain of projections (variant payload, field, Box/reference
    deref, as_ref, iteration over a contained collection) rooted at a parameter of the function, else None"""
    steps = 0
    while isinstance(e, tuple) and d < 40:
        d += 1
        k = e[0]
        if k == 'arg':
            return e[1], steps
        if k == 'payload':
            if e[2] not in ('Some', 'Ok', 'Continue'):
                steps += 1
            e = e[1]
        elif k in ('field', 'cindex', 'index', 'try'):
            e = e[1]
        elif k == 'cast':
            e = e[4]
        elif k == 'call' and e[2] and re.search(r'(^|::)(as_ref|deref|deref_mut|borrow|next|into_iter|iter|as_slice|as_deref|unwrap|clone)$', short(e[1])):
            e = e[2][0]
        else:
            return None
    return None


def structural_recursion(P, fid, cyc):
    """every call from `fid` back into its cycle is a direct self call one of whose arguments is a strict sub-component (at least
    one enum-variant payload deep) of the function's own parameter in the same position: recursion on an owned, finite tree"""
    f = P.fns[fid]
    if f.kind == 'Closure':
        return False, 'recursion through a closure'
    for c in P.closures_of(f):
        if any(cc['path'] in cyc for cc in c.calls()):
            return False, 'recursive call inside a closure'
    n = 0
    sites = []
    for c in f.calls():
        if c['path'] not in cyc:
            continue
        if c['path'] != fid:
            return False, 'mutual recursion with ' + c['path']
        ok = False
        for i, a in enumerate(c['term']['args']):
            r = _projection_of_param(strip(f.expr_of_operand(a)))
            if r and r[0] == i + 1 and r[1] >= 1:
                ok = True
        if not ok:
            return False, 'a self call passes no sub-component of its own parameter'
        n += 1
        sites.append((c['block'], repr([strip(f.expr_of_operand(a)) for a in c['term']['args']])))
    # the same sub-component walked twice on one path doubles the work at every level of nesting: 2^depth steps for an input
    # of size depth (a build that does not finish in practice)
    for i_, (b1, a1) in enumerate(sites):
        for b2, a2 in sites[i_ + 1:]:
            if a1 == a2 and b1 != b2 and (b2 in f.reach(b1) or b1 in f.reach(b2)):
                return False, 'the same sub-component is passed to two self calls on one path (work doubles with every level of nesting)'
    return n > 0, '%d self call(s), each on a variant payload of the same parameter' % n


def recursive_fns(P, reach):
    """functions on a call-graph cycle (Tarjan SCC), derived impls excluded"""
    nodes = [n for n in reach if not P.fns[n].raw.get('derived')]
    idx = {}
    low = {}
    onst = set()
    st = []
    out = set()
    counter = [0]
    sys.setrecursionlimit(20000)

    def sc(v):
        idx[v] = low[v] = counter[0]
        counter[0] += 1
        st.append(v)
        onst.add(v)
        for w in P.callees(v, kinds=('call', 'closure', 'fnref', 'generic-impl')):
            if w not in P.fns or P.fns[w].raw.get('derived'):
                continue
            if w not in idx:
                sc(w)
                low[v] = min(low[v], low[w])
            elif w in onst:
                low[v] = min(low[v], idx[w])
        if low[v] == idx[v]:
            comp = []
            while True:
                w = st.pop()
                onst.discard(w)
                comp.append(w)
                if w == v:
                    break
            if len(comp) > 1 or v in P.callees(v, kinds=('call', 'closure', 'fnref', 'generic-impl')):
                out.update(comp)
    for n in nodes:
        if n not in idx:
            sc(n)
    return out
