import importlib.util, os
VERIF = os.path.dirname(os.path.dirname(os.path.abspath(__file__)))
def load_spec(name):
    p = os.path.join(VERIF, 'spec', name + '.py')
    spec = importlib.util.spec_from_file_location('spec_' + name, p)
    m = importlib.util.module_from_spec(spec)
    spec.loader.exec_module(m)
    return m
