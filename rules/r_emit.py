"""r_emit — the file writer (C13-D1, C14-D1/D5, C15-D2/G13, C19) on MIR."""
import re
from mirlib import *
from guards import *
from r_panic import cycle_without

FS_WRITE = re.compile(r'^std::fs::(write|create_dir|create_dir_all|copy|rename|remove_\w+|hard_link|set_permissions)$|^std::fs::File::(create|create_new|options)$|^std::fs::OpenOptions::|^std::os::|^std::process::')


def cid(fid):
    return re.sub(r'\{closure#\d+\}', '{closure}', fid)


def run(ctx):
    P = ctx.prog
    wm = [f for f in P.fns.values() if f.id.endswith('backends::rust::write_module')]
    lb = [f for f in P.fns.values() if f.id == 'build']
    if not wm or not lb:
        ctx.fail_closed(['C13', 'C14'], 'R-ANCHOR', 'WM', 'write_module / lib::build not found')
        return
    wm, lb = wm[0], lb[0]
    where = loc(wm.span)
    gs = guards_of(wm)
    oks = [x for x in wm.exits() if x['kind'] == 'ok']
    # ---- C14-D1 file set
    sites = []
    for f in P.fns.values():
        if f.raw.get('derived'):
            continue
        for c in f.calls(lambda r: r['path'] and FS_WRITE.match(r['path'])):
            sites.append((cid(f.id), short(c['path']), loc(c['span'])))
    bad = [s for s in sites if s[0] != wm.id]
    ctx.ob(['C14', 'C19'], 'R-REACH', 'C14-D1|only-writer', not bad and len(sites) >= 2, 'files and directories are created only by write_module: %s' % sites, where)
    fw = [c for c in wm.calls(lambda r: r['path'] == 'std::fs::write')]
    ctx.ob(['C14', 'C09'], 'R-REACH', 'C14-D1|one-file-per-call', len(fw) == 1, 'write_module writes exactly one file, replacing whatever was there (%d fs::write sites)' % len(fw), where)
    # early return only for the root module
    early = [x for x in oks if fw and fw[0]['block'] not in {b for b in wm.normal_blocks() if x['block'] in wm.reach(b)} or (fw and not unreachable_without(wm, x['block'], {fw[0]['block']}))]
    ok_early = True
    det = []
    for x in early:
        doms = [show(norm_pred(s['cond'], lab)) for s in wm.switches() for lab, tgt in s['edges'] if wm.dominates(tgt, x['block']) and wm.pred(tgt) == [s['block']]]
        det.append(doms)
        if not (len(doms) == 1 and re.match(r'^ItemPath::is_empty\(\w+\)$', doms[0])):
            ok_early = False
    ctx.ob(['C14', 'C13'], 'R-DOM', 'C14-D1|skips-only-root', ok_early and len(early) == 1,
           'the root module (built-in types, no input file) is skipped — key.is_empty() returns Ok without writing — and that is the only way to return Ok without writing the file: %s' % det, where)
    # path = out_dir + segments + .rs   (built in write_module itself or in a helper whose result is the path written)
    G, call_args_ = wm, None
    if fw:
        pa0 = strip(expand(wm, wm.expr_of_operand(fw[0]['term']['args'][0])))
        while pa0[0] == 'call' and pa0[1] not in P.fns and pa0[2] and re.search(r'(deref|as_ref|as_path|borrow|clone)$', pa0[1]):
            pa0 = strip(pa0[2][0])
        if pa0[0] == 'call' and pa0[1] in P.fns and P.fns[pa0[1]].raw.get('output', '') == 'std::path::PathBuf':
            G, call_args_ = P.fns[pa0[1]], pa0[2]
    pushes = [c for c in G.calls(lambda r: r['path'] and r['path'].endswith('PathBuf::push'))]
    exts_ = [c for c in G.calls(lambda r: r['gpath'] and r['gpath'].endswith('Extend::extend') and 'PathBuf' in (r['callee'].get('self_ty') or r['callee'].get('full') or ''))]
    okp = False
    pvar = None
    if len(pushes) == 1 and not exts_:
        L = innermost_loop(G, pushes[0]['block'])
        sty, src = loop_source(G, L) if L else (None, None)
        arg = G.expr_of_operand(pushes[0]['term']['args'][1])
        okp = bool(L) and sty == "std::slice::Iter<'_, grammar::ItemPathSegment>" and bool(find_calls(src, 'ItemPath::iter')) and not cycle_without(G, L[1], L[0], {pushes[0]['block']}) \
            and is_call(strip(arg), 'ItemPathSegment::as_str') and strip(strip(arg)[2][0])[0] == 'payload' and is_call(strip(strip(strip(arg)[2][0])[1]), 'Iterator::next')
        pvar = strip(G.expr_of_operand(pushes[0]['term']['args'][0]))
        key_src = src
    elif len(exts_) == 1 and not pushes:
        # path.extend(key.iter().map(|s| s.as_str()))
        it = strip(expand(G, G.expr_of_operand(exts_[0]['term']['args'][1])))
        if is_call(it, 'Iterator::map') and is_call(strip(it[2][0]), 'ItemPath::iter') and len(it[2]) == 2:
            pf = predicate_fn(P, it[2][1])
            ex_ = [strip(x['expr']) for x in pf.exits()] if pf is not None else []
            okp = pf is not None and not pf.switches() and (pf.id.endswith('ItemPathSegment::as_str') or (len(ex_) == 1 and is_call(ex_[0], 'ItemPathSegment::as_str')))
        pvar = strip(G.expr_of_operand(exts_[0]['term']['args'][0]))
        key_src = it
    ext = [c for c in G.calls(lambda r: r['path'] and r['path'].endswith('PathBuf::set_extension'))]
    oke = len(ext) == 1 and ('str', 'rs') in list(walk(G.expr_of_call(ext[0]['term']))) and pvar is not None and strip(G.expr_of_operand(ext[0]['term']['args'][0])) == pvar
    base = [c for c in G.calls(lambda r: r['path'] and r['path'].endswith('Path::to_path_buf'))]
    okb = False
    if pvar is not None and pvar[0] == 'var':
        ini = [strip(d_) for d_ in G.init_of(pvar[1])]
        okb = len(ini) == 1 and is_call(ini[0], 'Path::to_path_buf') and strip(ini[0][2][0])[0] == 'arg'
        if okb and call_args_ is not None:
            # the helper's parameters are write_module's out_dir and key
            a_dir = strip(call_args_[strip(ini[0][2][0])[1] - 1])
            keys_ = [strip(call_args_[x[1] - 1]) for x in walk(key_src) if isinstance(x, tuple) and x[0] == 'arg' and 1 <= x[1] <= len(call_args_)]
            okb = a_dir[0] == 'arg' and len(keys_) >= 1 and all(k_[0] == 'arg' for k_ in keys_)
    okw = False
    if fw:
        pa = strip(wm.expr_of_operand(fw[0]['term']['args'][0]))
        if G is wm:
            okw = pa[0] == 'var' and pvar == pa
        else:
            okw = all(strip(x['expr']) == pvar for x in G.exits()) and len(G.exits()) == 1
    ctx.ob(['C14'], 'R-EXPR', 'C14-D1|output-path', bool(okp and oke and okb and okw), 'the file written is out_dir / every path segment of the module key, in order, with extension `rs`', where)
    # lib::build calls write_module for every module
    calls = [c for c in lb.calls(lambda r: r['path'] == wm.id)]
    okl = False
    if len(calls) == 1:
        L = innermost_loop(lb, calls[0]['block'])
        sty, src = loop_source(lb, L) if L else (None, None)
        okl = bool(L) and sty is not None and sty.startswith('std::collections::hash_map::Iter<') and not cycle_without(lb, L[1], L[0], {calls[0]['block']})
        okl = okl and any(g.kind == 'reject' and g.pred[0] == 'fails' and find_calls(g.pred, 'write_module') for g in guards_of(lb))
        e = lb.expr_of_call(calls[0]['term'])
        # (key, module) of the same map entry
        okl = okl and sum(1 for a in e[2] if any(is_call(x, 'Iterator::next') for x in walk(a))) == 2
    if not calls:
        # resolved.modules().iter().try_for_each(|(key, module)| write_module(out_dir, key, &resolved, module))
        for g_ in P.closures_of(lb):
            cc = [c for c in g_.calls(lambda r: r['path'] == wm.id)]
            if len(cc) != 1:
                continue
            tf = [c for c in lb.calls(lambda r: r['gpath'] and r['gpath'].endswith('Iterator::try_for_each')) if any(
                isinstance(x, tuple) and x and x[0] == 'closure' and x[1] == g_.id for x in walk(lb.expr_of_call(c['term'])))]
            if len(tf) != 1:
                continue
            te = lb.expr_of_call(tf[0]['term'])
            recv = strip(expand(lb, te[2][0]))
            adapters = [c_[3] for c_ in calls_in(recv) if re.search(r'Iterator::\w+$', c_[3]) and not c_[3].endswith('IntoIterator::into_iter')]
            over_map = not adapters and any(isinstance(x, tuple) and x and x[0] == 'call' and re.search(r'HashMap<.*>::iter$|HashMap::<.*>::iter$', x[4] if len(x) > 4 else x[1]) or
                                            is_call(x, 'ResolvedSemanticState::modules') for x in walk(recv))
            ce = g_.expr_of_call(cc[0]['term'])
            every = all(g_.dominates(cc[0]['block'], x['block']) for x in g_.exits()) and all(
                any(is_call(y, 'write_module') for y in walk(expand(g_, x['expr']))) for x in g_.exits() if x['kind'] not in ('err_prop', 'err_own'))
            # key and module are the two components of the closure's own argument (one map entry)
            comps = set()
            for a in ce[2]:
                for x in walk(a):
                    if isinstance(x, tuple) and x and x[0] == 'field' and x[2] in ('0', '1') and strip(x[1])[0] == 'arg' and strip(x[1])[1] == 2:
                        comps.add(x[2])
            handed_on = any(g.kind == 'reject' and g.pred[0] == 'fails' and find_calls(g.pred, 'try_for_each') for g in guards_of(lb)) or any(
                x['kind'] in ('passthrough', 'other') and any(is_call(y, 'try_for_each') for y in walk(expand(lb, x['expr']))) for x in lb.exits())
            okl = bool(over_map and every and comps == {'0', '1'} and handed_on)
    ctx.ob(['C14', 'C15'], 'R-ITER', 'C14-D1|every-module-written', okl, 'build() calls write_module for every module of the resolved state (unfiltered loop, key and module of the same entry, error propagated)', loc(lb.span))
    # lib::build discovers the inputs: every file `<in_dir>/**/*.pyxis` (default glob options) is handed to add_file
    disc = [c for c in lb.calls(lambda r: r['path'] and re.match(r'^glob::(glob|glob_with)$', r['path']))]
    okd, detd = False, 'expected exactly one glob call, found %d' % len(disc)
    if len(disc) == 1:
        de = expand(lb, lb.expr_of_call(disc[0]['term']))
        pat = [x for x in walk(de[2][0]) if isinstance(x, tuple) and x and x[0] == 'const' and isinstance(x[1], str) and x[1].startswith('b"')]
        dirs = [x for x in walk(de[2][0]) if is_call(x, 'Path::display')]
        okpat = len(pat) == 1 and re.match(r'^b"\\xc0\\x0b/\*\*/\*\.pyxis(\\x00)?"$', pat[0][1]) is not None and len(dirs) == 1 and strip(dirs[0][2][0])[0] == 'arg'
        if not okpat:
            # the same pattern spelled as in_dir.join("**/*.pyxis")
            joins_ = [x for x in walk(de[2][0]) if is_call(x, 'Path::join') and len(x[2]) == 2 and strip(x[2][0])[0] == 'arg' and ('str', '**/*.pyxis') in list(walk(x[2][1]))]
            okpat = len(joins_) == 1 and not pat
        okopt = disc[0]['path'] == 'glob::glob'
        if not okopt and len(de[2]) == 2:
            o = strip(de[2][1])
            if o[0] == 'agg' and o[1].endswith('MatchOptions'):
                fl = dict(o[2])
                val = lambda k: strip(fl.get(k, ('?',)))
                okopt = val('case_sensitive') == ('int', 1, 'bool') and val('require_literal_separator') == ('int', 0, 'bool') and val('require_literal_leading_dot') == ('int', 0, 'bool')
            elif is_call(o, 'MatchOptions::new') or is_call(o, 'Default::default'):
                okopt = True
        okd = bool(okpat and okopt)
        detd = 'pattern %s over %s, default match options %s' % ([x[1] for x in pat], [show(strip(d_[2][0])) for d_ in dirs], okopt)
    ctx.ob(['C14', 'C09'], 'R-EXPR', 'C14-D2|input-discovery', okd, 'the inputs are all files matching <in_dir>/**/*.pyxis with the glob crate\'s default options (dot files and every directory depth included): %s' % detd, loc(lb.span))
    ADD = lambda r: r['path'] and r['path'].endswith('SemanticState::add_file')
    adds = [(lb, c) for c in lb.calls(ADD)] + [(g_, c) for g_ in P.closures_of(lb) for c in g_.calls(ADD)]
    oka, deta = False, 'expected exactly one add_file call, found %d' % len(adds)

    def glob_chain_ok(srce):
        chain = [c_[3] for c_ in calls_in(srce)]
        adapters = [c_ for c_ in chain if re.search(r'Iterator::\w+$', c_) and not c_.endswith('IntoIterator::into_iter')]
        okf = adapters == [] or (adapters == ['std::iter::Iterator::filter_map'] and any(isinstance(x, tuple) and x[0] == 'fnref' and x[1].endswith('::ok') for x in walk(srce)))
        return okf and any(is_call(x, 'glob::glob') for x in walk(srce))
    if len(adds) == 1 and len(disc) == 1:
        g_, ac = adds[0]
        ae = g_.expr_of_call(ac['term'])
        if g_ is lb:
            L = innermost_loop(lb, ac['block'])
            sty, src = loop_source(lb, L) if L else (None, None)
            srce = strip(expand(lb, src)) if src is not None else ('?',)
            only_ok = glob_chain_ok(srce)
            # every trip reaches add_file; the only way round it is the Err case of the element itself (an unreadable entry)
            every = False
            if L:
                h, body, _ = L
                err_edges = {(s_['block'], tgt) for s_ in lb.switches() if s_['block'] in body and s_['cond'][0] == 'discr' and any(is_call(x, 'Iterator::next') for x in walk(s_['cond'][1]))
                             for lab, tgt in s_['edges'] if lab == 'Err'}
                st, seen, every = [x for x in lb.succ(h) if x in body], set(), True
                while st:
                    x = st.pop()
                    if x == h:
                        every = False
                        break
                    if x in seen or x == ac['block']:
                        continue
                    seen.add(x)
                    st.extend(y for y in lb.succ(x) if y in body and (x, y) not in err_edges)
            prop = any(g.kind == 'reject' and g.pred[0] == 'fails' and find_calls(g.pred, 'add_file') for g in guards_of(lb))
            elem = len(ae[2]) == 3 and any(is_call(x, 'Iterator::next') for x in walk(ae[2][2])) and any(isinstance(x, tuple) and x[0] == 'arg' for x in walk(ae[2][1])) and \
                not any(is_call(x, 'Iterator::next') for x in walk(ae[2][1]))
            form = 'loop over the glob result'
        else:
            # glob(..).filter_map(Result::ok).try_for_each(|p| state.add_file(in_dir, &p))?
            tfe = [c for c in lb.calls(lambda r: r['gpath'] and r['gpath'].endswith('Iterator::try_for_each'))]
            # (the modules may be written by a second try_for_each: the one meant here is the one that is given this closure)
            tfe = [c for c in tfe if any(isinstance(x, tuple) and x and x[0] == 'closure' and x[1] == g_.id for x in walk(lb.expr_of_call(c['term'])))] or tfe
            only_ok = every = prop = elem = False
            if len(tfe) == 1:
                te = lb.expr_of_call(tfe[0]['term'])
                only_ok = glob_chain_ok(strip(expand(lb, te[2][0]))) and te[2][1][0] == 'closure' and te[2][1][1] == g_.id
                exits = g_.exits()
                every = all(g_.dominates(ac['block'], x['block']) for x in exits) and len(g_.calls(ADD)) == 1 and \
                    all(any(is_call(y, 'add_file') for y in walk(expand(g_, x['expr']))) for x in exits)
                prop = any(g.kind == 'reject' and g.pred[0] == 'fails' and find_calls(g.pred, 'try_for_each') for g in guards_of(lb))
                caps = te[2][1][2] if len(te[2][1]) > 2 else []
                ups = [x[1] for x in walk(ae[2][1]) if isinstance(x, tuple) and x[0] == 'upvar']
                elem = len(ae[2]) == 3 and any(isinstance(x, tuple) and x[0] == 'arg' and x[1] >= 2 for x in walk(ae[2][2])) and len(ups) == 1 and ups[0] < len(caps) and \
                    strip(caps[ups[0]])[0] == 'arg'
            form = 'try_for_each over the glob result'
        oka = bool(only_ok and every and prop and elem)
        deta = '%s (only adapter filter_map(Result::ok): %s), add_file on every trip %s, error propagated %s, arguments (in_dir, found path) %s' % (form, only_ok, every, prop, elem)
    ctx.ob(['C14', 'C19', 'C09'], 'R-ITER', 'C14-D2|every-found-file-added', oka, 'every discovered file is parsed and added with its path relative to in_dir: %s' % deta, loc(lb.span))
    # ---- C13-D1 parse gate
    pf = [c for c in wm.calls(lambda r: r['path'] == 'syn::parse_file')]
    okg = False
    det = ''
    if len(pf) == 1 and len(oks) >= 1:
        final = [x for x in oks if x not in early]
        pe = wm.expr_of_call(pf[0]['term'])
        sw = [s for s in wm.switches() if s['cond'][0] == 'discr' and s['cond'][1] == pe]
        if len(sw) == 1 and len(final) == 1:
            err_t = [tgt for lab, tgt in sw[0]['edges'] if lab == 'Err']
            ok_t = [tgt for lab, tgt in sw[0]['edges'] if lab == 'Ok']
            # (i) parse_file lies on every path to the final Ok
            c1 = unreachable_without(wm, final[0]['block'], {pf[0]['block']}, removed_edges=[(wm.pred(e_['block'])[0], e_['block']) for e_ in early if wm.pred(e_['block'])] if False else ())
            c1 = all(unreachable_without(wm, x['block'], {pf[0]['block']}) for x in final)
            # (ii) error flag: a reject guard is_some(flag) covering the final Ok, flag set to Some on every path through the Err arm
            flag = [g for g in gs if g.kind == 'reject' and g.pred[0] == 'is_some' and strip(g.pred[1])[0] == 'var' and covers_all_paths(wm, g, exits=final)]
            c2 = False
            if flag and err_t:
                fv = strip(flag[0].pred[1])[1]
                somes = [bi for (bi, si, kind, payload, span) in wm.defs().get(fv, []) if wm.expr_of_def((bi, si, kind, payload, span))[0] == 'agg' and wm.expr_of_def((bi, si, kind, payload, span))[1].endswith('Option::Some')]
                nones = [bi for (bi, si, kind, payload, span) in wm.defs().get(fv, []) if wm.expr_of_def((bi, si, kind, payload, span))[1:2] and str(wm.expr_of_def((bi, si, kind, payload, span))[1]).endswith('Option::None')]
                c2 = bool(somes) and all(unreachable_without(wm, flag[0].block, set(somes), src=t) for t in err_t) and all(not (set(somes) & wm.reach(t)) or True for t in ok_t)
                # no reset to None after the Err arm
                c2 = c2 and not any(any(n in wm.reach(s_) for s_ in somes) for n in nones)
            # direct form: the Err arm returns Err itself
            c3 = bool(err_t) and all(wm.exit_kinds_from(t) <= {'err_own', 'err_prop', 'diverge'} for t in err_t)
            okg = c1 and (c2 or c3)
            det = 'parse on every path: %s; Err arm ends in Err (flag %s / direct %s)' % (c1, c2, c3)
    helper_pf = None
    if not pf and len(oks) >= 1:
        # the parse may live in a helper called by write_module: the helper reports failure through an Option component of its
        # result (Some exactly on the Err arm), and write_module must turn Some into Err on every path to its Ok
        for hc in wm.calls(lambda r: r['path'] in P.fns and P.fns[r['path']].kind != 'Closure'):
            H = P.fns[hc['path']]
            hpf = [c for c in H.calls(lambda r: r['path'] == 'syn::parse_file')]
            if len(hpf) != 1:
                continue
            helper_pf = (H, hc, hpf[0])
            final = [x for x in oks if x not in early]
            pe = H.expr_of_call(hpf[0]['term'])
            sw = [s_ for s_ in H.switches() if s_['cond'][0] == 'discr' and s_['cond'][1] == pe]
            if len(sw) != 1 or not final:
                break
            err_t = [tgt for lab, tgt in sw[0]['edges'] if lab == 'Err']
            ok_t = [tgt for lab, tgt in sw[0]['edges'] if lab == 'Ok']
            sides = {'err': [], 'ok': [], 'other': []}
            for x in H.exits():
                side = 'err' if any(H.dominates(t, x['block']) for t in err_t) else 'ok' if any(H.dominates(t, x['block']) for t in ok_t) else 'other'
                sides[side] += split_values(H, x['expr'])
            comp = None
            if sides['err'] and sides['ok'] and not sides['other'] and all(v[0] == 'tuple' for v in sides['err'] + sides['ok']):
                n_ = len(sides['err'][0][1])
                for i_ in range(n_):
                    if all(len(v[1]) == n_ and v[1][i_][0] == 'agg' and v[1][i_][1].endswith('Option::Some') for v in sides['err']) and \
                            all(len(v[1]) == n_ and v[1][i_][0] == 'agg' and v[1][i_][1].endswith('Option::None') for v in sides['ok']):
                        comp = i_
            c1h = all(unreachable_without(H, x['block'], {hpf[0]['block']}) for x in H.exits())
            c1 = all(unreachable_without(wm, x['block'], {hc['block']}) for x in final)
            he = wm.expr_of_call(hc['term'])
            flag = []
            for g in gs:
                if g.kind == 'reject' and g.pred[0] == 'is_some' and comp is not None and covers_all_paths(wm, g, exits=final):
                    for fe in (simplify(strip(g.pred[1])), simplify(strip(expand(wm, g.pred[1])))):
                        if fe[0] == 'field' and fe[2] == str(comp) and strip(fe[1])[0] == 'call' and strip(fe[1])[1] == H.id and g not in flag:
                            flag.append(g)
            okg = bool(c1h and c1 and comp is not None and flag)
            det = 'parse in helper %s on all its paths: %s; helper called on every path to Ok: %s; failure component %s; turned into Err by write_module: %s' % (short(H.id), c1h, c1, comp, bool(flag))
            break
    ctx.ob(['C13', 'C12'], 'R-DOM', 'C13-D1|parse-gate', okg, 'write_module returns Ok only if syn::parse_file accepted the complete text that is written: %s' % det, where)
    # what is printed is the parsed file as it was parsed: nothing edits the syntax tree between parse_file and unparse
    # (the user's prologue and epilogue are part of that tree; an edit "tidying" generated items also reaches their text)
    un = []
    for g_ in [x for x in P.fns.values() if x.id.startswith('backends::') and not x.raw.get('derived')]:
        for c in g_.calls(lambda r: (r['path'] or '').endswith('prettyplease::unparse')):
            a0 = c['term']['args'][0]
            e0 = strip(g_.expr_of_operand(a0))
            roots = set()
            for x in walk(expand(g_, e0)):
                if isinstance(x, tuple) and x and x[0] == 'call' and x[1] == 'syn::parse_file':
                    roots.add('parse_file')
            locs_ = {x[1] for x in walk(e0) if isinstance(x, tuple) and x and x[0] == 'var' and isinstance(x[1], int) and 'syn::File' in g_.local_ty(x[1])}
            # the locals that hold the file: the named binding and the temporaries it was moved through
            edits = []
            for bi in g_.normal_blocks():
                for st in g_.raw['blocks'][bi]['stmts']:
                    if st['k'] != 'Assign':
                        continue
                    rv = st['rv']
                    if rv['k'] in ('Ref', 'RawPtr') and rv.get('mutbl') and 'syn::File' in g_.local_ty(rv['place']['local']) and not g_.local_ty(rv['place']['local']).startswith('&'):
                        edits.append(loc(st['span']))
                    if st['place']['proj'] and 'syn::File' in g_.local_ty(st['place']['local']) and any(p_.get('k') == 'Field' for p_ in st['place']['proj']) and \
                            not any(p_.get('k') == 'Downcast' for p_ in st['place']['proj']):
                        edits.append(loc(st['span']))
            un.append((bool(roots), not edits, short(g_.id), edits[:2]))
    ctx.ob(['C14', 'C13'], 'R-EXPR', 'C14-D5|printed-tree-is-the-parsed-tree', bool(un) and all(a_ and b_ for a_, b_, _, _ in un) if un else True,
           'prettyplease::unparse receives the syn::File that parse_file returned, not edited in between (%d site(s): %s)' % (len(un), [(n_, e_) for _, _, n_, e_ in un]), where, nontrivial=bool(un))
    # what is written to the file is the assembled buffer itself or its pretty-printed form, nothing else
    if fw:
        def text_sources(e, d=0):
            e = strip(e)
            if d > 8:
                return ['?']
            if e[0] == 'call' and e[2] and re.search(r'(Deref>::deref|::as_str|::as_ref|::borrow|::as_bytes|::into_bytes|::clone|convert::Into<.*>>::into|convert::From<.*>>::from)$', e[1]):
                return text_sources(e[2][0], d + 1)
            if e[0] == 'call' and e[1].endswith('prettyplease::unparse'):
                return ['unparse']
            if e[0] == 'call' and e[1] in P.fns and not P.fns[e[1]].id.startswith('backends::rust::write_module') and d < 3:
                H_ = P.fns[e[1]]
                # the formatting helper of the split form: its result components are the printed text / the buffer it was given
                return sorted({t_ for x in H_.exits() for v_ in split_values(H_, x['expr']) for t_ in (text_sources(v_[1][0], d + 1) if v_[0] == 'tuple' and v_[1] else text_sources(v_, d + 1))})
            if e[0] == 'field' and e[2] in ('0', '1') and strip(e[1])[0] == 'call':
                return text_sources(e[1], d + 1)
            if e[0] in ('var', 'arg'):
                ty_ = (wm.local_ty(e[1]) if e[0] == 'var' else '')
                if e[0] == 'arg':
                    return ['buffer']
                ds = wm.init_of(e[1])
                if ty_ == 'std::string::String' and any(is_call(strip(d_), 'String::new') for d_ in ds) and len(ds) == 1:
                    return ['buffer']
                out_ = []
                for d_ in ds:
                    if strip(d_) == e:
                        return ['?']
                    out_ += text_sources(d_, d + 1)
                return out_ or ['?']
            return [show(e)[:60]]
        srcs_ = text_sources(wm.expr_of_operand(fw[0]['term']['args'][1]))
        ctx.ob(['C14', 'C13'], 'R-EXPR', 'C14-D5|written-text-is-the-buffer', bool(srcs_) and set(srcs_) <= {'buffer', 'unparse'},
               'the content handed to fs::write is the assembled buffer or prettyplease::unparse of its parse: %s' % sorted(set(srcs_)), where)
    # the text parsed is the text assembled
    okt = False
    if not pf and helper_pf and fw:
        H, hc, hp_ = helper_pf
        parsed = strip(H.expr_of_operand(hp_['term']['args'][0]))
        while is_call(parsed, 'deref') or is_call(parsed, 'as_str'):
            parsed = strip(parsed[2][0])
        if parsed[0] == 'arg':
            parsed = strip(wm.expr_of_operand(hc['term']['args'][parsed[1] - 1]))
            okt = parsed[0] == 'var' and wm.local_ty(parsed[1]) == 'std::string::String'
            ctx.RAW = parsed
            pf = [hc]      # for the ordering rules below: the helper call is where the buffer is parsed
    elif pf and fw:
        parsed = strip(wm.expr_of_operand(pf[0]['term']['args'][0]))
        while is_call(parsed, 'deref') or is_call(parsed, 'as_str'):
            parsed = strip(parsed[2][0])
        okt = parsed[0] == 'var' and wm.local_ty(parsed[1]) == 'std::string::String'
        ctx.RAW = parsed
    ctx.ob(['C13'], 'R-EXPR', 'C13-D1|parses-the-buffer', okt, 'the text handed to syn::parse_file is the assembled output buffer', where)
    # ---- C14-D5 buffer order
    raw = getattr(ctx, 'RAW', None)
    if raw is None:
        ctx.fail_closed(['C14'], 'R-TMPL', 'C14-D5', 'output buffer not identified', where)
        return
    writes = []
    for c in wm.calls(lambda r: r['gpath'] and r['gpath'].endswith('fmt::Write::write_fmt')):
        tgt = strip(wm.expr_of_operand(c['term']['args'][0]))
        if tgt == raw:
            a = wm.expr_of_operand(c['term']['args'][1])
            writes.append((c, a))
    # `buf.push_str(PIECE); buf.push('\n');` is `writeln!(buf, "{}", PIECE)`: the piece, terminated when the next thing done to the
    # buffer (in the same straight line) is the push of a newline
    pushes_nl = [c for c in wm.calls(lambda r: r['path'] and r['path'].endswith('String::push')) if strip(wm.expr_of_operand(c['term']['args'][0])) == raw and
                 strip(wm.expr_of_operand(c['term']['args'][1]))[:2] == ('int', 10)]
    for c in wm.calls(lambda r: r['path'] and r['path'].endswith('String::push_str')):
        if strip(wm.expr_of_operand(c['term']['args'][0])) != raw:
            continue
        piece = strip(expand(wm, wm.expr_of_operand(c['term']['args'][1])))
        term = any(wm.dominates(c['block'], n_['block']) and n_['block'] in wm.reach(c['block']) and not any(
            o_['block'] not in (c['block'], n_['block']) and wm.dominates(c['block'], o_['block']) and wm.dominates(o_['block'], n_['block'])
            for o_ in [w_ for w_, _ in writes] + [x_ for x_ in wm.calls(lambda r: r['path'] and re.search(r'String::(push_str|push)$', r['path']))]) for n_ in pushes_nl)
        if piece[0] == 'str':
            piece = ('str', piece[1] + ('\n' if term else ''))
        writes.append((c, piece))

    def deep_fields(e, d=0):
        out = set()
        for x in walk(e):
            if not isinstance(x, tuple):
                continue
            if x[0] == 'field':
                out.add(x[2])
            if x[0] == 'closure' and x[1] in P.fns and d < 4:
                for y in [P.fns[x[1]]]:
                    for e_ in y.exits():
                        out |= deep_fields(expand(y, e_['expr']), d + 1)
            if x[0] == 'var':
                for dd in wm.init_of(x[1]):
                    if d < 4:
                        out |= deep_fields(expand(wm, dd), d + 1)
                lb_ = loop_built(wm, x[1]) if d < 4 else None
                if lb_:
                    out |= deep_fields(expand(wm, lb_['elem']), d + 1) | deep_fields(expand(wm, lb_['source']), d + 1)
        return out

    def what(a):
        if find_calls(a, 'build_item'):
            return 'item'
        if find_calls(a, 'build_extern_value'):
            return 'extern'
        if find_calls(a, 'doc_to_tokens'):
            return 'doc'
        fl = deep_fields(a)
        if 'prologue' in fl and 'epilogue' not in fl:
            return 'prologue'
        if 'epilogue' in fl and 'prologue' not in fl:
            return 'epilogue'
        for x in walk(a):
            if isinstance(x, tuple) and x[0] in ('const', 'str') and 'allow' in str(x[1]):
                return 'header'
            if isinstance(x, tuple) and x[0] in ('const', 'str') and 'rustfmt' in str(x[1]):
                return 'rustfmt'
        return 'other'
    # every segment appended to the buffer ends its line (otherwise a prologue that ends in a `//` comment swallows what follows)
    def ends_with_newline(a):
        for x in walk(a):
            if isinstance(x, tuple) and x[0] == 'str':
                return x[1].endswith('\n')
            if isinstance(x, tuple) and x[0] == 'const' and str(x[1]).startswith('b"'):
                return bool(re.search(r'\\n(\\x00)?"$', x[1]))
        return False
    nl = [(loc(c['span']), ends_with_newline(a)) for c, a in writes]
    ctx.ob(['C14'], 'R-TMPL', 'C14-D5|segments-newline-terminated', bool(nl) and all(v for _, v in nl),
           'every piece appended to the output buffer (header lines, docs, prologues, each item, each accessor, epilogues) is terminated by a newline: %s' % [l for l, v in nl if not v], where)
    seq = [(what(a), c) for c, a in writes]
    kinds = [k for k, _ in seq]
    want = ['header', 'rustfmt', 'doc', 'prologue', 'item', 'extern', 'epilogue']
    ok_set = sorted(kinds) == sorted(want)
    ok_ord = ok_set
    if ok_set:
        by = {k: c for k, c in seq}
        for a, b in zip(want, want[1:]):
            A, B = by[a]['block'], by[b]['block']
            # a precedes b: b reachable from a, and a not reachable from b except through its own loop
            La, Lb_ = innermost_loop(wm, A), innermost_loop(wm, B)
            fwd = B in wm.reach(A)
            back = A in wm.reach(B)
            if not fwd or back:
                ok_ord = False
        # and everything precedes the parse
        ok_ord = ok_ord and pf and all(pf[0]['block'] in wm.reach(c['block']) and c['block'] not in wm.reach(pf[0]['block']) for _, c in seq)
    ctx.ob(['C14', 'C17'], 'R-TMPL', 'C14-D5|buffer-order', bool(ok_ord), 'the buffer is assembled as header, rustfmt guard, module doc, prologues, items, extern accessors, epilogues, then parsed: %s' % kinds, where)
    # items loop: over the sorted definitions, every iteration, error propagated
    if ok_set:
        by = {k: c for k, c in seq}
        for k, src_frag in (('item', 'Module::definitions'), ('extern', 'extern_values')):
            c = by[k]
            L = innermost_loop(wm, c['block'])
            okL = False
            if L:
                sty, src = loop_source(wm, L)
                e = expand(wm, src)
                okL = not cycle_without(wm, L[1], L[0], {c['block']}) and (bool(find_calls(e, src_frag)) or src_frag in fields_in(e) or any(src_frag in fields_in(expand(wm, d)) for x in walk(src) if isinstance(x, tuple) and x[0] == 'var' for d in wm.init_of(x[1])))
                flt = [c_ for c_ in calls_in(e) if re.search(r'Iterator::filter$', c_[3])]
                defined_only = False
                if k == 'item' and len(flt) == 1 and len(flt[0][2]) == 2:
                    # the only admissible filter: exactly the items that have a Rust definition (`category() == Defined`), i.e. the very
                    # items for which build_item would otherwise return nothing
                    pf_ = predicate_fn(P, flt[0][2][1])
                    if pf_ is not None and len(pf_.exits()) == 1 and not pf_.switches():
                        x_ = strip(expand(pf_, pf_.exits()[0]['expr']))
                        if x_[0] == 'call' and re.search(r'::eq$', x_[1]) and len(x_[2]) == 2:
                            a_, b_ = strip(x_[2][0]), strip(x_[2][1])
                            if b_[0] == 'call' or (b_[0] == 'var'):
                                a_, b_ = b_, a_
                            lit_ = strip(expand(pf_, b_))
                            if lit_[0] == 'const' or lit_[0] == 'promoted':
                                lit_ = strip(pf_.prog.const_value(lit_)) if hasattr(pf_.prog, 'const_value') else lit_
                            defined_only = is_call(strip(expand(pf_, a_)), 'ItemDefinition::category') and lit_[0] == 'agg' and lit_[1].endswith('ItemCategory::Defined')
                ctx.items_defined_only = getattr(ctx, 'items_defined_only', False) or defined_only
                okL = okL and not any(re.search(r'Iterator::(skip|take|filter|step_by|rev)$', c_[3]) for c_ in calls_in(e) if 'write_module' in wm.id and not (defined_only and c_ is flt[0]))
            ctx.ob(['C14', 'C15'] if k != 'item' else ['C14'], 'R-ITER', 'C14-D5|all-%ss-written' % k, okL, 'every %s of the module is appended to the buffer (one write per iteration, unfiltered)' % ('definition' if k == 'item' else 'extern value'), loc(c['span']))
    # prologue / epilogue source: backends.get("rust"), flattened in order
    okb = False
    getc = [c for c in wm.calls(lambda r: r['path'] and re.search(MAPM('get'), r['path']))]
    for c in getc:
        e = wm.expr_of_call(c['term'])
        if any(isinstance(x, tuple) and x[0] == 'field' and x[2] == 'backends' for x in walk(e[2][0])) and ('str', 'rust') in list(walk(e[2][1])):
            okb = True
    n_get = len([c for c in getc if any(isinstance(x, tuple) and x[0] == 'field' and x[2] == 'backends' for x in walk(wm.expr_of_call(c['term'])[2][0]))])
    iters = [c for c in wm.calls(lambda r: r['path'] and re.search(MAPM('iter|values|keys|into_iter'), r['path']))]
    ctx.ob(['C14'], 'R-EXPR', 'C14-D5|rust-backend-only', okb and n_get == 1 and not iters, 'prologues and epilogues are taken from backends["rust"] only (one keyed lookup with the literal "rust", the map is never iterated)', where)
    BAD_SEQ = r'Iterator::(rev|skip|take|filter|step_by|last|nth|max|min|skip_while|take_while|max_by\w*|min_by\w*)$|::sort|::dedup|::reverse|::truncate|::swap|::retain'

    def section_closure_ok(pc, nm):
        """the per-backend projection: the backend's own `prologue` / `epilogue` Option (seen through reference adapters)"""
        pf = P.fns.get(pc[1]) if pc and pc[0] in ('closure', 'fnref') else None
        if pf is None or pf.switches():
            return False
        ex_ = [strip(expand(pf, x['expr'])) for x in pf.exits()]
        if len(ex_) != 1:
            return False
        x = ex_[0]
        while x[0] == 'call' and x[2] and re.search(r'(Option::<T>::(as_ref|as_deref)|::as_deref|::as_ref|::deref|::into_iter|Option::<T>::iter|::as_str|::borrow)$', x[1]):
            x = strip(x[2][0])
        return x[0] == 'field' and x[2] == nm and strip(x[1])[0] in ('arg', 'field', 'payload')

    ADAPT_BAD = r'Iterator::(rev|skip|take|filter|step_by|last|nth|max|min|map_while|scan|take_while|skip_while|fuse|cycle)$'

    def chain_ok(j):
        """an iterator chain that keeps every section of every backend in order: flat_map present, no dropping / reordering adapter
        in the chain or in its closures"""
        chain = [c_[3] for c_ in calls_in(j)]
        inner_ok = True
        for x in walk(j):
            if isinstance(x, tuple) and x[0] == 'closure' and x[1] in P.fns:
                for y in [P.fns[x[1]]] + P.closures_of(P.fns[x[1]]):
                    for e_ in y.exits():
                        ch2 = [c_[3] for c_ in calls_in(expand(y, e_['expr']))]
                        if any(re.search(ADAPT_BAD, c_) for c_ in ch2):
                            inner_ok = False
        ok_ = inner_ok and not any(re.search(ADAPT_BAD + r'|::sort|::dedup', c_) for c_ in chain) and any(c_.endswith('Iterator::flat_map') for c_ in chain)
        return ok_, [short(c_) for c_ in chain]

    def joined_in_helper(e, nm):
        """join written as a helper: H(backends, |b| b.<nm>.as_deref()) where H pushes section(b) for every backend that has one,
        in order, and joins with a newline.  Returns (ok, detail) or None if `e` is not such a call"""
        e = strip(e)
        if not (e[0] == 'call' and e[1] in P.fns):
            return None
        H = P.fns[e[1]]
        ex_ = [strip(x['expr']) for x in H.exits()]
        if len(ex_) != 1:
            return False, 'helper %s has several exits' % short(H.id)
        j = ex_[0]
        if j[0] == 'var':
            sj = string_join_loop(H, j[1])
            if sj:
                # separator-before-every-element-but-the-first loop over SRC: SRC must be backends.iter().filter_map(section)
                src = strip(sj['source'])
                sepok = strip(sj['sep']) == ('int', 10, 'char')
                unad = is_call(src, 'Iterator::filter_map') and is_call(strip(src[2][0]), 'slice::<impl [T]>::iter') and strip(strip(src[2][0])[2][0])[0] == 'arg' and strip(src[2][1])[0] == 'arg'
                textok = strip(sj['elem'])[0] == 'field' and strip(sj['elem'])[2] == '1'
                if sepok and textok and src[0] == 'arg':
                    # the helper joins whatever iterator it is handed: the caller's chain is the joined sequence
                    okc, detc = chain_ok(expand(wm, e[2][src[1] - 1]))
                    return okc, 'helper %s (separator loop over its iterator argument; caller chain %s)' % (short(H.id), detc)
                if not (sepok and unad and textok):
                    return False, 'helper %s: separator loop of unexpected shape (sep %s, source %s)' % (short(H.id), show(sj['sep']), show(src)[:80])
                ib = strip(strip(src[2][0])[2][0])[1] - 1
                isec = strip(src[2][1])[1] - 1
                base = expand(wm, e[2][ib])
                okbase = any(re.search(MAPM('get'), c_[1]) and ('str', 'rust') in list(walk(c_)) and any(isinstance(y, tuple) and y[0] == 'field' and y[2] == 'backends' for y in walk(c_)) for c_ in calls_in(base)) and \
                    not any(re.search(BAD_SEQ, c_[3]) for c_ in calls_in(base))
                oksec = section_closure_ok(strip(e[2][isec]), nm)
                return (okbase and oksec), 'helper %s (separator loop; backends[rust] whole list: %s, section = backend.%s: %s)' % (short(H.id), okbase, nm, oksec)
        if not (j[0] == 'call' and j[1].endswith('::join') and len(j[2]) == 2 and ('str', '\n') in list(walk(j[2][1]))):
            return False, 'helper %s does not join with a newline' % short(H.id)
        v = strip(j[2][0])
        while v[0] == 'call' and v[2] and re.search(r'(::deref|::as_slice|::as_ref)$', v[1]):
            v = strip(v[2][0])
        lb = loop_built(H, v[1]) if v[0] == 'var' else None
        if not lb:
            return False, 'helper %s: joined vector is not built by a single push loop' % short(H.id)
        src = strip(lb['source'])
        unad = is_call(src, 'slice::<impl [T]>::iter') and strip(src[2][0])[0] == 'arg'
        if not unad and is_call(src, 'Iterator::flatten') and src[2]:
            # `for b in backends.into_iter().flatten()` over an Option<&Vec<Backend>> parameter: every backend of the list, or none
            s2 = strip(src[2][0])
            while s2[0] == 'call' and s2[2] and re.search(r'IntoIterator::into_iter$|Option::<T>::into_iter$|Option::<T>::iter$', s2[3] if len(s2) > 3 else s2[1]):
                s2 = strip(s2[2][0])
            if s2[0] == 'arg' and H.local_ty(s2[1]).startswith('std::option::Option<&'):
                unad = True
                src = ('call', 'core::slice::<impl [T]>::iter', [s2], 'core::slice::<impl [T]>::iter', '')
        elem = strip(lb['elem'])
        # elem = payload Some of section(backend) ; skipped exactly when section(backend) is None
        call_ = elem[1] if elem[0] == 'payload' and elem[2] == 'Some' else None
        okcall = call_ is not None and is_call(strip(call_), 'Fn::call') and strip(strip(call_)[2][0])[0] == 'arg' and \
            any(isinstance(y, tuple) and y[0] == 'payload' and y[2] == 'Some' and is_call(strip(y[1]), 'Iterator::next') for y in walk(strip(call_)[2][1]))
        skips = loop_skip_paths(H, lb) if lb['filtered'] else []
        okskip = (not lb['filtered']) or (len(skips) == 1 and len(skips[0]) == 1 and skips[0][0][1] == 'None' and skips[0][0][0][0] == 'discr' and call_ is not None and strip(skips[0][0][0][1]) == strip(call_))
        if not (unad and okcall and okskip):
            return False, 'helper %s: loop over the whole slice %s, pushes section(b) %s, skips only when it is None %s' % (short(H.id), unad, okcall, okskip)
        ib = strip(src[2][0])[1] - 1
        isec = strip(strip(call_)[2][0])[1] - 1
        base = expand(wm, e[2][ib])
        okbase = any(re.search(MAPM('get'), c_[1]) and ('str', 'rust') in list(walk(c_)) and any(isinstance(y, tuple) and y[0] == 'field' and y[2] == 'backends' for y in walk(c_)) for c_ in calls_in(base)) and \
            not any(re.search(BAD_SEQ, c_[3]) for c_ in calls_in(base))
        for y in walk(base):
            if isinstance(y, tuple) and y[0] == 'closure' and y[1] in P.fns:
                for ex2 in P.fns[y[1]].exits():
                    okbase = okbase and not any(re.search(BAD_SEQ, c_[3]) for c_ in calls_in(expand(P.fns[y[1]], ex2['expr'])))
        oksec = section_closure_ok(strip(e[2][isec]), nm)
        return (okbase and oksec), 'helper %s(backends[rust] whole list: %s, section = backend.%s: %s)' % (short(H.id), okbase, nm, oksec)

    for nm in ('prologue', 'epilogue'):
        vs = [a for k, a in [(what(a), a) for c, a in writes] if k == nm]
        ok = False
        det = ''
        if vs:
            cands = [vs[0]] + [expand(wm, d) for x in walk(vs[0]) if isinstance(x, tuple) and x[0] == 'var' for d in wm.init_of(x[1])]
            raws = [vs[0]] + [d for x in walk(vs[0]) if isinstance(x, tuple) and x[0] == 'var' for d in wm.init_of(x[1])]
            for e, e_raw in zip(cands, raws):
                e = expand(wm, e)
                hj = None
                for y in walk(e):
                    if isinstance(y, tuple) and y and y[0] == 'call' and y[1] in P.fns and P.fns[y[1]].raw.get('output', '') == 'std::string::String':
                        hj = hj or joined_in_helper(y, nm)
                joins_ = [c_ for c_ in calls_in(e) if c_[1].endswith('::join') and c_[1] not in P.fns]
                if hj is not None and not joins_:
                    ok, det = hj
                    break
                lbj = None
                joins_raw = [c_ for c_ in calls_in(e_raw) if c_[1].endswith('::join') and c_[1] not in P.fns]
                if joins_raw:
                    v_ = strip(joins_raw[0][2][0])
                    while v_[0] == 'call' and v_[2] and re.search(r'(::deref|::as_slice|::as_ref)$', v_[1]):
                        v_ = strip(v_[2][0])
                    lbj = loop_built(wm, v_[1]) if v_[0] == 'var' else None
                if lbj is not None:
                    # join of a vector filled in a loop over the backend list: every backend that has the section pushes it, in order
                    src_ = strip(expand(wm, lbj['source']))
                    base_ok = is_call(src_, 'slice::<impl [T]>::iter') and any(re.search(MAPM('get'), c_[1]) and ('str', 'rust') in list(walk(c_)) and
                                                                                 any(isinstance(y, tuple) and y[0] == 'field' and y[2] == 'backends' for y in walk(c_)) for c_ in calls_in(src_)) and \
                        not any(re.search(BAD_SEQ, c_[3]) for c_ in calls_in(src_))
                    el_ = strip(expand(wm, lbj['elem']))
                    while el_[0] == 'call' and el_[2] and re.search(r'(::as_str|::deref|::as_ref|::borrow)$', el_[1]):
                        el_ = strip(el_[2][0])
                    sec_ = el_[1] if el_[0] == 'payload' and el_[2] == 'Some' else None
                    sec_ok = sec_ is not None and strip(sec_)[0] == 'field' and strip(sec_)[2] == nm and any(
                        isinstance(y, tuple) and y[0] == 'payload' and y[2] == 'Some' and is_call(strip(y[1]), 'Iterator::next') for y in walk(sec_))
                    skips_ = loop_skip_paths(wm, lbj) if lbj['filtered'] else []
                    # the only way round the push: this backend has no such section (tests on the *other* section do not skip this one)
                    own_skips = [p_ for p_ in skips_ if any(c_[0] == 'discr' and sec_ is not None and strip(c_[1]) == strip(sec_) and lab == 'None' for c_, lab in p_)]
                    other_skips = [p_ for p_ in skips_ if p_ not in own_skips]
                    skip_ok = all(all((c_[0] == 'discr' and strip(c_[1])[0] == 'field' and strip(c_[1])[2] in ('prologue', 'epilogue')) for c_, lab in p_) for p_ in skips_) and not other_skips
                    sep_ok = ('str', '\n') in list(walk(joins_[0][2][1]))
                    ok = bool(base_ok and sec_ok and skip_ok and sep_ok)
                    det = 'join of a vector pushed in a loop over backends["rust"] (whole list %s, pushes backend.%s %s, skipped only when absent %s)' % (base_ok, nm, sec_ok, skip_ok)
                    break
                if joins_:
                    ok, det = chain_ok(joins_[0])
        ctx.ob(['C14'], 'R-ITER', 'C14-D5|%ss-complete-in-order' % nm, ok, 'all %ss of all rust backend blocks are joined in source order, none dropped: %s' % (nm, det), where)
    module_new(ctx)
    add_file_key(ctx)
    # ---- G13 extern value without address (C15-D2)
    am = [f for f in P.fns.values() if f.id.endswith('SemanticState::add_module')]
    if am:
        item_registration(ctx, am[0])
    if am:
        cl = [am[0]] + P.closures_of(am[0])
        # the per-value conversion may be a function of its own, called from add_module (directly or from its closures)
        for g_ in list(cl):
            for w in P.callees(g_.id, kinds=('call', 'fnref')):
                h_ = P.fns.get(w)
                if h_ is not None and h_ not in cl and not h_.raw.get('derived') and 'ExternValue' in h_.raw.get('output', '') and 'grammar::ExternValue' in ' '.join(h_.raw.get('inputs', [])):
                    cl += [h_] + P.closures_of(h_)
        ok = False
        from r_panic import agg_sites
        sites = [(f, bi, st) for (f, bi, st) in agg_sites(P, r'semantic::types::ExternValue$') if f in cl]
        nsites = len(sites)
        for f, bi, st in sites:
            ev = dict(f.expr_of_rvalue(st['rv'])[2])
            a = ev['address']
            wc = [y for y in walk(a) if is_call(y, 'with_context') or is_call(y, 'ok_or')]
            src_ = None
            if strip(a)[0] == 'try' and wc:
                src_ = strip(wc[0][2][0])
            elif strip(a)[0] == 'payload' and strip(a)[2] == 'Some' and strip(strip(a)[1])[0] == 'var':
                # `let Some(address) = address else { bail!(..) }`: the None case must end in Err
                cand = strip(strip(a)[1])
                if any(g.kind == 'reject' and g.kinds <= {'err_own'} and g.pred[0] == 'is_none' and strip(g.pred[1]) == cand for g in guards_of(f)):
                    src_ = cand
            # the Option that is tested is this extern value's own: a local that starts as None for every value and is only
            # ever set from the `address` literal (state must not leak between values)
            own = False
            if src_ is not None and src_[0] == 'var':
                dfs = f.defs().get(src_[1], [])
                ds = f.init_of(src_[1])
                own = any(d[0] == 'agg' and d[1].endswith('Option::None') for d in ds) and any(
                    any(isinstance(y, tuple) and y[0] == 'payload' and y[2] == 'IntLiteral' for y in walk(d)) for d in ds) and len(ds) == 2
                L_ = innermost_loop(f, bi)
                # built inside a loop over the values: the None must be (re)assigned in every trip before the attribute scan
                outer = [L2 for L2 in f.loops() if bi in L2[1]]
                if own and outer:
                    big = max(outer, key=lambda L2: len(L2[1]))
                    none_blocks = [d_[0] for d_ in dfs if strip(f.expr_of_def(d_))[0] == 'agg' and strip(f.expr_of_def(d_))[1].endswith('Option::None')]
                    own = all(nb in big[1] and f.dominates(nb, bi) for nb in none_blocks)
            fl = lambda e, n: any(isinstance(y, tuple) and y[0] == 'field' and y[2] == n for y in walk(e))
            this = src_ is not None and own and fl(ev['visibility'], 'visibility') and fl(ev['name'], 'name') and ev['type_'][0] == 'agg' and ev['type_'][1].endswith('Type::Unresolved') and fl(ev['type_'], 'type_')
            strs = [op.get('str') for bi2 in f.normal_blocks() for op in f.block_operands(bi2) if op.get('k') == 'Const' and 'str' in op]
            ok = this and 'address' in strs and nsites == 1
        ctx.ob(['C15', 'C17'], 'R-GUARD', 'G13|extern-value-needs-address', ok,
               'an extern value takes its address from the `address` attribute, a missing one is an error; visibility, name and type come from the declaration itself', loc(am[0].span))
    # extern values resolved for every module, every value (C10/C15)
    rev = [f for f in P.fns.values() if f.id.endswith('Module::resolve_extern_values')]
    if rev:
        f = rev[0]
        L = f.loops()
        ok = False
        if len(L) == 1:
            sty, src = loop_source(f, L[0])
            ok = sty == "std::slice::IterMut<'_, semantic::types::ExternValue>" and any(g.kind == 'reject' and g.pred[0] in ('fails', 'is_none') and find_calls(g.pred, 'resolve_grammar_type') for g in guards_of(f))
        ctx.ob(['C10', 'C15'], 'R-ITER', 'REV|every-extern-value-resolved', ok, 'every extern value\'s type is resolved after all types; failure to resolve is an error', loc(f.span))


# appended: Module::new (backend blocks, doc) ------------------------------------------------------
def item_registration(ctx, am):
    """what add_module registers for the declarations of a module: every definition as an Unresolved, Defined item under
    <module path>::<its name> with its own visibility and its own (whole) definition; every extern type as a Resolved, Extern, public
    item under <module path>::<its name>"""
    P = ctx.prog
    regs = []
    for c in am.calls(lambda r: r['path'] and r['path'].endswith('SemanticState::add_item')):
        e = strip(ctor_norm(P, expand(am, am.expr_of_operand(c['term']['args'][1]))))
        if e[0] == 'agg' and e[1].endswith('ItemDefinition'):
            regs.append((c, dict(e[2])))
    defs_ = [(c, d) for c, d in regs if strip(d.get('state', ('x',)))[0] == 'agg' and strip(d['state'])[1].endswith('ItemState::Unresolved')]
    exts_ = [(c, d) for c, d in regs if strip(d.get('state', ('x',)))[0] == 'agg' and strip(d['state'])[1].endswith('ItemState::Resolved')]
    okd, detd = False, 'expected one registration of Unresolved definitions, found %d' % len(defs_)
    if len(defs_) == 1:
        c, d = defs_[0]
        elem = None
        for y in walk(strip(d['state'])):
            if isinstance(y, tuple) and y and y[0] == 'payload' and y[2] == 'Some' and is_call(strip(y[1]), 'Iterator::next'):
                elem = strip(y)
        st = strip(strip(d['state'])[2][0][1]) if strip(d['state'])[2] else ('x',)
        whole = elem is not None and st == elem           # clone(definition) of the loop element itself
        vis = strip(d.get('visibility', ('x',)))
        okv = elem is not None and vis == ('field', elem, 'visibility')
        pth = strip(d.get('path', ('x',)))
        okp = is_call(pth, 'ItemPath::join') and len(pth[2]) == 2 and strip(pth[2][0])[0] == 'arg' and elem is not None and \
            any(isinstance(y, tuple) and y and y[0] == 'field' and y[2] == 'name' and strip(y[1]) == elem for y in walk(pth[2][1]))
        cat = strip(d.get('category', ('x',)))
        okc = cat[0] == 'agg' and cat[1].endswith('ItemCategory::Defined')
        L = innermost_loop(am, c['block'])
        from r_panic import cycle_without
        every = bool(L) and not cycle_without(am, L[1], L[0], {c['block']})
        sty, src = loop_source(am, L) if L else (None, None)
        plain = sty is not None and re.match(r"^std::slice::Iter<'_, grammar::ItemDefinition>$", sty) is not None
        okd = bool(whole and okv and okp and okc and every and plain)
        detd = 'state %s visibility %s path %s category %s every %s over %s' % (whole, okv, okp, okc, every, sty)
    ctx.ob(['C14', 'C17', 'C11', 'C19'], 'R-SLP', 'AM|definition-registration', okd,
           'every definition of a module is registered as Unresolved(<the whole definition>), Defined, with its own visibility, under <module path>::<its name>: %s' % detd, loc(am.span))
    oke = len(exts_) == 1
    dete = 'expected one registration of extern types, found %d' % len(exts_)
    if oke:
        c, d = exts_[0]
        cat = strip(d.get('category', ('x',)))
        vis = strip(d.get('visibility', ('x',)))
        pth = strip(d.get('path', ('x',)))
        okp = is_call(pth, 'ItemPath::join') and len(pth[2]) == 2 and strip(pth[2][0])[0] == 'arg'
        oke = cat[0] == 'agg' and cat[1].endswith('ItemCategory::Extern') and vis[0] == 'agg' and vis[1].endswith('Visibility::Public') and okp
        dete = 'category %s visibility %s path %s' % (show(cat)[:30], show(vis)[:30], okp)
    # size and alignment of an extern type are the integers written in its attributes, converted and nothing else
    CONV = re.compile(r'(::with_context|::context|::ok_or|::ok_or_else|TryInto<.*>>::try_into|TryFrom<.*>>::try_from|convert::Into<.*>>::into|convert::From<.*>>::from|Deref>::deref|::clone|::copied|::cloned|::unwrap_or_default)$')

    def impure(e, d=0, seen_=()):
        e = strip(e)
        if d > 14:
            return ['(too deep)']
        if e[0] == 'try':
            return impure(e[1], d + 1, seen_)
        if e[0] == 'payload':
            return [] if e[2] == 'IntLiteral' else impure(e[1], d + 1, seen_) if e[2] in ('Some', 'Ok', 'Continue') else [show(e)[:50]]
        if e[0] == 'agg' and e[1].endswith('Option::None'):
            return []
        if e[0] == 'agg' and e[1].endswith('Option::Some'):
            return impure(e[2][0][1], d + 1, seen_)
        if e[0] == 'call' and e[2] and CONV.search(e[1]):
            return impure(e[2][0], d + 1, seen_)
        if e[0] == 'var' and isinstance(e[1], int) and e[1] not in seen_:
            out_ = []
            ds = [x for x in am.init_of(e[1]) if strip(x) != e]
            if not ds:
                return [show(e)[:40]]
            for x in ds:
                out_ += impure(x, d + 1, seen_ + (e[1],))
            return out_
        return [show(e)[:50]]
    if len(exts_) == 1:
        st_ = strip(exts_[0][1]['state'])
        res_ = strip(st_[2][0][1]) if st_[2] else ('x',)
        flds = dict(res_[2]) if res_[0] == 'agg' else {}
        bad_ = {k_: impure(expand(am, flds[k_])) if k_ in flds else ['(missing)'] for k_ in ('size', 'alignment')}
        ctx.ob(['C02', 'C01', 'C13'], 'R-SLP', 'AM|extern-type-size-align', not any(bad_.values()),
               'size and alignment registered for an extern type are the integer literals of its `size` / `align` attributes, only converted: %s' % {k_: v_[:2] for k_, v_ in bad_.items() if v_}, loc(am.span))
    # the module object stored is built from the path and the parsed module it was given, with all of its extern values, impl
    # blocks and backend blocks
    mn = [c for c in am.calls(lambda r: r['path'] and r['path'].endswith('Module::new'))]
    okm, detm = False, 'expected one Module::new call, found %d' % len(mn)
    if len(mn) == 1 and len(mn[0]['term']['args']) == 5:
        a_ = [strip(expand(am, am.expr_of_operand(x))) for x in mn[0]['term']['args']]
        def clone_of(e):
            e = strip(e)
            while e[0] == 'call' and e[2] and re.search(r'(::clone|Deref>::deref|::as_ref|::borrow|::as_slice)$', e[1]):
                e = strip(e[2][0])
            return e
        p0, p1 = clone_of(a_[0]), clone_of(a_[1])
        ev_ = a_[2]
        while ev_[0] == 'try' or (ev_[0] == 'call' and ev_[2] and re.search(r'(Iterator::collect|FromIterator<.*>>::from_iter)$', ev_[1])):
            ev_ = strip(ev_[1] if ev_[0] == 'try' else ev_[2][0])
        src_ = None
        if is_call(ev_, 'Iterator::map') and len(ev_[2]) == 2:
            src_ = clone_of(ev_[2][0])
            while src_[0] == 'call' and src_[2] and re.search(r'(slice::<impl \[T\]>::iter|IntoIterator>::into_iter|::iter)$', src_[1]):
                src_ = clone_of(src_[2][0])
        okev = src_ is not None and src_ == ('field', p1, 'extern_values')
        raw2 = strip(am.expr_of_operand(mn[0]['term']['args'][2]))
        if not okev and raw2[0] == 'var' and (is_call(ev_, 'Vec::new') or is_call(ev_, 'Vec::with_capacity') or is_call(ev_, 'Vec::<T>::new') or is_call(ev_, 'Vec::<T>::with_capacity')):
            # loop form: one push per entry of module.extern_values, on every trip that does not end in Err
            from r_panic import cycle_without
            pu = [c for c in am.calls(lambda r: r['path'] and re.search(r'Vec::<T, A>::push$', r['path'])) if strip(am.expr_of_operand(c['term']['args'][0])) == raw2]
            if len(pu) == 1:
                L = innermost_loop(am, pu[0]['block'])
                while L and 'grammar::Attribute>' in (loop_source(am, L)[0] or ''):
                    outer = [L2 for L2 in am.loops() if L[0] in L2[1] and L2[0] != L[0]]
                    L = min(outer, key=lambda l_: len(l_[1])) if outer else None
                sty, src2 = loop_source(am, L) if L else (None, None)
                s2 = clone_of(src2) if src2 else ('x',)
                while s2[0] == 'call' and s2[2] and re.search(r'(slice::<impl \[T\]>::iter|IntoIterator>::into_iter|::iter)$', s2[1]):
                    s2 = clone_of(s2[2][0])
                okev = bool(L) and sty is not None and re.match(r"^std::slice::Iter<'_, grammar::ExternValue>$", sty) is not None and s2 == ('field', p1, 'extern_values') \
                    and not cycle_without(am, L[1], L[0], {pu[0]['block']})
        oki = clone_of(a_[3]) == ('field', p1, 'impls')
        okb = clone_of(a_[4]) == ('field', p1, 'backends')
        okm = p0[0] == 'arg' and p0[1] == 3 and p1[0] == 'arg' and p1[1] == 2 and okev and oki and okb
        detm = 'path %s ast %s extern values %s impls %s backends %s' % (show(p0)[:20], show(p1)[:20], okev, oki, okb)
    ctx.ob(['C14', 'C19', 'C05', 'C15', 'C17'], 'R-SLP', 'AM|module-construction', okm,
           'the module stored is Module::new(<path given>, <parsed module given>, <one extern value per entry of its extern_values>, its impls, its backends): %s' % detm, loc(am.span))
    ctx.ob(['C14', 'C13', 'C17'], 'R-SLP', 'AM|extern-type-registration', oke,
           'an extern type is registered as a Resolved, Extern (never emitted), public item under <module path>::<its name>: %s' % dete, loc(am.span))


def add_file_key(ctx):
    """C14-D2 / C19: the module a file becomes is named by the file's own path relative to the input directory, nothing else"""
    P = ctx.prog
    f = P.fns.get('semantic::semantic_state::SemanticState::add_file')
    if f is None:
        ctx.fail_closed(['C14', 'C19'], 'R-EXPR', 'C14-D2|module-key', 'SemanticState::add_file not found')
        return
    cs = [c for c in f.calls(lambda r: r['path'] and r['path'].endswith('SemanticState::add_module'))]
    ok, det = False, 'expected one add_module call, found %d' % len(cs)
    if len(cs) == 1:
        e = f.expr_of_call(cs[0]['term'])
        key = strip(expand(f, e[2][2]))
        is_arg = lambda x, i: strip(x)[0] == 'arg' and strip(x)[1] == i
        # parameters: 1 = self, 2 = base_path, 3 = path
        def rel_ok(x):
            x = strip(x)
            if is_call(x, 'Result::<T, E>::unwrap_or') or is_call(x, 'unwrap_or'):
                sp = strip(x[2][0])
                return is_call(sp, 'Path::strip_prefix') and is_arg(sp[2][0], 3) and is_arg(sp[2][1], 2) and is_arg(x[2][1], 3)
            return False
        if is_call(key, 'ItemPath::from_path') and len(key[2]) == 1:
            inner = key[2][0]
            rows = value_table(f, inner)
            if len(rows) == 1:
                ok = rel_ok(rows[0][1])
            else:
                # match / if-let spelling: Ok(p) -> p, Err -> path
                vals = [strip(v) for _, v in rows]
                okv = all((v[0] == 'payload' and v[2] == 'Ok' and is_call(strip(v[1]), 'Path::strip_prefix') and is_arg(strip(v[1])[2][0], 3) and is_arg(strip(v[1])[2][1], 2)) or is_arg(v, 3) for v in vals)
                ok = okv and any(v[0] == 'payload' for v in vals) and len(rows) == 2
            det = show(key)[:160]
        else:
            det = 'module key is not ItemPath::from_path(..): %s' % show(key)[:120]
        # the text parsed is the content of that same file
        rd = [c for c in f.calls(lambda r: r['path'] and r['path'].endswith('fs::read_to_string'))]
        okr = len(rd) == 1 and any(isinstance(x, tuple) and x[0] == 'arg' and x[1] == 3 for x in walk(f.expr_of_call(rd[0]['term'])[2][0])) and \
            any(is_call(x, 'read_to_string') for x in walk(expand(f, e[2][1])))
        ok = bool(ok and okr)
        det += '; parsed text = content of the same file: %s' % okr
    ctx.ob(['C14', 'C19', 'C09', 'C11'], 'R-EXPR', 'C14-D2|module-key', ok,
           'add_file names the module by the file\'s whole path relative to the input directory (strip_prefix(path, base) or the path itself) and parses that file\'s text: %s' % det, loc(f.span))


def module_new(ctx):
    P = ctx.prog
    mn = [f for f in P.fns.values() if f.id.endswith('module::Module::new')]
    if not mn:
        ctx.fail_closed(['C14', 'C17'], 'R-ANCHOR', 'MN', 'Module::new not found')
        return
    f = mn[0]
    where = loc(f.span)
    ok_ = [x for x in f.exits() if x['kind'] == 'ok']
    m = dict(ok_[0]['expr'][2][0][1][2]) if ok_ and ok_[0]['expr'][2][0][1][0] == 'agg' else None
    if not m:
        ctx.fail_closed(['C14', 'C17'], 'R-ANCHOR', 'MN|exit', 'Module literal not found', where)
        return
    # backends: every grammar backend, in order, grouped by its own name, prologue→prologue, epilogue→epilogue
    pushes = [c for c in f.calls(lambda r: r['path'] and r['path'].endswith('Vec::<T, A>::push'))]
    okb = False
    det = ''
    if len(pushes) == 1:
        c = pushes[0]
        L = innermost_loop(f, c['block'])
        sty, src = loop_source(f, L) if L else (None, None)
        tgt = f.expr_of_operand(c['term']['args'][0])
        val = f.expr_of_operand(c['term']['args'][1])
        det = show(val)[:160]
        ent = [x for x in walk(tgt) if isinstance(x, tuple) and x[0] == 'call' and re.search(MAPM('entry'), x[1])]
        key_ok = bool(ent) and any(isinstance(y, tuple) and y[0] == 'field' and y[2] == 'name' for y in walk(ent[0][2][1])) and strip(ent[0][2][0]) == strip(m['backends'])
        fld = lambda e, n: strip(e)[0] == 'field' and strip(e)[2] == n and any(is_call(y, 'Iterator::next') for y in walk(e))
        lit_ok = val[0] == 'agg' and val[1].endswith('types::Backend') and fld(dict(val[2])['prologue'], 'prologue') and fld(dict(val[2])['epilogue'], 'epilogue')
        okb = bool(L) and sty == "std::slice::Iter<'_, grammar::Backend>" and not cycle_without(f, L[1], L[0], {c['block']}) and key_ok and lit_ok and strip(strip(src)[2][0])[0] == 'arg'
    if not pushes:
        # the same grouping as a fold: `backends.iter().fold(HashMap::new(), |mut acc, b| { acc.entry(b.name..).or_default().push(Backend{..}); acc })`
        be = strip(expand(f, m['backends']))
        if is_call(be, 'Iterator::fold') and len(be[2]) == 3 and strip(be[2][2])[0] == 'closure' and strip(be[2][2])[1] in P.fns:
            g = P.fns[strip(be[2][2])[1]]
            gp = [c for c in g.calls(lambda r: r['path'] and r['path'].endswith('Vec::<T, A>::push'))]
            src_ = strip(be[2][0])
            unad = is_call(src_, 'slice::<impl [T]>::iter') and strip(src_[2][0])[0] == 'arg'
            init_ = strip(be[2][1])[0] == 'call' and re.search(r'HashMap(::<.*>)?::(new|default|with_capacity)$', strip(be[2][1])[1]) is not None
            if len(gp) == 1 and unad and init_ and not g.loops():
                tgt = strip(expand(g, g.expr_of_operand(gp[0]['term']['args'][0])))
                val = strip(expand(g, g.expr_of_operand(gp[0]['term']['args'][1])))
                det = 'fold: ' + show(val)[:140]
                ent = [x for x in walk(tgt) if isinstance(x, tuple) and x[0] == 'call' and re.search(MAPM('entry'), x[1])]
                acc_ok = bool(ent) and strip(ent[0][2][0])[0] == 'arg' and strip(ent[0][2][0])[1] == 2
                key_ok = bool(ent) and any(isinstance(y, tuple) and y[0] == 'field' and y[2] == 'name' and strip(y[1])[0] == 'arg' and strip(y[1])[1] == 3 for y in walk(ent[0][2][1]))
                fld2 = lambda e, n: any(isinstance(y, tuple) and y[0] == 'field' and y[2] == n and strip(y[1])[0] == 'arg' and strip(y[1])[1] == 3 for y in walk(e)) and not any(
                    isinstance(y, tuple) and y[0] == 'field' and y[2] in ('prologue', 'epilogue') and y[2] != n for y in walk(e))
                lit_ok = val[0] == 'agg' and val[1].endswith('types::Backend') and fld2(dict(val[2])['prologue'], 'prologue') and fld2(dict(val[2])['epilogue'], 'epilogue')
                ret_ok = all(strip(x['expr'])[0] == 'arg' and strip(x['expr'])[1] == 2 for x in g.exits()) and all(g.dominates(gp[0]['block'], x['block']) for x in g.exits())
                okb = bool(acc_ok and key_ok and lit_ok and ret_ok)
    ctx.ob(['C14'], 'R-ITER', 'MN|backends-grouped-in-order', okb,
           'every backend block is appended, in source order, to the list of its own backend name, prologue as prologue and epilogue as epilogue: %s' % det, where)
    # impl blocks: stored exactly as parsed (no attribute or function is added, dropped or rewritten on the way to function::build)
    vals = []
    for g in [f] + P.closures_of(f):
        for x in g.exits():
            e_ = x['expr']
            if e_[0] == 'tuple' and len(e_[1]) == 2 and 'FunctionBlock' in g.raw.get('output', g.locals[0]['ty'] if g.locals else ''):
                vals.append((g, e_[1][1]))
        for c in g.calls(lambda r: r['path'] and re.search(MAPM('insert'), r['path']) and 'FunctionBlock' in (r['callee'].get('rfull') or '')):
            vals.append((g, g.expr_of_operand(c['term']['args'][2])))
    oki = bool(vals)
    deti = []
    for g, v in vals:
        okc, src_ = unmodified_clone(g, v, 'grammar::FunctionBlock')
        elem_ = okc and (strip(src_)[0] == 'arg' or any(isinstance(y, tuple) and y[0] == 'payload' and y[2] == 'Some' and is_call(strip(y[1]), 'Iterator::next') for y in walk(src_)))
        oki = oki and bool(elem_)
        deti.append('%s: %s' % (short(g.id), 'clone of the element' if elem_ else 'not an unmodified clone: ' + show(v)[:60]))
    ctx.ob(['C05', 'C14', 'C18', 'C17', 'C16'], 'R-SLP', 'MN|impl-blocks-stored-unchanged', oki,
           'every impl block is stored as an unmodified clone of the parsed block (nothing is added to or removed from its functions and attributes): %s' % deti, where)
    okd = any(is_call(y, 'Attributes::doc') and strip(y[2][0])[0] == 'field' and strip(y[2][0])[2] == 'attributes' for y in walk(m['doc']))
    md = [g for g in P.fns.values() if g.id.endswith('module::Module::doc')]
    okd2 = bool(md) and len(md[0].exits()) == 1 and any(isinstance(y, tuple) and y[0] == 'field' and y[2] == 'doc' for y in walk(md[0].exits()[0]['expr']))
    ctx.ob(['C17'], 'R-SLP', 'MN|module-doc', okd and okd2, 'a module\'s doc is the doc of its own module attributes, and Module::doc() returns it', where)
    okx = strip(m['extern_values'])[0] == 'arg' and strip(m['path'])[0] == 'arg' and strip(m['ast'])[0] == 'arg'
    ctx.ob(['C14', 'C15'], 'R-SLP', 'MN|fields', okx, 'Module::new stores the path, AST and extern values it is given', where)
    # write_module passes the module doc as an inner (#![doc]) attribute
    wm = [g for g in P.fns.values() if g.id.endswith('backends::rust::write_module')]
    okw = False
    if wm:
        for c in wm[0].calls(lambda r: r['path'] and r['path'].endswith('doc_to_tokens')):
            a = [wm[0].expr_of_operand(x) for x in c['term']['args']]
            okw = a[0] == ('int', 1, 'bool') and is_call(a[1], 'Module::doc') and strip(a[1][2][0])[0] == 'arg'
    ctx.ob(['C17', 'C14'], 'R-TMPL', 'WM|module-doc-inner', okw, 'the module doc is emitted as inner attributes (#![doc = ..]) of its own file: doc_to_tokens(true, module.doc())', loc(wm[0].span) if wm else '')
