"""registry — which rule modules exist, which properties they serve, per-property evidence text."""
import json, traceback, importlib
from core import Ctx
from mirlib import Program

TRUSTED = ['rustc nightly MIR construction, type checker and Instance::try_resolve (facts are read from the compiler\'s own IR)',
           'syn 2 as parser of the pinned source (pxsyn)',
           'Rust reference semantics of repr(C), align, packed, `as` casts and transmute',
           'reviewed tables under /verif/spec (one line of reason per entry)']

# (module name, properties it may record obligations for); order matters: supporting obligations first
MODULES = [
    ('r_layout', ['C01', 'C02', 'C03', 'C20', 'C13']),
    ('r_vftable', ['C04', 'C06', 'C07', 'C16', 'C20']),
    ('r_function', ['C05', 'C16', 'C10']),
    ('r_enum', ['C08', 'C02', 'C20', 'C15']),
    ('r_resolve', ['C09', 'C10', 'C11', 'C19', 'C14']),
    ('r_emit', ['C13', 'C14', 'C19']),
    ('r_tmpl', ['C01', 'C02', 'C04', 'C05', 'C06', 'C07', 'C08', 'C13', 'C14', 'C15', 'C16', 'C17', 'C20', 'C11']),
    ('r_parser', ['C18', 'C08', 'C12']),
    ('r_panic', ['C12', 'C15', 'C04']),
]

ALL_PROPS = ['C%02d' % i for i in range(1, 21)]

META = {}


def _m(pid, explanation, not_decided, assumptions=()):
    META[pid] = {'explanation': explanation, 'not_decided': list(not_decided), 'trusted_base': TRUSTED,
                 'assumptions': list(assumptions) + ['the facts are those of /repo\'s working tree at the time of the run (rebuilt on every run)']}


def run_all(mir, syn, repo, tier, props):
    prog = Program(mir)
    synf = None
    if syn:
        with open(syn) as fh:
            synf = json.load(fh)
    ctx = Ctx(prog, synf, repo, tier)
    ctx.stats['functions'] = len(prog.fns)
    ctx.stats['call_edges'] = sum(len(v) for v in prog.callgraph().values())
    for name, serves in MODULES:
        if not any(p in serves for p in props) and name != 'r_layout' and name != 'r_function':
            # r_layout / r_function always run: other modules use their obligations as supporting facts
            continue
        try:
            mod = importlib.import_module(name)
        except ModuleNotFoundError as e:
            if e.name == name:
                continue
            raise
        try:
            mod.run(ctx)
        except Exception as e:
            tb = traceback.format_exc()
            for p in serves:
                ctx.ob(p, 'R-INTERNAL', name, False, 'rule module %s crashed (fail closed): %s' % (name, e), '', tb[-800:])
    return ctx
