"""registry — which rule modules exist, which properties they serve, per-property evidence text."""
import json, traceback, importlib
from core import Ctx
from mirlib import Program

TRUSTED = ['rustc nightly MIR construction, type checker and Instance::try_resolve (facts are read from the compiler\'s own IR)',
           'syn 2 as parser of the pinned source (pxsyn)',
           'Rust reference semantics of repr(C), align, packed, `as` casts and transmute',
           'reviewed tables under /verif/spec (one line of reason per entry)']

# (module name, properties it may record obligations for); order matters: supporting obligations first
MODULES = [
    ('r_layout', ['C01', 'C02', 'C03', 'C20', 'C13']),
    ('r_vftable', ['C04', 'C06', 'C07', 'C16', 'C20']),
    ('r_function', ['C05', 'C16', 'C10']),
    ('r_enum', ['C08', 'C02', 'C20', 'C15']),
    ('r_resolve', ['C09', 'C10', 'C11', 'C19', 'C14']),
    ('r_emit', ['C13', 'C14', 'C19']),
    ('r_tmpl', ['C01', 'C02', 'C04', 'C05', 'C06', 'C07', 'C08', 'C13', 'C14', 'C15', 'C16', 'C17', 'C20', 'C11']),
    ('r_access', ['C04', 'C07', 'C09', 'C10', 'C11', 'C13', 'C14', 'C17', 'C19']),
    ('r_parser', ['C18', 'C08', 'C12']),
    ('r_panic', ['C12', 'C15', 'C04']),
    ('r_enable', ['C03', 'C06', 'C08', 'C05', 'C10']),
]

ALL_PROPS = ['C%02d' % i for i in range(1, 21)]

META = {}


def _m(pid, explanation, not_decided, assumptions=()):
    META[pid] = {'explanation': explanation, 'not_decided': list(not_decided), 'trusted_base': TRUSTED,
                 'assumptions': list(assumptions) + ['the facts are those of /repo\'s working tree at the time of the run (rebuilt on every run)']}


def run_all(mir, syn, repo, tier, props):
    prog = Program(mir)
    synf = None
    if syn:
        with open(syn) as fh:
            synf = json.load(fh)
    ctx = Ctx(prog, synf, repo, tier)
    ctx.stats['functions'] = len(prog.fns)
    ctx.stats['call_edges'] = sum(len(v) for v in prog.callgraph().values())
    ctx.stats['normalised'] = {'helpers_inlined': ['%s -> %s%s' % (h, c, ' (threaded through ?)' if t else '') for h, c, t in getattr(prog, 'inlined', [])],
                               'aggregates_split': ['%s in %s' % (n, f) for f, n, a in getattr(prog, 'sroa', [])],
                               'renamed_by_role': ['%s = %s' % (a, r) for a, r in getattr(prog, 'renamed', [])]}
    for name, serves in MODULES:
        # every module runs on every request: obligations are tagged with all the properties they are a necessary condition of,
        # which is not limited to the module's nominal list (and some modules use others' obligations as supporting facts)
        try:
            mod = importlib.import_module(name)
        except ModuleNotFoundError as e:
            if e.name == name:
                continue
            raise
        try:
            mod.run(ctx)
        except Exception as e:
            tb = traceback.format_exc()
            for p in serves:
                ctx.ob(p, 'R-INTERNAL', name, False, 'rule module %s crashed (fail closed): %s' % (name, e), '', tb[-800:])
    return ctx


_m('C01', 'Static: the struct-layout code is reduced to structural facts that hold for all inputs and both pointer widths: Regions::push pairs every pushed region with an '
   'advance of the running end by that region\'s size (R-PAIR); padding before an addressed field is exactly address − end and precedes the field (R-EXPR/R-DOM); overlap is '
   'rejected; the vftable pointer is the first push; no order-changing operation touches a region/statement sequence (R-SEQ); the per-field alignment test runs for every region '
   'on every non-packed path to success (R-GUARD/R-ITER); the extracted struct template is #[repr(C,..)] with one field per region in order, name and type of the same region (R-TMPL); '
   'the built-in size table equals rustc\'s data layout for both Windows targets (R-TABLE).',
   ['rustc implementing repr(C) as the reference says (trusted)', 'numeric behaviour at usize overflow (C12)', 'truth of extern types\' declared size'])
_m('C02', 'Static: built-in (size, align) table vs rustc target data layouts (x86_64/i686-pc-windows-msvc); Type::size/alignment per variant; provenance chain from the checked '
   'alignment / summed size into ItemStateResolved and from there into align(N) and the size-check transmute of the template; enum takes size/alignment of the type it prints in repr(); '
   'vftable struct size = sum of slot regions, alignment = pointer size; declared #[size] guard and trailing padding.',
   ['that #[repr(C, align(N))] with N ≥ natural alignment and size % N == 0 yields align_of == N (Rust reference)', 'non-power-of-two N (finding F7)', 'extern types'])
_m('C03', 'Static: presence, operator strictness, operand identity, coverage (CFG cut on the non-packed / declared-size paths) of every rejection condition the statement lists, '
   'plus a census: every Err-producing branch of the type builder must implement one of those clauses (an extra one is a possible spurious rejection). NOT decided: the iff over all numeric inputs.',
   ['accept ⇔ realisable as an arithmetic equivalence for all values (needs a solver / execution: different technique family)'])
_m('C04', 'Static: slot builder (padding to #[index] before each function, to #[size] after, half-open placeholder range, one push per declared function in order), vftable struct '
   '(one Function-typed region per slot from the function\'s own name/convention/arguments), wrapper template Vftable arm (one addr_of!((*self.vftable()).<name>).read(), one tail call, '
   'receiver then arguments in order), name agreement between slot and wrapper.', ['run-time behaviour for arbitrary table contents (follows from Rust semantics of the decided template)'])
_m('C05', 'Static: missing address / address on virtual / unresolvable parameter ⇒ Err guards; checked address conversion; wrapper template Address arm (extern "<cc>" fn pointer type with '
   'this-pointer and arguments in order, transmute(<address literal> as usize), single tail call); hex literal prefix/radix agreement; duplicate method guard.',
   ['register contents at run time', 'F15 (second impl block dropped) is reported under C14-D3'])
_m('C06', 'Static: prefix comparison (length test strict, zip of both lists unadapted, inequality = derived PartialEq over all fields of Function), the four outcomes of vftable::build '
   '(own+base: no pointer field, base field recorded; own+no base: private `vftable` field of the accessor type; inherited; none), first base = first is_base region, pointer region pushed first, accessor template.',
   ['that the first base sits at offset 0 (the quantifier\'s assumption)'])
_m('C07', 'Static: injection loop over all is_base regions (enumerate after filter), associated functions always, virtual functions only for index > 0, public only, clash rename format, '
   'Field body provenance; wrapper template Field arm (self.<field>.<name>(args without receiver)); AsRef/AsMut template (type and path from the same dfs_hierarchy entry, dedup alternative, reflexive impls).',
   ['run-time receiver address (follows from field projection)', 'F17: a renamed <field>_<name> can itself collide (noted)'])
_m('C08', 'Static: discriminant counter shape (0, literal or counter, counter := value + 1), default bookkeeping guards, enum template (#[repr(resolved base type)], one variant per pair in order, '
   '#[default] on enumerate index == default_index, derives), lossy-cast rule on the interpolated discriminant (finding F13), range guard obligation (absent: F13).', [])
_m('C09', 'Static: every hash-iteration source is enumerated by receiver type and must be discharged (SORTED / INDEPENDENT / ERROR-TEXT-ONLY / SCHEDULE / escapes-to-callers, followed interprocedurally); '
   'registry-frozen reachability (no call path from the per-item builders to a registry insertion — violated: F1); no statics, thread-locals, interior-mutable consts, ambient inputs on the build path; '
   'order-changing calls on order-bearing sequences are the reviewed ones.', ['confluence of the fix-point is argued, not proved', 'file-system enumeration order (glob)'])
_m('C10', 'Static: Ok(ResolvedSemanticState) is cut off when the true edge of unresolved().is_empty() is removed; every other loop exit is Err; no-progress test on every trip; results of the resolver '
   'and of Regions::push are deferred/propagated, never absorbed (F2) or discarded; pointer/function arms of Type::size/alignment never touch the pointee; all definitions/extern types/extern values are registered/resolved.',
   ['"every acyclic graph resolves however long the chains" and "every by-value cycle errors" as behaviours of the fix-point on run-time graphs'])
_m('C11', 'Static: single resolver (Type::Raw constructed from a name only in resolve_string; callers; scope argument = owning module\'s scope()), backend never re-resolves, candidate order read off the '
   'combinator expression (imported types reversed, then root, then scope modules in order; scope = own path ++ uses), type printer prints the stored path (crate:: prefix rule, void).', [])
_m('C12', 'Static: census of every panic-capable site reachable from the public API (MIR asserts, unwrap/expect, panics, indexing, integer operator traits, identifier constructors) each discharged '
   'automatically (dominating guard, bool::then receiver, just-pushed, full range, constant) or by a reviewed table entry with a machine-checked supporting fact, else a finding; lossy `as` casts of run-time integers; '
   'every loop classified (finite std iterator / token-consuming parser loop / reviewed) and every recursive function reviewed; parse errors carry path:line:col.',
   ['panics inside external crates other than the tabled callees', 'memory proportionality as a quantity', 'stack depth on deeply nested input types'])
_m('C13', 'Static, partial: (1) write_module returns Ok only if syn::parse_file accepted the complete buffer (parse gate, constant FORMAT_OUTPUT folded); (2) every concretised alternative of the extracted '
   'item/wrapper/accessor templates parses with syn; (3) type printer arms; Predefined/Extern emit nothing; copyable ⇒ cloneable; defaultable field guard. NOT decided: name resolution, trait satisfaction, privacy in rustc.',
   ['rustc name resolution / traits / privacy on the unbounded family of outputs (bulk of the property)', 'F16: Copy/Clone satisfiability of field types'])
_m('C14', 'Static: files are created only by write_module, one per call, path = out_dir/segments.rs, root skipped; build() calls it for every module; add_module/add_item registration pairing and coverage; '
   'generated vftable item registered on both own-block outcomes; keyed insertions must consult prior presence (F14, F15); buffer order header/doc/prologues/items/externs/epilogues, rust backend only, complete and in order.',
   ['byte-level "unchanged up to formatting" (prettyplease)'])
_m('C15', 'Static: struct singleton template (one dereference of `A as *mut *mut Self`, as_mut), enum singleton (one dereference of `A as *const Self`), extern accessor (&mut *(A as *mut T), both T from ev.type_, '
   'A = ev.address), missing address ⇒ Err, every extern value resolved, address conversions (lossy casts: F4).', ['memory contents at run time'])
_m('C16', 'Static: as_str/from_str inverse tables over all variants, every string accepted by rustc (--print=calling-conventions), default closure (thiscall iff a receiver), unknown ⇒ Err, placeholders thiscall, '
   'slot region and wrapper both print function.calling_convention via as_str, prefix comparison covers the convention (derived PartialEq).', ['rustc\'s ABI semantics'])
_m('C17', 'Static: provenance of every visibility alternative and doc repetition in the templates (item/field/method/accessor), Private for padding/vftable pointer/placeholders/renamed fields, derive list '
   'alternatives keyed on copyable/cloneable/defaultable, packed ⇒ `, packed` and no align, doc_to_tokens one attribute per line, visibility tables.', ['rendering of doc text by prettyplease'])
_m('C19', 'Static, confinement only: no global mutable state; the resolver accesses the registry by key only with keys built from the referring module\'s scope, the root and the name; add_item registers under '
   'path.parent() only; write_module never enumerates other modules; hash-order discharges of C09. NOT decided: byte-identity between two runs.', ['byte-identity as a relation between two runs'])
_m('C20', 'Static, convergence of code paths only: zero-sized array regions are not pushed (explicit address equal to the current end and unknown<0> add nothing); unnamed regions are normalised at one place from '
   'the running offset; trailing padding guard; index-driven and sequential slot assignment share the padding helper; numbers are isize/usize from the parser on; definitions sorted before printing. '
   'NOT decided: byte-identity between two inputs.', ['byte-identity of outputs as such'])
_m('C18', 'Static: the grammar extracted from the recursive-descent parser (token sequences, constructors, provenance of constructor arguments) equals the reviewed reference grammar; constructor coverage; '
   'peek/parse agreement. NOT decided: round-trip equality of values.', ['equality of values for all modules', 'lexer behaviour (proc-macro2)'])
