// pxsyn — syntax oracle: parses candidate Rust source texts with syn (the same parser family the
// backend's own parse gate uses).  No pyxis code is executed.
//   pxsyn --parse-many cases.json   -> JSON array: null (parses as a file of items) or the error text
use std::io::Write;

fn main() {
    let args: Vec<String> = std::env::args().collect();
    if args.len() == 3 && args[1] == "--parse-many" {
        let txt = std::fs::read_to_string(&args[2]).expect("read cases");
        let cases: Vec<String> = serde_json::from_str(&txt).expect("json");
        let mut out = Vec::new();
        for c in &cases {
            match syn::parse_file(c) {
                Ok(_) => out.push(serde_json::Value::Null),
                Err(e) => {
                    let lc = e.span().start();
                    out.push(serde_json::Value::String(format!("{} at {}:{}", e, lc.line, lc.column)))
                }
            }
        }
        let s = serde_json::to_string(&out).unwrap();
        std::io::stdout().write_all(s.as_bytes()).unwrap();
        return;
    }
    eprintln!("usage: pxsyn --parse-many cases.json");
    std::process::exit(2);
}
