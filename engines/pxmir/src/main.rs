// pxmir — rustc_private driver that dumps the resolved program (MIR + types + ADTs) of the
// crate being compiled as JSON facts.  Used as RUSTC_WORKSPACE_WRAPPER: argv = [drv, rustc, args…].
// Facts are written only for the crate named in PXMIR_CRATE (default "pyxis") to PXMIR_OUT.
#![feature(rustc_private)]

extern crate rustc_abi;
extern crate rustc_driver;
extern crate rustc_hir;
extern crate rustc_interface;
extern crate rustc_middle;
extern crate rustc_session;
extern crate rustc_span;

use rustc_driver::Compilation;
use rustc_hir::def::DefKind;
use rustc_hir::def_id::{DefId, LocalDefId};
use rustc_interface::interface::Compiler;
use rustc_middle::mir::{
    self, AggregateKind, BasicBlockData, Body, Const, Operand, Place, PlaceElem, Rvalue,
    StatementKind, TerminatorKind, VarDebugInfoContents,
};
use rustc_middle::ty::print::PrintTraitRefExt;
use rustc_middle::ty::{self, Instance, Ty, TyCtxt, TypingEnv};
use rustc_span::Span;
use std::fmt::Write as _;

mod json;
use json::J;

struct Cb {
    out: String,
    krate: String,
}

impl rustc_driver::Callbacks for Cb {
    fn after_analysis<'tcx>(&mut self, _c: &Compiler, tcx: TyCtxt<'tcx>) -> Compilation {
        let name = tcx.crate_name(rustc_hir::def_id::LOCAL_CRATE).to_string();
        if name != self.krate {
            return Compilation::Continue;
        }
        let facts = dump(tcx);
        let mut s = String::new();
        facts.write(&mut s);
        std::fs::write(&self.out, s).expect("pxmir: cannot write facts");
        Compilation::Continue
    }
}

fn span_j(tcx: TyCtxt<'_>, sp: Span) -> J {
    let sm = tcx.sess.source_map();
    let from_exp = sp.from_expansion();
    let cs = sp.source_callsite();
    let lo = sm.lookup_char_pos(cs.lo());
    let hi = sm.lookup_char_pos(cs.hi());
    let mut o = vec![
        ("file", J::S(format!("{}", lo.file.name.prefer_local_unconditionally()))),
        ("line", J::I(lo.line as i64)),
        ("col", J::I(lo.col.0 as i64 + 1)),
        ("eline", J::I(hi.line as i64)),
        ("ecol", J::I(hi.col.0 as i64 + 1)),
        ("exp", J::B(from_exp)),
    ];
    if from_exp {
        // chain of macro names from innermost to outermost
        let mut names = vec![];
        let mut cur = sp;
        let mut guard = 0;
        while cur.from_expansion() && guard < 16 {
            let d = cur.ctxt().outer_expn_data();
            let nm = match d.macro_def_id {
                Some(id) => tcx.def_path_str(id),
                None => format!("{:?}", d.kind),
            };
            names.push(J::S(nm));
            cur = d.call_site;
            guard += 1;
        }
        o.push(("macros", J::A(names)));
    }
    J::obj(o)
}

fn ty_s(ty: Ty<'_>) -> String {
    ty::print::with_no_trimmed_paths!(format!("{}", ty))
}

fn defpath(tcx: TyCtxt<'_>, id: DefId) -> String {
    ty::print::with_no_trimmed_paths!(tcx.def_path_str(id))
}

struct FnCx<'a, 'tcx> {
    tcx: TyCtxt<'tcx>,
    body: &'a Body<'tcx>,
    def: LocalDefId,
}

impl<'a, 'tcx> FnCx<'a, 'tcx> {
    fn place(&self, p: &Place<'tcx>) -> J {
        let tcx = self.tcx;
        let mut pty = mir::PlaceTy::from_ty(self.body.local_decls[p.local].ty);
        let mut proj = vec![];
        for elem in p.projection.iter() {
            let e = match elem {
                PlaceElem::Deref => J::obj(vec![("k", J::s("Deref"))]),
                PlaceElem::Field(f, _) => {
                    let mut name = format!("{}", f.as_usize());
                    let mut adt_name = String::new();
                    if let ty::Adt(adt, _) = pty.ty.kind() {
                        let vi = pty.variant_index.unwrap_or(rustc_abi::FIRST_VARIANT);
                        if vi.as_usize() < adt.variants().len() {
                            let v = adt.variant(vi);
                            if f.as_usize() < v.fields.len() {
                                name = v.fields[f].name.to_string();
                            }
                        }
                        adt_name = defpath(tcx, adt.did());
                    }
                    J::obj(vec![
                        ("k", J::s("Field")),
                        ("i", J::I(f.as_usize() as i64)),
                        ("name", J::S(name)),
                        ("adt", J::S(adt_name)),
                    ])
                }
                PlaceElem::Index(l) => {
                    J::obj(vec![("k", J::s("Index")), ("local", J::I(l.as_usize() as i64))])
                }
                PlaceElem::ConstantIndex { offset, from_end, .. } => J::obj(vec![
                    ("k", J::s("ConstantIndex")),
                    ("offset", J::I(offset as i64)),
                    ("from_end", J::B(from_end)),
                ]),
                PlaceElem::Subslice { from, to, from_end } => J::obj(vec![
                    ("k", J::s("Subslice")),
                    ("from", J::I(from as i64)),
                    ("to", J::I(to as i64)),
                    ("from_end", J::B(from_end)),
                ]),
                PlaceElem::Downcast(name, vi) => {
                    let mut vn = name.map(|n| n.to_string()).unwrap_or_default();
                    if vn.is_empty() {
                        if let ty::Adt(adt, _) = pty.ty.kind() {
                            vn = adt.variant(vi).name.to_string();
                        }
                    }
                    J::obj(vec![
                        ("k", J::s("Downcast")),
                        ("variant", J::S(vn)),
                        ("vi", J::I(vi.as_usize() as i64)),
                    ])
                }
                PlaceElem::OpaqueCast(_) => J::obj(vec![("k", J::s("OpaqueCast"))]),
                PlaceElem::UnwrapUnsafeBinder(_) => J::obj(vec![("k", J::s("UnwrapUnsafeBinder"))]),
            };
            proj.push(e);
            pty = pty.projection_ty(tcx, elem);
        }
        J::obj(vec![
            ("local", J::I(p.local.as_usize() as i64)),
            ("proj", J::A(proj)),
            ("ty", J::S(ty_s(pty.ty))),
        ])
    }

    fn constant(&self, c: &mir::ConstOperand<'tcx>) -> J {
        let tcx = self.tcx;
        let ty = c.const_.ty();
        let mut o = vec![("k", J::s("Const")), ("ty", J::S(ty_s(ty)))];
        match ty.kind() {
            ty::FnDef(did, args) => {
                o.push(("fn", self.callee(*did, args)));
            }
            _ => {
                let text = ty::print::with_no_trimmed_paths!(format!("{}", c.const_));
                o.push(("text", J::S(text)));
                // try to evaluate scalars (named consts such as FORMAT_OUTPUT)
                let env = TypingEnv::post_analysis(tcx, self.def.to_def_id());
                if ty.is_bool() || ty.is_integral() || ty.is_char() {
                    if let Some(si) = c.const_.try_eval_scalar_int(tcx, env) {
                        let size = si.size();
                        let v = if ty.is_signed() {
                            format!("{}", si.to_int(size))
                        } else {
                            format!("{}", si.to_uint(size))
                        };
                        o.push(("val", J::S(v)));
                    }
                }
                if let Const::Unevaluated(u, _) = c.const_ {
                    o.push(("named", J::S(defpath(tcx, u.def))));
                }
                if let Some(s) = str_const(tcx, &c.const_, env) {
                    o.push(("str", J::S(s)));
                }
            }
        }
        J::obj(o)
    }

    fn callee(&self, did: DefId, args: ty::GenericArgsRef<'tcx>) -> J {
        let tcx = self.tcx;
        let mut o = vec![
            ("path", J::S(defpath(tcx, did))),
            (
                "full",
                J::S(ty::print::with_no_trimmed_paths!(tcx.def_path_str_with_args(did, args))),
            ),
            (
                "gargs",
                J::A(args.iter().map(|a| {
                    J::S(ty::print::with_no_trimmed_paths!(format!("{}", a)))
                }).collect()),
            ),
            ("local", J::B(did.is_local())),
        ];
        // trait method?  record trait + self type
        if let Some(tr) = tcx.trait_of_assoc(did) {
            o.push(("trait", J::S(defpath(tcx, tr))));
            if let Some(st) = args.types().next() {
                o.push(("self_ty", J::S(ty_s(st))));
            }
        } else if let Some(imp) = tcx.inherent_impl_of_assoc(did) {
            let st = tcx.type_of(imp).instantiate_identity().skip_norm_wip();
            o.push(("self_ty", J::S(ty_s(st))));
        }
        let env = TypingEnv::post_analysis(tcx, self.def.to_def_id());
        if let Ok(Some(inst)) = Instance::try_resolve(tcx, env, did, args) {
            let rid = inst.def_id();
            o.push(("rpath", J::S(defpath(tcx, rid))));
            o.push((
                "rfull",
                J::S(ty::print::with_no_trimmed_paths!(
                    tcx.def_path_str_with_args(rid, inst.args)
                )),
            ));
            o.push(("rlocal", J::B(rid.is_local())));
            o.push(("rkind", J::S(format!("{:?}", std::mem::discriminant(&inst.def)).replace("Discriminant", ""))));
            let kind = match inst.def {
                ty::InstanceKind::Item(_) => "Item",
                ty::InstanceKind::Intrinsic(_) => "Intrinsic",
                ty::InstanceKind::Virtual(..) => "Virtual",
                ty::InstanceKind::ClosureOnceShim { .. } => "ClosureOnceShim",
                ty::InstanceKind::FnPtrShim(..) => "FnPtrShim",
                ty::InstanceKind::CloneShim(..) => "CloneShim",
                ty::InstanceKind::DropGlue(..) => "DropGlue",
                _ => "Other",
            };
            o.push(("ikind", J::s(kind)));
            if tcx.impl_of_assoc(rid).is_some_and(|imp| tcx.is_automatically_derived(imp)) {
                o.push(("derived", J::B(true)));
            }
        }
        J::obj(o)
    }

    fn operand(&self, op: &Operand<'tcx>) -> J {
        match op {
            Operand::Copy(p) => J::obj(vec![("k", J::s("Copy")), ("place", self.place(p))]),
            Operand::Move(p) => J::obj(vec![("k", J::s("Move")), ("place", self.place(p))]),
            Operand::Constant(c) => self.constant(c),
            #[allow(unreachable_patterns)]
            _ => J::obj(vec![("k", J::s("Other")), ("text", J::S(format!("{:?}", op)))]),
        }
    }

    fn rvalue(&self, rv: &Rvalue<'tcx>) -> J {
        let tcx = self.tcx;
        let mut o: Vec<(&'static str, J)> = vec![];
        match rv {
            Rvalue::Use(op, ..) => {
                o.push(("k", J::s("Use")));
                o.push(("op", self.operand(op)));
            }
            Rvalue::Repeat(op, n) => {
                o.push(("k", J::s("Repeat")));
                o.push(("op", self.operand(op)));
                o.push(("n", J::S(format!("{}", n))));
            }
            Rvalue::Ref(_, bk, p) => {
                o.push(("k", J::s("Ref")));
                o.push(("mutbl", J::B(matches!(bk, mir::BorrowKind::Mut { .. }))));
                o.push(("place", self.place(p)));
            }
            Rvalue::RawPtr(kind, p) => {
                o.push(("k", J::s("RawPtr")));
                o.push(("mutbl", J::B(matches!(kind, mir::RawPtrKind::Mut))));
                o.push(("place", self.place(p)));
            }
            Rvalue::Cast(kind, op, ty) => {
                o.push(("k", J::s("Cast")));
                let ks = format!("{:?}", kind);
                let ks = ks.split('(').next().unwrap_or("").to_string();
                o.push(("cast", J::S(ks)));
                o.push(("op", self.operand(op)));
                o.push(("from", J::S(ty_s(op.ty(&self.body.local_decls, tcx)))));
                o.push(("to", J::S(ty_s(*ty))));
            }
            Rvalue::BinaryOp(bop, ops) => {
                o.push(("k", J::s("BinaryOp")));
                o.push(("op", J::S(format!("{:?}", bop))));
                o.push(("a", self.operand(&ops.0)));
                o.push(("b", self.operand(&ops.1)));
            }
            Rvalue::UnaryOp(uop, op) => {
                o.push(("k", J::s("UnaryOp")));
                o.push(("op", J::S(format!("{:?}", uop))));
                o.push(("a", self.operand(op)));
            }
            Rvalue::Discriminant(p) => {
                o.push(("k", J::s("Discriminant")));
                o.push(("place", self.place(p)));
                let pt = p.ty(&self.body.local_decls, tcx).ty;
                if let ty::Adt(adt, _) = pt.kind() {
                    if adt.is_enum() {
                        o.push(("adt", J::S(defpath(tcx, adt.did()))));
                        o.push((
                            "variants",
                            J::A(adt.variants().iter().map(|v| J::S(v.name.to_string())).collect()),
                        ));
                    }
                }
            }
            Rvalue::Aggregate(kind, ops) => {
                o.push(("k", J::s("Aggregate")));
                let mut names: Vec<J> = vec![];
                match &**kind {
                    AggregateKind::Array(t) => {
                        o.push(("agg", J::s("Array")));
                        o.push(("elem_ty", J::S(ty_s(*t))));
                    }
                    AggregateKind::Tuple => o.push(("agg", J::s("Tuple"))),
                    AggregateKind::Adt(did, vi, _args, _, active) => {
                        o.push(("agg", J::s("Adt")));
                        let adt = tcx.adt_def(*did);
                        o.push(("adt", J::S(defpath(tcx, *did))));
                        let v = adt.variant(*vi);
                        o.push(("variant", J::S(v.name.to_string())));
                        o.push(("is_enum", J::B(adt.is_enum())));
                        if let Some(a) = active {
                            names.push(J::S(v.fields[*a].name.to_string()));
                        } else {
                            for f in v.fields.iter() {
                                names.push(J::S(f.name.to_string()));
                            }
                        }
                    }
                    AggregateKind::Closure(did, _) => {
                        o.push(("agg", J::s("Closure")));
                        o.push(("closure", J::S(defpath(tcx, *did))));
                        o.push(("closure_id", J::S(fn_id(tcx, *did))));
                    }
                    other => {
                        o.push(("agg", J::S(format!("{:?}", other))));
                    }
                }
                o.push(("fields", J::A(names)));
                o.push(("ops", J::A(ops.iter().map(|x| self.operand(x)).collect())));
            }
            Rvalue::CopyForDeref(p) => {
                o.push(("k", J::s("CopyForDeref")));
                o.push(("place", self.place(p)));
            }
            Rvalue::ThreadLocalRef(did) => {
                o.push(("k", J::s("ThreadLocalRef")));
                o.push(("def", J::S(defpath(tcx, *did))));
            }
            other => {
                o.push(("k", J::s("Other")));
                o.push(("text", J::S(format!("{:?}", other))));
            }
        }
        J::obj(o)
    }

    fn block(&self, bb: &BasicBlockData<'tcx>) -> J {
        let tcx = self.tcx;
        let mut stmts = vec![];
        for st in &bb.statements {
            match &st.kind {
                StatementKind::Assign(b) => {
                    let (p, rv) = &**b;
                    stmts.push(J::obj(vec![
                        ("k", J::s("Assign")),
                        ("place", self.place(p)),
                        ("rv", self.rvalue(rv)),
                        ("span", span_j(tcx, st.source_info.span)),
                    ]));
                }
                StatementKind::SetDiscriminant { place, variant_index } => {
                    stmts.push(J::obj(vec![
                        ("k", J::s("SetDiscriminant")),
                        ("place", self.place(place)),
                        ("vi", J::I(variant_index.as_usize() as i64)),
                        ("span", span_j(tcx, st.source_info.span)),
                    ]));
                }
                StatementKind::Intrinsic(i) => {
                    stmts.push(J::obj(vec![
                        ("k", J::s("Intrinsic")),
                        ("text", J::S(format!("{:?}", i))),
                        ("span", span_j(tcx, st.source_info.span)),
                    ]));
                }
                _ => {}
            }
        }
        let t = bb.terminator();
        let mut o: Vec<(&'static str, J)> = vec![("span", span_j(tcx, t.source_info.span))];
        let bbi = |b: mir::BasicBlock| J::I(b.as_usize() as i64);
        match &t.kind {
            TerminatorKind::Goto { target } => {
                o.push(("k", J::s("Goto")));
                o.push(("target", bbi(*target)));
            }
            TerminatorKind::SwitchInt { discr, targets } => {
                o.push(("k", J::s("SwitchInt")));
                o.push(("discr", self.operand(discr)));
                o.push(("discr_ty", J::S(ty_s(discr.ty(&self.body.local_decls, tcx)))));
                let mut ts = vec![];
                for (v, b) in targets.iter() {
                    ts.push(J::A(vec![J::S(format!("{}", v)), bbi(b)]));
                }
                o.push(("targets", J::A(ts)));
                o.push(("otherwise", bbi(targets.otherwise())));
            }
            TerminatorKind::Return => o.push(("k", J::s("Return"))),
            TerminatorKind::Unreachable => o.push(("k", J::s("Unreachable"))),
            TerminatorKind::UnwindResume => o.push(("k", J::s("UnwindResume"))),
            TerminatorKind::UnwindTerminate(_) => o.push(("k", J::s("UnwindTerminate"))),
            TerminatorKind::Drop { place, target, .. } => {
                o.push(("k", J::s("Drop")));
                o.push(("place", self.place(place)));
                o.push(("target", bbi(*target)));
            }
            TerminatorKind::Call { func, args, destination, target, fn_span, .. } => {
                o.push(("k", J::s("Call")));
                if let Some((did, gargs)) = func.const_fn_def() {
                    o.push(("callee", self.callee(did, gargs)));
                } else {
                    o.push(("fnptr", self.operand(func)));
                    o.push(("fnptr_ty", J::S(ty_s(func.ty(&self.body.local_decls, tcx)))));
                }
                o.push(("args", J::A(args.iter().map(|a| self.operand(&a.node)).collect())));
                o.push(("dest", self.place(destination)));
                match target {
                    Some(t) => o.push(("target", bbi(*t))),
                    None => o.push(("target", J::Null)),
                }
                o.push(("fn_span", span_j(tcx, *fn_span)));
            }
            TerminatorKind::Assert { cond, expected, msg, target, .. } => {
                o.push(("k", J::s("Assert")));
                o.push(("cond", self.operand(cond)));
                o.push(("expected", J::B(*expected)));
                let full = format!("{:?}", msg);
                let kind = full.split(|c| c == '(' || c == '{' || c == ' ').next().unwrap_or("").to_string();
                o.push(("msg", J::S(kind)));
                o.push(("msg_full", J::S(full)));
                let mut mops = vec![];
                use rustc_middle::mir::AssertKind as AK;
                match &**msg {
                    AK::BoundsCheck { len, index } => {
                        mops.push(self.operand(len));
                        mops.push(self.operand(index));
                    }
                    AK::Overflow(op, a, b) => {
                        o.push(("binop", J::S(format!("{:?}", op))));
                        mops.push(self.operand(a));
                        mops.push(self.operand(b));
                    }
                    AK::OverflowNeg(a) | AK::DivisionByZero(a) | AK::RemainderByZero(a) => {
                        mops.push(self.operand(a));
                    }
                    _ => {}
                }
                o.push(("msg_ops", J::A(mops)));
                o.push(("target", bbi(*target)));
            }
            TerminatorKind::FalseEdge { real_target, .. } => {
                o.push(("k", J::s("Goto")));
                o.push(("target", bbi(*real_target)));
            }
            TerminatorKind::FalseUnwind { real_target, .. } => {
                o.push(("k", J::s("Goto")));
                o.push(("target", bbi(*real_target)));
            }
            other => {
                o.push(("k", J::s("Other")));
                o.push(("text", J::S(format!("{:?}", other))));
            }
        }
        J::obj(vec![
            ("stmts", J::A(stmts)),
            ("term", J::obj(o)),
            ("cleanup", J::B(bb.is_cleanup)),
        ])
    }
}

fn str_const<'tcx>(tcx: TyCtxt<'tcx>, c: &Const<'tcx>, env: TypingEnv<'tcx>) -> Option<String> {
    let ty = c.ty();
    let inner = match ty.kind() {
        ty::Ref(_, inner, _) => *inner,
        _ => return None,
    };
    if !inner.is_str() {
        return None;
    }
    let val = c.eval(tcx, env, rustc_span::DUMMY_SP).ok()?;
    let bytes = val.try_get_slice_bytes_for_diagnostics(tcx)?;
    Some(String::from_utf8_lossy(bytes).into_owned())
}

fn fn_id(tcx: TyCtxt<'_>, did: DefId) -> String {
    // stable identifier: def path with disambiguators (closures are {closure#n})
    ty::print::with_no_trimmed_paths!(tcx.def_path_str(did))
}

fn dump(tcx: TyCtxt<'_>) -> J {
    let mut fns = vec![];
    let ev = tcx.effective_visibilities(());
    for ldid in tcx.hir_body_owners() {
        let did = ldid.to_def_id();
        let kind = tcx.def_kind(did);
        let is_fn = matches!(kind, DefKind::Fn | DefKind::AssocFn | DefKind::Closure);
        if !is_fn {
            continue;
        }
        if !tcx.is_mir_available(did) {
            continue;
        }
        let body = tcx.optimized_mir(did);
        let cx = FnCx { tcx, body, def: ldid };
        let mut locals = vec![];
        for (l, d) in body.local_decls.iter_enumerated() {
            locals.push(J::obj(vec![
                ("i", J::I(l.as_usize() as i64)),
                ("ty", J::S(ty_s(d.ty))),
                ("span", span_j(tcx, d.source_info.span)),
            ]));
        }
        let mut dbg = vec![];
        for v in &body.var_debug_info {
            if let VarDebugInfoContents::Place(p) = &v.value {
                dbg.push(J::obj(vec![
                    ("name", J::S(v.name.to_string())),
                    ("place", cx.place(p)),
                    ("arg", match v.argument_index { Some(i) => J::I(i as i64), None => J::Null }),
                ]));
            }
        }
        let blocks: Vec<J> = body.basic_blocks.iter().map(|b| cx.block(b)).collect();
        let public = matches!(kind, DefKind::Fn | DefKind::AssocFn)
            && ev.is_reachable(ldid);
        let parent = if matches!(kind, DefKind::Closure) {
            J::S(fn_id(tcx, tcx.local_parent(ldid).to_def_id()))
        } else {
            J::Null
        };
        let mut o = vec![
            ("id", J::S(fn_id(tcx, did))),
            ("kind", J::S(format!("{:?}", kind))),
            ("parent", parent),
            ("public", J::B(public)),
            ("span", span_j(tcx, tcx.def_span(did))),
            ("body_span", span_j(tcx, body.span)),
            ("arg_count", J::I(body.arg_count as i64)),
            ("locals", J::A(locals)),
            ("debug", J::A(dbg)),
            ("blocks", J::A(blocks)),
        ];
        // promoted constants (`&"literal"`, `&SomeEnum::Variant` used by reference): what each one holds, as text
        {
            let proms = tcx.promoted_mir(did);
            let mut pj = vec![];
            for (pi, pb) in proms.iter_enumerated() {
                let pcx = FnCx { tcx, body: pb, def: ldid };
                let mut strs = vec![];
                let mut texts = vec![];
                for bb in pb.basic_blocks.iter() {
                    for st in &bb.statements {
                        if let mir::StatementKind::Assign(b) = &st.kind {
                            let rv = &b.1;
                            let mut ops: Vec<&Operand<'_>> = vec![];
                            match rv {
                                Rvalue::Use(o, ..) => ops.push(o),
                                Rvalue::Cast(_, o, _) => ops.push(o),
                                Rvalue::Aggregate(_, os) => { for o in os.iter() { ops.push(o); } }
                                _ => {}
                            }
                            for o in ops {
                                if let Operand::Constant(c) = o {
                                    let env = TypingEnv::post_analysis(tcx, ldid.to_def_id());
                                    if let Some(sv) = str_const(tcx, &c.const_, env) {
                                        strs.push(J::S(sv));
                                    }
                                    texts.push(J::S(ty::print::with_no_trimmed_paths!(format!("{}", c.const_))));
                                }
                            }
                            if let Rvalue::Aggregate(k, _) = rv {
                                texts.push(J::S(format!("{:?}", k)));
                            }
                        }
                    }
                }
                let _ = &pcx;
                pj.push(J::obj(vec![("i", J::I(pi.as_usize() as i64)), ("strs", J::A(strs)), ("texts", J::A(texts))]));
            }
            o.push(("promoted", J::A(pj)));
        }
        if matches!(kind, DefKind::AssocFn) {
            if let Some(imp) = tcx.impl_of_assoc(did) {
                let st = tcx.type_of(imp).instantiate_identity().skip_norm_wip();
                o.push(("impl_self", J::S(ty_s(st))));
                if let Some(tr) = tcx.impl_opt_trait_ref(imp) {
                    let tr = tr.instantiate_identity().skip_norm_wip();
                    o.push(("impl_trait", J::S(ty::print::with_no_trimmed_paths!(format!("{}", tr.print_only_trait_path())))));
                }
                o.push(("derived", J::B(tcx.is_automatically_derived(imp))));
            }
        }
        if matches!(kind, DefKind::Fn | DefKind::AssocFn) {
            let sig = tcx.fn_sig(did).instantiate_identity().skip_norm_wip().skip_binder();
            o.push(("inputs", J::A(sig.inputs().iter().map(|t| J::S(ty_s(*t))).collect())));
            o.push(("output", J::S(ty_s(sig.output()))));
        }
        fns.push(J::obj(o));
    }

    // ADTs, statics, consts, impls
    let mut adts = vec![];
    let mut statics = vec![];
    let mut consts = vec![];
    let mut impls = vec![];
    for ldid in tcx.hir_crate_items(()).definitions() {
        let did = ldid.to_def_id();
        match tcx.def_kind(did) {
            DefKind::Struct | DefKind::Enum | DefKind::Union => {
                let adt = tcx.adt_def(did);
                let mut vs = vec![];
                for v in adt.variants() {
                    let mut fs = vec![];
                    for f in v.fields.iter() {
                        let fty = tcx.type_of(f.did).instantiate_identity().skip_norm_wip();
                        fs.push(J::obj(vec![
                            ("name", J::S(f.name.to_string())),
                            ("ty", J::S(ty_s(fty))),
                            ("vis", J::S(format!("{:?}", f.vis))),
                            ("public", J::B(f.vis.is_public())),
                        ]));
                    }
                    vs.push(J::obj(vec![("name", J::S(v.name.to_string())), ("fields", J::A(fs))]));
                }
                adts.push(J::obj(vec![
                    ("path", J::S(defpath(tcx, did))),
                    ("kind", J::S(format!("{:?}", tcx.def_kind(did)))),
                    ("variants", J::A(vs)),
                    ("public", J::B(ev.is_reachable(ldid))),
                    ("span", span_j(tcx, tcx.def_span(did))),
                ]));
            }
            DefKind::Static { mutability, .. } => {
                let t = tcx.type_of(did).instantiate_identity().skip_norm_wip();
                statics.push(J::obj(vec![
                    ("path", J::S(defpath(tcx, did))),
                    ("ty", J::S(ty_s(t))),
                    ("mut", J::B(matches!(mutability, rustc_hir::Mutability::Mut))),
                    ("freeze", J::B(t.is_freeze(tcx, TypingEnv::fully_monomorphized()))),
                    ("span", span_j(tcx, tcx.def_span(did))),
                ]));
            }
            DefKind::Const { .. } | DefKind::AssocConst { .. } => {
                let t = tcx.type_of(did).instantiate_identity().skip_norm_wip();
                let mut s = String::new();
                let _ = write!(s, "{}", ty_s(t));
                let mut o = vec![
                    ("path", J::S(defpath(tcx, did))),
                    ("ty", J::S(s)),
                    ("span", span_j(tcx, tcx.def_span(did))),
                ];
                // the initialiser of a plain `const` item, as MIR (a table moved from a function body into a const keeps its rows)
                // (.. and of an associated `const` of an inherent impl that has a body: `impl T { const ALL: [T; 7] = [..]; }`)
                if matches!(tcx.def_kind(did), DefKind::Const { .. } | DefKind::AssocConst { .. }) {
                    if let Some(ldid) = did.as_local() {
                        if tcx.hir_maybe_body_owned_by(ldid).is_some() {
                            let body = tcx.mir_for_ctfe(did);
                            let cx = FnCx { tcx, body, def: ldid };
                            let mut locals = vec![];
                            for (l, d) in body.local_decls.iter_enumerated() {
                                locals.push(J::obj(vec![
                                    ("i", J::I(l.as_usize() as i64)),
                                    ("ty", J::S(ty_s(d.ty))),
                                    ("span", span_j(tcx, d.source_info.span)),
                                ]));
                            }
                            let blocks: Vec<J> = body.basic_blocks.iter().map(|b| cx.block(b)).collect();
                            o.push(("locals", J::A(locals)));
                            o.push(("blocks", J::A(blocks)));
                            // `const T: &[..] = &[..]`: the array itself lives in a promoted body of the const
                            let proms = tcx.promoted_mir(did);
                            let mut pbs = vec![];
                            for (pi, pb) in proms.iter_enumerated() {
                                let pcx = FnCx { tcx, body: pb, def: ldid };
                                let mut plocals = vec![];
                                for (l, d) in pb.local_decls.iter_enumerated() {
                                    plocals.push(J::obj(vec![
                                        ("i", J::I(l.as_usize() as i64)),
                                        ("ty", J::S(ty_s(d.ty))),
                                        ("span", span_j(tcx, d.source_info.span)),
                                    ]));
                                }
                                let pblocks: Vec<J> = pb.basic_blocks.iter().map(|b| pcx.block(b)).collect();
                                pbs.push(J::obj(vec![("i", J::I(pi.as_usize() as i64)), ("locals", J::A(plocals)), ("blocks", J::A(pblocks))]));
                            }
                            o.push(("promoted_bodies", J::A(pbs)));
                        }
                    }
                }
                consts.push(J::obj(o));
            }
            DefKind::Impl { of_trait } => {
                let st = tcx.type_of(did).instantiate_identity().skip_norm_wip();
                let mut o = vec![
                    ("self_ty", J::S(ty_s(st))),
                    ("derived", J::B(tcx.is_automatically_derived(did))),
                    ("span", span_j(tcx, tcx.def_span(did))),
                ];
                if of_trait {
                    if let Some(tr) = tcx.impl_opt_trait_ref(did) {
                        let tr = tr.instantiate_identity().skip_norm_wip();
                        o.push(("trait", J::S(ty::print::with_no_trimmed_paths!(format!("{}", tr.print_only_trait_path())))));
                    }
                }
                impls.push(J::obj(o));
            }
            _ => {}
        }
    }
    J::obj(vec![
        ("crate", J::S(tcx.crate_name(rustc_hir::def_id::LOCAL_CRATE).to_string())),
        ("fns", J::A(fns)),
        ("adts", J::A(adts)),
        ("statics", J::A(statics)),
        ("consts", J::A(consts)),
        ("impls", J::A(impls)),
    ])
}

fn main() {
    let mut args: Vec<String> = std::env::args().collect();
    // RUSTC_WORKSPACE_WRAPPER: argv = [drv, rustc_path, args…]
    if args.len() > 1 && (args[1].ends_with("rustc") || args[1].contains("/rustc")) {
        args.remove(1);
    }
    args[0] = "rustc".to_string();
    let out = std::env::var("PXMIR_OUT").unwrap_or_else(|_| "/dev/null".into());
    let krate = std::env::var("PXMIR_CRATE").unwrap_or_else(|_| "pyxis".into());
    let mut cb = Cb { out, krate };
    rustc_driver::run_compiler(&args, &mut cb);
}
