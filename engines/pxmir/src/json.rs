// minimal JSON value + writer (the driver has zero cargo dependencies)
pub enum J {
    Null,
    B(bool),
    I(i64),
    S(String),
    A(Vec<J>),
    O(Vec<(&'static str, J)>),
}

impl J {
    pub fn s(x: &str) -> J {
        J::S(x.to_string())
    }
    pub fn obj(v: Vec<(&'static str, J)>) -> J {
        J::O(v)
    }
    pub fn write(&self, out: &mut String) {
        match self {
            J::Null => out.push_str("null"),
            J::B(b) => out.push_str(if *b { "true" } else { "false" }),
            J::I(i) => out.push_str(&i.to_string()),
            J::S(s) => esc(s, out),
            J::A(v) => {
                out.push('[');
                for (i, x) in v.iter().enumerate() {
                    if i > 0 {
                        out.push(',');
                    }
                    x.write(out);
                }
                out.push(']');
            }
            J::O(v) => {
                out.push('{');
                for (i, (k, x)) in v.iter().enumerate() {
                    if i > 0 {
                        out.push(',');
                    }
                    esc(k, out);
                    out.push(':');
                    x.write(out);
                }
                out.push('}');
            }
        }
    }
}

fn esc(s: &str, out: &mut String) {
    out.push('"');
    for c in s.chars() {
        match c {
            '"' => out.push_str("\\\""),
            '\\' => out.push_str("\\\\"),
            '\n' => out.push_str("\\n"),
            '\r' => out.push_str("\\r"),
            '\t' => out.push_str("\\t"),
            c if (c as u32) < 0x20 => out.push_str(&format!("\\u{:04x}", c as u32)),
            c => out.push(c),
        }
    }
    out.push('"');
}
