#!/bin/bash
# builds the two engines offline from files on disk only
set -e
cd "$(dirname "$0")"
export CARGO_NET_OFFLINE=true
mkdir -p .scratch evidence reports
(cd engines/pxmir && cargo build --release --offline 2>&1 | tail -2)
(cd engines/pxsyn && cargo build --release --offline 2>&1 | tail -2)
test -x engines/pxmir/target/release/pxmir
test -x engines/pxsyn/target/release/pxsyn
echo setup-ok
