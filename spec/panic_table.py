"""Reviewed discharges for panic-capable sites that no automatic condition covers (C12-D1).
key = <function (closure ordinals dropped)>|<site signature, two levels deep, name-free>
value = (class, reason, supporting fact checked by the machinery or None, coarse signature)
The coarse signature (operation + outermost constructor or type of each operand) re-identifies the site when the exact key
has no site any more because the code moved to another function or its operands were renamed (r_panic.run, second pass).
Sites that are NOT listed here and not discharged automatically are violations; the genuine ones on
the pinned tree are listed in known_findings.jsonl instead (never here)."""

TABLE = {
    'backends::rust::build_type::{closure}|index(upvar0,arg:&(syn::Type, std::vec::Vec<proc_macro2::.0)':
        ('DC-INVARIANT', 'the map indexed here was built two statements earlier by folding over the same vector whose '
                         'elements supply the key, so every key is present', None, 'index(std::collections::HashMap<syn::Type, std,.0)'),
    'backends::rust::fully_qualified_type_ref_impl|rt::panic_fmt(Arguments::new(const,array))':
        ('DC-INVARIANT', 'Type::Unresolved never reaches the backend: it is constructed only for extern values in add_module and '
                         'Module::resolve_extern_values replaces every one or fails the build', 'unresolved-constructed-only-in-add_module', 'rt::panic_fmt(fmt(b"~received unresolved type ~~"))'),
    'backends::rust::hex_literal|Result::unwrap(from_str(deref(hint::must_use(…))))':
        ('DC-INVARIANT', '"0x{:X}" of a usize is always a valid Rust integer literal', None, 'Result::unwrap(from_str)'),
    'backends::rust::write_module|Overflow:Sub(Span::start(Error::span(…)).line,1)':
        ('DC-INVARIANT', 'proc_macro2 (span-locations) line numbers are 1-based, also for call-site spans', None, 'Overflow:Sub(.line,1)'),
    'backends::rust::write_module|Option::unwrap(Iterator::nth(var:std::str::Lines<>,Sub(….line,1)))':
        ('DC-INVARIANT', 'the error span comes from parsing raw_output itself, so its line exists in raw_output; an end-of-input '
                         'span reports line 1 and raw_output always starts with the two header lines', None, 'Option::unwrap(Iterator::nth)'),
    "backends::rust::write_module|str::repeat(' ',Span::start(Error::span(…)).column)":
        ('DC-COUNTER', 'column is bounded by the length of a line of the generated text', None, "str::repeat(' ',.column)"),
    'semantic::function::build|rt::panic_fmt(Arguments::new(const,array))':
        ('DC-INVARIANT', 'body is None only if !is_vfunc (bool::then) and no address was given, which the preceding guard '
                         'turns into Err (obligation G9 of C05 checks that guard)', 'G9', 'rt::panic_fmt(fmt(b"~function `~~` had no body assigned: ~~"))'),
    'semantic::semantic_state::SemanticState::add_file::{closure}|Overflow:Add(Span::start(Error::span(…)).column,1)':
        ('DC-COUNTER', 'column is bounded by the length of the input text', None, 'Overflow:Add(.column,1)'),
    'semantic::semantic_state::SemanticState::build|Option::unwrap(TypeRegistry::get_mut(arg:semantic::semantic_state::SemanticState.type_registry,Some!(next(…))))':
        ('DC-INVARIANT', 'the same key was looked up successfully with get() earlier in the same iteration and the registry '
                         'never removes entries', 'registry-never-removes', 'Option::unwrap(TypeRegistry::get_mut)'),
    "semantic::semantic_state::SemanticState::new|Result::expect(SemanticState::add_item(var:semantic::semantic_state::SemanticState,types::ItemDefinition{..}),'failed to add prede)":
        ('DC-INVARIANT', 'the root module is inserted immediately before and every predefined name is a one-segment literal, '
                         'so parent() is the root path and get_mut(root) succeeds', None, "Result::expect(SemanticState::add_item,'failed to add predefine)"),
    'semantic::type_definition::build|Option::unwrap(SemanticState::get_module_for_path(arg:&mut semantic::semantic_state::SemanticS,arg:&grammar::ItemPath))':
        ('DC-INVARIANT', 'the same lookup succeeded at function entry (with_context(..)?) and modules are never removed',
         'modules-never-removed', 'Option::unwrap(SemanticState::get_module_for_path)'),
    'semantic::type_definition::build|Option::unwrap(Type::alignment(Some!(…).type_ref,arg:&mut semantic::semantic_state::SemanticS.type_registry))':
        ('DC-INVARIANT', 'every region returned by resolve_regions had Some(size) there; Type::size and Type::alignment are '
                         'Some for exactly the same types (both follow resolved())', None, 'Option::unwrap(Type::alignment)'),
    'semantic::type_definition::build|Option::unwrap(Region::size(Some!(next(…)),arg:&mut semantic::semantic_state::SemanticS.type_registry))':
        ('DC-INVARIANT', 'every region returned by resolve_regions had Some(size) there (its last loop returns Ok(None) otherwise)', None, 'Option::unwrap(Region::size)'),
    'semantic::type_definition::build|RemainderByZero(Option::unwrap(Type::alignment(….type_ref,….type_registry)))':
        ('DC-INVARIANT', 'a field type\'s alignment is never 0: it is the pointer size, a built-in\'s max(size, 1), an extern type\'s validated align, '
                         'or the validated/packed alignment of a resolved type', 'alignments-nonzero', 'RemainderByZero(Option::unwrap)'),
    'util::lcm::{closure}|DivisionByZero(util::gcd(arg:usize,arg:usize))':
        ('DC-INVARIANT', 'gcd(acc, x) is 0 only for acc = x = 0; acc starts at 1 and every x is a non-zero alignment', 'alignments-nonzero', 'DivisionByZero(util::gcd)'),
    'semantic::type_definition::resolve_regions|Option::unwrap(slice::last(deref(….regions)))':
        ('DC-INVARIANT', 'reached only when checked_sub(offset, last_address) is None, i.e. last_address > 0, so a region of '
                         'non-zero size was pushed before (P1 pairs the push with the accumulator)', 'P1', 'Option::unwrap(slice::last)'),
    'semantic::type_definition::vftable::build_type|Iterator::sum(Iterator::map(slice::iter(deref(…)),closure))':
        ('DC-COUNTER', 'sum of pointer_size over slots that were each allocated as a Function value; bounded by memory', None,
         ('Iterator::sum(Iterator::map)', 'Overflow:Add(usize,Option::unwrap)')),   # or the same total kept as a running `size += ..`
    'semantic::type_definition::vftable::build_type::{closure}|Option::unwrap(Region::size(arg:&semantic::type_definition::Region,upvar0))':
        ('DC-INVARIANT', 'vftable regions are built by function_to_region only, whose type is Type::Function; its size is '
                         'Some(pointer_size) unconditionally', 'function_to_region-makes-Function', 'Option::unwrap(Region::size)'),
    "semantic::type_registry::TypeRegistry::padding_type|Option::unwrap(TypeRegistry::resolve_string(arg:&semantic::type_registry::TypeRegistry,const,'u8'))":
        ('DC-INVARIANT', 'TypeRegistry::new is pub(crate) and called only by SemanticState::new, which registers `u8` before '
                         'returning; entries are never removed', 'registry-new-only-in-semantic-state', 'Option::unwrap(TypeRegistry::resolve_string)'),
}

# loops that are not driven by a finite std iterator, with the termination argument that was reviewed and the
# fact the machinery re-checks on every run
LOOPS = {
    'util::gcd': ('EUCLID', 'b is replaced by a % b < b in every iteration and the loop exits on b == 0', 'rem-decreases'),
    'semantic::semantic_state::SemanticState::build': (
        'PROGRESS', 'every iteration either resolves at least one of finitely many items or returns Err (no-progress test, C10-D1)',
        'c10-d1'),
}
# parser loops: every trip around the loop consumes at least one token or leaves the loop
PARSER_LOOP_FNS = r'^parser::'

# recursion that follows the nesting of an owned input value (Box<Type>, base-class hierarchy)
RECURSION = {
    'semantic::types::Type::size': 'structural recursion on Box<Type> (array element)',
    'semantic::types::Type::alignment': 'structural recursion on Box<Type> (array element)',
    '<semantic::types::Type as std::fmt::Display>::fmt': 'structural recursion on Box<Type>',
    'semantic::type_registry::TypeRegistry::resolve_grammar_type': 'structural recursion on grammar::Type (Box)',
    'backends::rust::fully_qualified_type_ref_impl': 'structural recursion on Box<Type>',
    'parser::<impl syn::parse::Parse for grammar::Type>::parse': 'recursion consumes at least one token (`*`/`[`) per level',
    'semantic::type_definition::build::get_defaultable_type_path': 'structural recursion on Box<Type> (array element)',
    'semantic::type_definition::TypeDefinition::dfs_hierarchy': 'recursion into base types that are already resolved; by-value '
                                                                 'embedding of resolved types is acyclic (a type resolves only after its bases)',
}
